"""C01 — Exec calls pass through unchanged, exactly once, after logging.

proof:  props/Properties_C01.v over Gen_Wrapper.v (clang-AST skeletons of execv/execve/init/exit, regenerated)
        and Gen_Calls.v (nm -u call set + every indirect call site of the library).
tie:    system-level correspondence: production libsnoopy.so built from the snapshot, LD_PRELOADed into the scripted
        caller with librecorder.so behind it; for every call the recorder must see exactly one real call of the same
        API with the caller's own pointers and contents, the caller must get the scripted (ret, errno) back, nothing may
        reach a sink after the real call returned, and the argument memory must be unchanged.
"""
import json, os, errno as errno_mod
from vlib.core import hexs, hexlist, VERIF, CheckError
from vlib.tr_wrapper import tr_wrapper, tr_calls
from vlib.syslevel import build_prod, run_script, per_call, call_line, run_many


# the caller's environment: values with line breaks and control bytes must arrive in the new program byte for byte
ENVIRON = [b"X=from-environ", b"NL=line one\nline two\r\nline three\t.", b"PATH=/bin"]


def all_ds_format(run):
    """a message format naming every data source of the registry (the library then performs every lookup it is able to perform)"""
    import re
    src = run.src("src/datasourceregistry.c")
    m = re.search(r"snoopy_datasourceregistry_names\s*\[\s*\]\s*=\s*\{(.*?)\};", src, re.S)
    names = re.findall(r'"(\w+)"', m.group(1)) if m else ["username", "eusername", "group", "egroup", "login", "tty_username"]
    arg = {"env": ":X", "snoopy_literal": ":lit"}
    return " ".join("%%{%s%s}" % (n, arg.get(n, "")) for n in names if n)


def configs(run, d):
    out = "@D@/out.log"
    sock = "@D@/s.sock"
    base = b"[snoopy]\n"
    return [
        ("absent", None),
        ("default", base),
        ("file", base + b"output = file:" + out.encode() + b"\n"),
        ("file-fmt", base + b"output = file:" + out.encode() + b"\nmessage_format = \"%{cmdline} %{filename} %{env:X} %{env:NL} %{env_all}\"\n"),
        ("devnull", base + b"output = devnull\n"),
        ("stdout", base + b"output = stdout\n"),
        ("stderr", base + b"output = stderr\n"),
        ("socket", base + b"output = socket:" + sock.encode() + b"\n"),
        ("socket-absent", base + b"output = socket:/nonexistent/dir/x.sock\n"),
        ("devlog", base + b"output = devlog\n"),
        ("devtty", base + b"output = devtty\n"),
        ("drop", base + b"output = file:" + out.encode() + b"\nfilter_chain = \"exclude_uid:0\"\n"),
        ("pass", base + b"output = file:" + out.encode() + b"\nfilter_chain = \"only_uid:0;only_root\"\n"),
        ("errlog", base + b"error_logging = yes\noutput = file:/nonexistent/dir/out\nmessage_format = \"%{nosuch} %{cmdline}\"\n"),
        ("garbage", b"\xff\xfe[snoopy\nmessage_format = %{\noutput = nosuch:zzz\n= = =\n"),
        # both limits at their maximum, calls issued from a thread with a 192 KiB stack: the library's stack use must not grow with the limits
        ("biglimits-smallstack", base + b"log_message_max_length = 1048575\ndatasource_message_max_length = 1048575\noutput = file:" + out.encode() + b"\nmessage_format = \"%{cmdline} %{env_all}\"\n"),
        # every data source in the format, and the caller's strings inside libc's static result buffers (getpwuid/getgrgid/getpwnam)
        ("allds-libcbuf", base + b"output = file:" + out.encode() + b"\nmessage_format = \"" + all_ds_format(run).encode() + b"\"\n"),
        # the exec-calling child's parent carries a command name that looks like the tail of a stat line: ") S <its own pid>"
        ("spawns-statlike-comm", base + b"output = file:" + out.encode() + b"\nfilter_chain = \"exclude_spawns_of:nosuchprogram,sshd\"\n"),
        # the log file opens but every write fails (ENOSPC): the exec must still be reached and get its result
        ("file-devfull", base + b"output = file:/dev/full\n"),
        # output assigned twice, first with then without an argument (what the dtor frees must follow the LAST assignment)
        ("output-twice", base + b"output = file:" + out.encode() + b"\noutput = devnull\n"),
        # a limit whose buffer has no allocator slack ((max+1) % 16 == 8) and messages of exactly max, max+1, max+2 bytes
        ("len263", base + b"log_message_max_length = 263\noutput = file:" + out.encode() + b"\nmessage_format = \"%{cmdline}\"\n"),
        ("smallmsg", base + b"log_message_max_length = 255\ndatasource_message_max_length = 255\noutput = file:" + out.encode() + b"\n"),
    ]


def shapes(rng, tier):
    big = 100000 if tier == "thorough" else 20000
    many = 5000 if tier == "thorough" else 1200
    sh = [
        (b"/bin/true", [b"true"], [b"A=1", b"B=2"]),
        (b"/bin/env", [b"env"], [b"NL=own\nenvp\r\nvalue", b"X=y"]),
        (b"/nonexistent", None, None),
        (b"/x", [], []),
        (b"", [b""], [b""]),
        (b"/bin/\xff\xfe\x01 8bit", [b"\x80\x81", b"a b", b"\t\n"], [b"W\xe9=\xff"]),
        (b"/long/" + b"p" * big, [b"a" * big, b"b"], [b"E=" + b"v" * big]),
        (b"/many", [b"x%d" % i for i in range(many)], [b"V%d=%d" % (i, i) for i in range(many)]),
        (b"/fmt%{cmdline}%s%n", [b"%{filename}", b"%s%n%{"], [b"X=%{env:X}"]),
        (b"relative/path", [b"-c", b"echo hi"], None),
        (b"/e", [b"e"], []),
        # a record larger than a small thread stack (the library may not build it on the caller's stack)
        (b"/big", [b"x" * 20000] * 12, [b"B=1"]),
        (b"/l263", [b"a" * 263], []), (b"/l264", [b"a" * 264], []), (b"/l265", [b"a" * 200, b"b" * 64], []),
    ]
    for _ in range(4):
        n = rng.choice([1, 2, 7, 40])
        sh.append((bytes(rng.choice(b"/abc.") for _ in range(rng.choice([1, 10, 300]))),
                   [bytes(rng.randrange(1, 256) for _ in range(rng.choice([0, 1, 5, 200]))) for _ in range(n)],
                   [b"K%d=" % i + bytes(rng.randrange(1, 256) for _ in range(rng.choice([0, 3, 50]))) for i in range(rng.choice([0, 1, 5]))]))
    return sh


def outcomes(rng, tier):
    errs = sorted(set(getattr(errno_mod, n) for n in dir(errno_mod) if n.startswith("E") and isinstance(getattr(errno_mod, n), int)))
    outs = [(0, -1, e) for e in (errs if tier == "thorough" else rng.sample(errs, 12) + [errno_mod.ENOENT, errno_mod.EACCES, errno_mod.E2BIG])]
    outs += [(0, 0, 0), (0, 7, 0), (0, -1, 0), (1, 0, 0), (1, 0, 0)]
    return outs


CTOR_ORDERS = (("snoopy-first", "{lib} {ctor} {rec}"), ("ctorlib-first", "{ctor} {lib} {rec}"))


def ctor_exec_once(run, lib, order, tag):
    import subprocess
    from vlib.syslevel import RECORDER, parse_rec
    d = os.path.join(run.scratch, "c01-ctor-" + tag)
    os.makedirs(d, exist_ok=True)
    rec = os.path.join(d, "rec.txt")
    if os.path.exists(rec):
        os.unlink(rec)
    ctor = os.path.join(os.path.dirname(RECORDER), "libctorexec.so")
    env = {"PATH": "/usr/bin:/bin", "LD_PRELOAD": order.format(lib=lib, ctor=ctor, rec=RECORDER), "VERIF_CTOR_REC": rec}
    try:
        p = subprocess.run(["/bin/true"], env=env, cwd=d, timeout=60, stdin=subprocess.DEVNULL, stdout=subprocess.PIPE, stderr=subprocess.PIPE)
        status = p.returncode
    except subprocess.TimeoutExpired:
        status = "timeout"
    calls = per_call(parse_rec(rec)) if os.path.exists(rec) else {}
    why = None
    exp = {0: ("execve", errno_mod.EACCES, hexlist([b"CTOR=1", b"NL=a\nb"])), 1: ("execv", errno_mod.ENOENT, None)}
    if status != 0:
        why = "process started with the library preloaded ended with status %s" % status
    for i in (0, 1):
        if why:
            break
        c = calls.get(i)
        api, err, envx = exp[i]
        if c is None or len(c["real"]) != 1:
            why = "%s issued from a constructor: real function reached %s times" % (api, 0 if c is None else len(c["real"]))
        else:
            r = c["real"][0]
            if r[2] != api or r[3] != "1" or r[4] != hexs(b"/ctor/exec/path") or r[5] != hexlist([b"ctor-argv0", b"second arg", b""]) or (envx is not None and r[6] != envx):
                why = "%s issued from a constructor: arguments differ at the real call" % api
            elif c["ret"] is None or c["ret"][2] != "-1" or c["ret"][3] != str(err) or c["ret"][4] != "1":
                why = "%s issued from a constructor: caller saw %s, scripted (-1, errno %d)" % (api, c["ret"], err)
    return why, status, calls


def ctor_exec(run, lib):
    n = 0
    for tag, order in CTOR_ORDERS:
        why, status, calls = ctor_exec_once(run, lib, order, tag)
        n += 2
        if why:
            run.violation("ctor-exec:%s" % tag, "spec_violation", "%s (LD_PRELOAD order %s)" % (why, tag),
                          {"failing_input": {"scenario": "exec from a preloaded library's constructor", "order": tag, "LD_PRELOAD": order}, "ctor_order": tag, "stream": "c01-ctor"})
    return n


def check(run):
    run.snapshot()
    tr_wrapper(run)
    objs = run.build_objs("prod-ts", san=False, entry=True)
    ext, ind = tr_calls(run, objs)
    ok, failed, log = run.coq_props(["Properties_C01.v"])
    lib = build_prod(run)
    rng = run.rng
    shp = shapes(rng, run.tier)
    outs = outcomes(rng, run.tier)
    jobs = []
    nscripts = 0
    for ci in range(len(configs(run, "/x"))):
        # one process per configuration: all shapes x a rotating choice of outcomes, execve and execv alternating
        jobs.append(ci)
    sample_cases = []

    def job(ci):
        d = os.path.join(run.scratch, "c01-%d" % ci)
        os.makedirs(d, exist_ok=True)
        name, ini = configs(run, d)[ci]
        script = ["sink\tfile\tout\t@D@/out.log", "sink\tpipe\tso\t1", "sink\tpipe\tse\t2",
                  "sink\tdgram\tsock\t@D@/s.sock", "sink\tdevlog\tdevlog\t@D@/devlog.sock",
                  "ini\t" + hexs(ini) if ini is not None else "ini\t~", "env\t" + hexlist(ENVIRON)]
        plan = []
        k = 0
        for (path, argv, envp) in shp:
            reps = outs if run.tier == "thorough" else [outs[(k + j * 5 + ci) % len(outs)] for j in range(3)]
            for (mode, ret, err) in reps:
                api = "execve" if k % 2 == 0 else "execv"
                script.append(call_line(api, path, argv, envp, mode, ret, err))
                plan.append((api, path, argv, envp, mode, ret, err))
                k += 1
        if name.endswith("smallstack"):
            script.insert(7, "stack\t192")
        if name in ("drop", "pass"):
            script.insert(7, "stack\t8192")        # every call from a fresh thread: nothing a call leaves locked may stop the next thread's call
        if name == "file":
            script.insert(7, "errno\t4")           # the caller arrives with errno == EINTR (an interrupted pause/read before the exec)
        if name == "stdout":
            script.insert(7, "errno\t34")          # ... or ERANGE
        if name.startswith("spawns-statlike"):
            script.insert(7, "comm\t" + hexs(b") S @PID@"))
        if name.endswith("libcbuf"):
            script.insert(7, "libcbuf\t1")
        if ci % 4 == 1:
            script.insert(7, "env\t~")    # environ == NULL in this process
        res = run_script(run, lib, script, "c01-%d" % ci, timeout=60 if (name.startswith("spawns-") or name == "file-devfull") else 300)
        return (ci, name, plan, res, script)

    results = run_many(job, jobs, workers=8)
    ncalls = 0
    nontrivial = set()
    for (ci, name, plan, res, script) in results:
        if res["status"] != 0:
            run.violation("caller-died:%s" % name, "crash", "caller process ended with status %s under configuration '%s': %s" % (res["status"], name, res["stderr"][-400:]),
                          {"failing_input": {"config": name, "script": script[:8]}, "script": script, "stream": "c01"})
            continue
        calls = per_call(res["records"])
        envnull = (ci % 4 == 1)
        for idx, (api, path, argv, envp, mode, ret, err) in enumerate(plan):
            ncalls += 1
            nontrivial.add((name, api, hexs(path)[:40], mode, ret, err))
            c = calls.get(idx)
            why = None
            if c is None:
                why = "no record of the call"
            else:
                reals = c["real"]
                if len(reals) != 1:
                    why = "real %s called %d times" % (api, len(reals))
                else:
                    r = reals[0]
                    exp_env = hexlist(envp) if api == "execve" else ("~" if envnull else hexlist(ENVIRON))
                    if r[2] != api:
                        why = "called real %s for %s" % (r[2], api)
                    elif r[3] != "1":
                        why = "pointers handed to the real function are not the caller's own"
                    elif r[4] != hexs(path) or r[5] != hexlist(argv) or r[6] != exp_env:
                        why = "path/argv/envp content differs at the real call"
                if why is None:
                    rt = c["ret"]
                    if mode == 0:
                        if rt is None or rt[2] != str(ret) or rt[3] != str(err) or rt[4] != "1":
                            why = "caller saw %s, scripted (ret=%d, errno=%d, one call)" % (rt, ret, err)
                        elif any(h not in ("-", "~") for ph in ("after",) for (_, h) in c["sinks"].get(ph, [])):
                            why = "bytes reached a sink after the real call had returned"
                    else:
                        if rt is None or rt[2] != "child" or rt[3] != "0":
                            why = "simulated successful exec did not end inside the real function: %s" % (rt,)
                if why is None and (c["deep"] is None or c["deep"][2] != "1"):
                    why = "argument memory changed during the call"
            if why:
                case = {"config": name, "api": api, "path": hexs(path)[:200], "argv": hexlist(argv)[:200], "envp": hexlist(envp)[:200], "mode": mode, "ret": ret, "errno": err}
                run.violation("passthrough:%s" % why.split(" ")[0], "spec_violation", "%s (config %s, call %d)" % (why, name, idx),
                              {"failing_input": case, "script": script, "call_index": idx, "stream": "c01"})
                break
        if len(sample_cases) < 4 and plan:
            sample_cases.append({"config": name, "call": script[8][:200]})
    # exec calls issued from another library's constructor, before main() and (first order) before libsnoopy's own constructors
    nctor = ctor_exec(run, lib)
    ncalls += nctor
    if not ok and not run.violations:
        run.violation("proof:%s" % failed, "proof", "proof obligation no longer checks: %s\n%s" % (failed, log[-1500:]), {"theorem": failed, "coq_log": log[-3000:]})
    run.coverage.update({
        "evaluations": ncalls, "distinct_nontrivial": len(nontrivial),
        "rule": "2 LD_PRELOAD orders x 2 exec calls issued from another preloaded library's constructor; scripted calls: %d configurations x %d argument shapes (NULL/empty vectors, empty/8-bit/100kB strings, thousands of entries, format-like text) x outcomes "
                "(scripted ret/errno incl. all errno values in thorough, simulated success), execve/execv alternating, one process per configuration; "
                "distinct = (config, api, path, mode, ret, errno)" % (len(jobs), len(shp)),
        "samples": sample_cases,
        "traces_validated_against_impl": ncalls,
        "external_calls": len(ext), "indirect_call_sites": ind,
    })
    return run.finish(level="proof",
                      trusted_base=["Coq 8.16.1 kernel + vm_compute (shape checks)", "vlib/skel.py (clang -ast-dump=json -> skeleton terms)", "nm -u on objects built from the snapshot",
                                    "harness: tool_caller.c, librecorder.c (real exec = next definition after libsnoopy in LD_PRELOAD)"],
                      assumptions=["callees reached by name behave as arbitrary state transformers that return (C01_log_returns: no exit/abort/longjmp in the call set)",
                                   "dlsym(RTLD_NEXT) succeeds (func == NULL is outside the domain)"])


def replay(run, path):
    rep = json.load(open(path))
    run.snapshot()
    lib = build_prod(run)
    script = rep.get("script")
    if rep.get("ctor_order"):
        why, status, calls = ctor_exec_once(run, lib, dict(CTOR_ORDERS)[rep["ctor_order"]], "replay")
        print("status:", status, json.dumps(calls, indent=1)[:2000])
        print("REPRODUCED: " + why if why else "not reproduced: both constructor-time calls reached the real function once and returned its result")
        run.cleanup()
        return 1 if why else 0
    if not script:
        print("replay file has no script (proof-only violation): re-run ./check C01 quick")
        run.cleanup()
        return 1
    res = run_script(run, lib, script, "replay", timeout=300)
    calls = per_call(res["records"])
    i = rep.get("call_index", 0)
    print("status:", res["status"])
    print("call", i, json.dumps(calls.get(i), indent=1)[:3000])
    # verdict for that call, from the script's own call line
    bad = res["status"] != 0
    cl = [l for l in script if l.startswith("call\t")]
    envnull = any(l == "env\t~" for l in script)
    envline = [l for l in script if l.startswith("env\t") and l != "env\t~"]
    if not bad and i < len(cl):
        f = cl[i].split("\t")
        api, path, argv, envp, mode, ret, err = f[1], f[2], f[3], f[4], int(f[5]), f[6], f[7]
        c = calls.get(i)
        if c is None or len(c["real"]) != 1:
            bad = True
        else:
            r = c["real"][0]
            exp_env = envp if api == "execve" else ("~" if envnull else (envline[-1].split("\t")[1] if envline else "[]"))
            bad = r[2] != api or r[3] != "1" or r[4] != path or r[5] != argv or r[6] != exp_env
            rt = c["ret"]
            if not bad and mode == 0:
                bad = rt is None or rt[2] != ret or rt[3] != err or rt[4] != "1" or any(h not in ("-", "~") for (_, h) in c["sinks"].get("after", []))
            if not bad and mode != 0:
                bad = rt is None or rt[2] != "child" or rt[3] != "0"
            bad = bad or c["deep"] is None or c["deep"][2] != "1"
    print("REPRODUCED" if bad else "not reproduced: one real call with the caller's own arguments, result delivered")
    run.cleanup()
    return 1 if bad else 0
