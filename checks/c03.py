"""C03 — Logging failures never block, signal or abort the exec.

proof:  props/Properties_C03.v over Gen_Fault.v (T1: flag words, fopen modes, sizes, compiled registries, per-object libc call sets),
        Gen_FaultSkel.v (T2: skeletons of the eight outputs and the error handler), Gen_Wrapper.v (wrappers, action, dispatch) and
        Gen_Expand.v: for every configuration, every oracle (any number and combination of failing calls, any errno, any data) the wrapped
        call terminates with exactly one RealExec, last, whose result is returned; every call is classified non-blocking and signal-free by
        the (assumed, named) Linux table for the enumerated sink states; the error handler does not re-enter.
tie:    libfault.so (LD_PRELOAD between libsnoopy.so and librecorder.so): the libc-boundary trace of the PRODUCTION library built from the
        snapshot, for the fault-free run and for EVERY single fault position k of that trace x plausible errnos (thorough: all errnos, sampled
        pairs, strace syscall-level injection): the real exec must arrive exactly once with the scripted result, no signal, within the time
        bound; the observed call sequence must be accepted by the extracted model fed with the observed outcomes; the observed flag words must
        be classified non-blocking / signal-free.  Real sink states: missing directory, mode 000 as non-root, full tmpfs (ENOSPC), /dev/full,
        nothing bound at the socket path, a bound, unread datagram socket filled to EAGAIN (socket output and /dev/log by redirection).
"""
import errno as E, json, os, re, subprocess, glob
from vlib.core import hexs, hexlist, VERIF, CheckError
from vlib.translate import tr_expand
from vlib.tr_wrapper import tr_wrapper
from vlib.tr_output import tr_output
from vlib.tr_fault import tr_fault, fault_values
from vlib.syslevel import run_many
from vlib.faultlib import run_fscript, call_line, effective_config, cfg_fields, obs_fields, PLAUSIBLE, NEVER_FAIL, SHORT_COUNT, SHORT_FNS, ALL_ERRNOS_ALWAYS

PROMPT_BOUND_MS = 1000       # "promptly": on the sinks marked prompt=True even the fastest of three fault-free calls must stay below this (a healthy call takes a few ms)
ELAPSED_BOUND_MS = 5000      # generous: a healthy call takes a few ms; a blocked one never returns (8 s alarm in the caller)
ALL_DS = (b"io %{cwd} %{rpname} %{tty} %{tty_uid} %{tty_username} %{username} %{eusername} %{group} %{egroup} %{hostname} %{domain} %{login} "
          b"%{cgroup:name=systemd} %{cgroup:1} %{systemd_unit_name} %{datetime} %{datetime:%s} %{timestamp} %{timestamp_ms} %{timestamp_us} %{ipaddr} "
          b"%{cmdline} %{uid} %{pid} %{env:HOME} %{snoopy_threads} %{filename}")


def own_comm():
    s = open("/proc/%d/stat" % os.getpid(), "rb").read()
    return s[s.index(b"(") + 1:s.rindex(b")")]


def scenarios(tier, fv):
    """name -> dict(lines, setup, world, argv, faults: bool (all single faults), quick: bool)"""
    S = []

    def sc(name, lines, setup=(), world=("ok", "plain", "plain", "1"), argv=(b"true", b"arg"), faults=True, quick=False, ini=True, calls=1, how=None, prompt=False):
        S.append({"calls": calls, "how": how, "prompt": prompt, "name": name, "lines": [b"[snoopy]"] + list(lines) if ini else None, "setup": ([] if any(x.startswith("stdin\t") for x in setup) else ["stdin\tnull"]) + list(setup), "world": list(world),
                  "argv": list(argv), "faults": faults, "quick": quick})
    dl = "devlog\t@D@/dl.sock\t0"
    sc("ini-absent-defaults", [], setup=[dl], quick=True, ini=False)
    sc("file-all-datasources", [b"output = file:@D@/out.log", b'message_format = "' + ALL_DS + b'"', b'filter_chain = "exclude_spawns_of:nosuch,foo;only_uid:0;nosuchfilter:x;only_root"'], quick=True)
    sc("socket", [b"output = socket:@D@/s.sock", b'message_format = "s %{cmdline} %{cwd}"'], setup=["dgram\t@D@/s.sock\t0"], quick=True)
    sc("devlog-ident-template", [b"output = devlog", b'syslog_ident = "id-%{hostname}-%{tty}"', b'message_format = "d %{cmdline}"'], setup=[dl], quick=True)
    sc("terminal-on-stdin", [b"output = file:@D@/out.log", b'message_format = "p %{tty} %{tty_uid} %{tty_username} %{ipaddr}"', b'filter_chain = "only_tty"'], setup=["stdin\tpty"], quick=True)
    sc("stdout", [b"output = stdout", b'message_format = "o %{cmdline} %{login}"'], setup=["stdfd\t1\tfile:@D@/stdout.txt"], quick=True)
    sc("stderr", [b"output = stderr", b'message_format = "e %{cmdline} %{username}"'], setup=["stdfd\t2\tfile:@D@/stderr.txt"], quick=True)
    sc("file-path-template", [b"output = file:@D@/o-%{username}-%{datetime:%Y}.log", b'message_format = "t %{cmdline}"'], quick=True)
    sc("errlog-ident-overflow", [b"error_logging = yes", b'syslog_ident = "x%{cmdline}"', b"output = devlog"], setup=[dl], argv=(b"A" * 400,), quick=True)
    sc("errlog-message-overflow-file", [b"error_logging = yes", b"log_message_max_length = 255", b"output = file:@D@/out.log", b'message_format = "%{cmdline} %{cmdline} %{cwd}"'],
       argv=(b"B" * 200,), quick=False)
    sc("devtty-no-terminal", [b"output = devtty", b'message_format = "y %{cmdline}"'], world=("absent", "plain", "plain", "1"))
    sc("devnull", [b"output = devnull"])
    sc("noop-and-unknown-output", [b"output = nosuchoutput:zz", b'message_format = "n %{cmdline}"'], setup=[dl])
    sc("drop-only-tty", [b"output = file:@D@/out.log", b'filter_chain = "only_tty"'])
    sc("drop-spawn-of-ancestor", [b"output = file:@D@/out.log", b'filter_chain = "exclude_uid:12345;exclude_spawns_of:nosuch,' + own_comm() + b'"'], quick=True)
    sc("unknown-datasource", [b"output = file:@D@/out.log", b'message_format = "u %{nosuch} %{cwd}"'])
    sc("unterminated-tag", [b"output = file:@D@/out.log", b'message_format = "u %{cwd} %{cmdline"'])
    sc("failing-datasource", [b"output = file:@D@/out.log", b'message_format = "f %{cgroup} %{cwd}"'])
    sc("empty-format", [b"output = file:@D@/out.log", b'message_format = ""'])
    # ---- thorough: every output with the format that uses every I/O data source (and a chain that walks the process tree)
    if tier == "thorough":
        for nm, ol, st in (("socket", b"output = socket:@D@/s.sock", ["dgram\t@D@/s.sock\t0"]), ("devlog", b"output = devlog", [dl]), ("stdout", b"output = stdout", ["stdfd\t1\tfile:@D@/stdout.txt"]),
                           ("stderr", b"output = stderr", ["stdfd\t2\tfile:@D@/stderr.txt"]), ("devtty", b"output = devtty", []), ("devnull", b"output = devnull", []),
                           ("file-template", b"output = file:@D@/o-%{hostname}-%{rpname}.log", [])):
            sc("all-datasources-" + nm, [ol, b'message_format = "' + ALL_DS + b'"', b'syslog_ident = "i-%{login}"', b'filter_chain = "exclude_spawns_of:nosuch;only_uid:0"'], setup=st)
        sc("all-datasources-terminal", [b"output = file:@D@/out.log", b'message_format = "' + ALL_DS + b'"'], setup=["stdin\tpty"])
    # ---- real sink states (the four the property enumerates, for each sink kind that has them)
    sc("sink-file-missing-dir", [b"output = file:@D@/nodir/sub/out.log", b'message_format = "m %{cmdline}"'], world=("absent", "plain", "plain", "1"), quick=True, faults=False)
    sc("sink-file-mode-000", [b"output = file:@D@/locked/out.log", b'message_format = "m %{cmdline}"'], setup=["mkdir\t@D@/locked\t000", "uid\t65534"],
       world=("noperm", "plain", "plain", "1"), quick=True, faults=False)
    sc("sink-file-readonly-000", [b"output = file:@D@/ro.log", b'message_format = "m %{cmdline}"'], setup=["mkfile\t@D@/ro.log\t000", "uid\t65534"],
       world=("noperm", "plain", "plain", "1"), quick=True, faults=False)
    sc("sink-file-devfull", [b"output = file:/dev/full", b'message_format = "m %{cmdline}"'], world=("nospace", "plain", "plain", "1"), quick=True, faults=False)
    sc("sink-file-tmpfs-full", [b"output = file:@D@/full/out.log", b'message_format = "m %{cmdline}"'], setup=["#tmpfs\t@D@/full"], world=("nospace", "plain", "plain", "1"), quick=True, faults=False)
    # a listening STREAM socket whose accept backlog is full and which nobody accepts from, at the socket path and behind /dev/log:
    # the datagram connect() is refused (EPROTOTYPE); anything that falls back to a blocking stream connect() would sleep
    sc("sink-socket-stream-listener-full", [b"output = socket:@D@/st.sock", b'message_format = "m %{cmdline}"'], setup=["stream\t@D@/st.sock"], world=("absent", "plain", "plain", "1"), quick=True, faults=False)
    sc("sink-devlog-stream-listener-full", [b"output = devlog"], setup=["devlog-stream\t@D@/dls.sock"], world=("absent", "plain", "plain", "1"), quick=True, faults=False)
    # the caller has no descriptor 0: the log file is opened on descriptor 0
    sc("file-output-stdin-closed", [b"output = file:@D@/out.log", b'message_format = "c %{cmdline}"'], setup=["stdin\tclosed"], quick=True)
    # an ancestor whose process name contains ") S <pid>": the walk of exclude_spawns_of must take the LAST ')' of /proc/<pid>/stat
    sc("ancestor-name-with-paren", [b"output = file:@D@/out.log", b'message_format = "a %{cmdline} %{rpname}"', b'filter_chain = "exclude_spawns_of:cron,backupd"'],
       setup=["parentname\ta) S %d"], quick=True, faults=False)
    # the log file is there and writable, but another open file description holds an exclusive flock on it (log shipper, rotation job)
    sc("sink-file-flocked-by-another", [b"output = file:@D@/locked.log", b'message_format = "m %{cmdline}"'], setup=["flockfile\t@D@/locked.log"], quick=True, faults=False)
    # the caller's working directory has been removed: getcwd() fails with ENOENT for real (message format, path template and ident all use %{cwd})
    sc("cwd-removed", [b"output = file:@D@/o-%{cwd}.log", b'message_format = "w %{cwd} %{cmdline}"'], setup=["rmcwd\t@D@/gone"], quick=True, faults=False)
    # error logging on + an output that fails + the CALLER's stdout and stderr are reader-less / full pipes: a failed dispatch must not be reported there
    sc("errlog-failing-output-caller-pipes-readerless", [b"error_logging = yes", b"output = file:@D@/nodir/out.log", b'message_format = "m %{cmdline}"'],
       setup=["stdfd\t1\tpipe-noreader", "stdfd\t2\tpipe-noreader"], world=("absent", "noreader", "noreader", "1"), quick=True, faults=False)
    sc("errlog-failing-output-caller-pipes-full", [b"error_logging = yes", b"output = socket:@D@/nothing.sock", b'message_format = "m %{cmdline}"'],
       setup=["stdfd\t1\tpipe-full", "stdfd\t2\tpipe-full"], world=("absent", "full", "full", "1"), quick=True, faults=False)
    # a second THREAD makes an exec call after the main thread's call met failing lookups (terminal without utmp record, %{datetime} format that
    # overflows strftime's buffer): whatever the first call left locked blocks the second; then the main thread again
    sc("second-thread-after-failed-lookups", [b"output = file:@D@/out.log", b'message_format = "t %{ipaddr} %{datetime:' + b"%Y-%m-%d %H:%M:%S " * 6 + b'} %{datetime:%s} %{cmdline}"'],
       setup=["stdin\tpty"], quick=True, faults=False, calls=3, how=[None, "thread", None])
    sc("second-thread-after-filter-drop", [b"output = file:@D@/out.log", b'filter_chain = "only_tty"'], quick=True, faults=False, calls=3, how=[None, "thread", None])
    # the caller arrives with a stale errno (EINTR from an interrupted pause()/read()); the configuration file is there and readable
    sc("caller-errno-eintr", [b"output = file:@D@/out.log", b'message_format = "e %{cmdline}"'], quick=True, faults=False, calls=2, how=["errno=4", "errno=11"])
    # a STALE socket file (its owner is gone, connect() is refused) at the socket path and behind /dev/log: the exec must still be reached PROMPTLY -
    # three calls, the FASTEST of them is held against the bound (robust against load spikes; a retry-with-sleep policy delays every one of them)
    sc("sink-socket-stale-file", [b"output = socket:@D@/stale.sock", b'message_format = "m %{cmdline}"'], setup=["stalesock\t@D@/stale.sock"], world=("absent", "plain", "plain", "1"),
       quick=True, faults=False, calls=3, prompt=True)
    sc("sink-devlog-stale-file", [b"output = devlog"], setup=["devlog-stale\t@D@/dlstale.sock"], world=("absent", "plain", "plain", "1"), quick=True, faults=False, calls=3, prompt=True)
    sc("sink-socket-absent", [b"output = socket:@D@/nothing.sock", b'message_format = "m %{cmdline}"'], world=("absent", "plain", "plain", "1"), quick=True, faults=False)
    sc("sink-socket-full-unread", [b"output = socket:@D@/s.sock", b'message_format = "m %{cmdline}"'], setup=["dgram\t@D@/s.sock\t1"], world=("dgramfull", "plain", "plain", "1"), quick=True, faults=False)
    sc("sink-devlog-absent", [b"output = devlog"], setup=["devlog-absent\t@D@/nothing.sock"], world=("absent", "plain", "plain", "1"), quick=True, faults=False)
    sc("sink-devlog-full-unread", [b"output = devlog"], setup=["devlog\t@D@/dl.sock\t1"], world=("dgramfull", "plain", "plain", "1"), quick=True, faults=False)
    sc("sink-stdout-devfull", [b"output = stdout"], setup=["stdfd\t1\tfile:/dev/full"], world=("nospace", "plain", "plain", "1"), quick=True, faults=False)
    # "promptly" on every real sink state that needs no privileged set-up: three fault-free calls, the fastest held against PROMPT_BOUND_MS
    for x in S:
        if x["name"].startswith("sink-") and not x["faults"] and not any(l.startswith(("uid\t", "#tmpfs")) for l in x["setup"]):
            x["calls"], x["prompt"] = max(x["calls"], 3), True
    return S


def script_of(s, plans, retcodes=None):
    lines = list(s["setup"])
    ini = "ini\t~" if s["lines"] is None else "ini\t" + hexs(b"\n".join(s["lines"]) + b"\n")
    # the configuration file must exist before a uid drop; put it first
    lines = [ini] + lines
    for i, pl in enumerate(plans):
        ret, err = (retcodes[i] if retcodes else (-1, E.ENOENT))
        how = (s.get("how") or [None])[i % len(s.get("how") or [None])]
        lines.append(call_line("execve" if i % 2 == 0 else "execv", b"/bin/true", s["argv"], [b"HOME=/root", b"PATH=/bin"] if i % 2 == 0 else None, ret, err, pl, how))
    return lines


class TmpfsFull:
    """a tiny tmpfs filled to ENOSPC at <dir>/full (mounted by the harness when permitted)"""
    def __init__(self, d):
        self.mnt = os.path.join(d, "full")
        self.ok = False

    def __enter__(self):
        os.makedirs(self.mnt, exist_ok=True)
        p = subprocess.run(["mount", "-t", "tmpfs", "-o", "size=16k,mode=0777", "tmpfs", self.mnt], stdout=subprocess.PIPE, stderr=subprocess.STDOUT)
        if p.returncode == 0:
            self.ok = True
            open(os.path.join(self.mnt, "out.log"), "wb").close()
            try:
                with open(os.path.join(self.mnt, "filler"), "wb") as f:
                    while True:
                        f.write(b"x" * 4096)
                        f.flush()
            except OSError:
                pass
        return self

    def __exit__(self, *a):
        if self.ok:
            subprocess.run(["umount", "-l", self.mnt], stdout=subprocess.PIPE, stderr=subprocess.STDOUT)


def run_scenario(run, lib, s, plans, tag, retcodes=None):
    d = os.path.join(run.scratch, "f-" + tag)
    os.makedirs(d, exist_ok=True)
    script = [l for l in script_of(s, plans, retcodes) if not l.startswith("#tmpfs")]
    if any(l.startswith("#tmpfs") for l in s["setup"]):
        with TmpfsFull(d) as t:
            r = run_fscript(run, lib, script, tag)
            r["tmpfs"] = t.ok
            return r, script
    return run_fscript(run, lib, script, tag), script


def pure_spec(cf, argv, uid):
    """answers for the model's CPure steps: verdicts of the uid filters, length of %{cmdline}; everything else 1"""
    items = ["*=1"]
    for spec in cf["chain"].split(b";"):
        name, _, arg = spec.partition(b":")
        if name in (b"only_uid", b"exclude_uid"):
            ids = [x for x in arg.split(b",") if x.isdigit()]
            member = any(int(x) == uid for x in ids)
            items.append("%s=%d" % (name.hex(), (0 if member else 1) if name == b"only_uid" else (1 if member else 0)))
        elif name == b"only_root":
            items.append("%s=%d" % (name.hex(), 0 if uid == 0 else 1))
    items.append("%s=%d" % (b"cmdline".hex(), len(b" ".join(argv))))
    # systemd_unit_name: what kind of name=systemd entry this process has
    kind = 0
    try:
        for l in open("/proc/self/cgroup", "rb"):
            f = l.rstrip(b"\n").split(b":", 2)
            if len(f) == 3 and f[1] == b"name=systemd":
                kind = 2 if f[2].startswith(b"/user.slice/user-") and b"." in f[2][len(b"/user.slice/user-"):] else 1
                break
    except OSError:
        pass
    items.append("%s=%d" % (b"systemd:entry".hex(), kind))
    return ",".join(items)


def model_cases(fv, s, call, rundir):
    """the two driver lines (accept, spec) for one observed call"""
    D = rundir.encode()
    ini_path = os.path.join(rundir, "snoopy.ini").encode()
    lines = [l.replace(b"@D@", D) + b"\n" for l in (s["lines"] or [])]
    io = call["io"]
    nread = 0
    if io and io[0][1] == "fopen" and io[0][4] != "0":
        for r in io[1:]:
            if r[1] == "fgets" and r[4] != "0":
                nread += 1
            else:
                break
    enabled = fv["outputs_enabled"]
    cfg_none = effective_config(fv["defaults"], [], enabled)
    cfg_some = effective_config(fv["defaults"], lines[:nread], enabled)
    uid = 65534 if any(x.startswith("uid\t") for x in s["setup"]) else os.geteuid()
    acc = ["accept", hexs(ini_path), "4000"] + cfg_fields(cfg_none) + cfg_fields(cfg_some) + [pure_spec(cfg_some if nread or (io and io[0][4] != "0") else cfg_none, s["argv"], uid)] \
        + obs_fields(io, call["exec_mark"])
    spec = ["spec"] + s["world"] + obs_fields(io, call["exec_mark"])
    return "\t".join(acc), "\t".join(spec)


def judge_call(call, plan, retcode):
    """process-boundary verdict for one wrapped call: (kind, signature, text) or None"""
    ret, err = retcode
    if call["fatal"]:
        if call["fatal"].startswith("timeout"):
            return ("timeout", "blocked", "the call did not reach the real exec within the caller's alarm (blocked in logging)")
        return ("crash", "crash:" + call["fatal"], "the caller died inside the wrapped call (%s)" % call["fatal"])
    r = call["ret"]
    if r is None:
        return ("crash", "crash:no-return", "the wrapped call never returned to the caller")
    if len(call["real"]) != 1 or r[4] != "1":
        return ("spec_violation", "exec-count", "the real exec was reached %d times (must be exactly once)" % len(call["real"]))
    if r[2] != str(ret) or r[3] != str(err):
        return ("spec_violation", "exec-result", "caller saw (ret=%s, errno=%s), the real exec returned (%d, %d)" % (r[2], r[3], ret, err))
    if r[6] != "-":
        return ("spec_violation", "signal", "signal(s) %s delivered to the caller during the wrapped call" % r[6])
    if int(r[5]) > ELAPSED_BOUND_MS:
        return ("timeout", "slow", "the real exec was reached only after %s ms" % r[5])
    if not call["exec_mark"]:
        return ("spec_violation", "exec-count", "the wrappers' next exec function was not reached")
    return None


def positions(call):
    return [(int(r[0]), r[1]) for r in call["io"] if r[1] not in NEVER_FAIL]


def check(run):
    run.snapshot()
    tr_expand(run)
    tr_wrapper(run)
    tr_output(run)
    objs = run.build_objs("prod-ts", san=False, entry=True)
    tr_fault(run, objs)
    ok, failed, log = run.coq_props(["Properties_C03.v"])
    # constants for everything model-side from here on: run.consts (replaced IN PLACE by the reference constants when an obligation is broken)
    fv = fault_values(run)
    lib = os.path.join(run.scratch, "lib-prod-ts.so")
    run.link(lib, [], objs, san=False, shared=True)
    os.chmod(run.scratch, 0o755)
    rng = run.rng
    thorough = run.tier == "thorough"
    scs = scenarios(run.tier, fv)
    # ---- corpus first (regressions of repaired defects): each file is a scenario
    corpus = []
    for p in sorted(glob.glob(os.path.join(VERIF, "corpus", "C03", "*.json"))):
        c = json.load(open(p))
        corpus.append({"name": "corpus:" + os.path.basename(p)[:-5], "lines": [x.encode("latin-1") for x in c["lines"]], "setup": c["setup"], "world": c["world"],
                       "argv": [bytes.fromhex(x) for x in c["argv_hex"]], "faults": True, "quick": True})
    todo = corpus + [s for s in scs if thorough or s["quick"]]
    state = {"ncalls": 0, "nruns": 0, "naccept": 0, "distinct": set(), "fnset": set(), "maxtrace": 0, "samples": [], "tmpfs": None, "pairs": 0, "strace": 0}
    cases, case_ref = [], []     # driver lines and where they came from

    def report(s, script, idx, plan, kind, sig, text, extra=None):
        rep = {"failing_input": {"scenario": s["name"], "config": [x.decode("latin-1") for x in (s["lines"] or [])], "setup": s["setup"], "argv_hex": [a.hex() for a in s["argv"]][:4],
                                 "fault_plan": plan or "-", "call_index": idx},
               "script": script, "call_index": idx}
        rep.update(extra or {})
        run.violation("%s:%s" % (s["name"] if s["name"].startswith("corpus") else "run", sig), kind,
                      "%s [scenario %s, fault plan %s]" % (text, s["name"], plan or "none"), rep)

    def consume(s, res, script, plans, retcodes, tag):
        calls = res["calls"]
        state["nruns"] += 1
        if s.get("prompt") and tag == "base":
            ms = [int(c["ret"][5]) for c in calls if c["ret"] is not None and not c["fatal"]]
            if len(ms) >= 3 and min(ms) > PROMPT_BOUND_MS:
                report(s, script, ms.index(min(ms)), "-", "timeout", "not-prompt", "the real exec was reached only after %s ms in each of %d fault-free calls (fastest %d ms, bound %d ms): "
                       "the caller is held up by the log sink" % (ms, len(ms), min(ms), PROMPT_BOUND_MS))
        for i, pl in enumerate(plans):
            if i >= len(calls):
                report(s, script, i, pl, "crash", "crash:process", "the caller process ended (status %s) before call %d: %s" % (res["status"], i, res["stderr"][-300:]))
                return
            c = calls[i]
            state["ncalls"] += 1
            j = judge_call(c, pl, retcodes[i])
            if j:
                report(s, script, i, pl, j[0], j[1], j[2], {"observed_tail": c["io"][-6:]})
                if c["fatal"]:
                    return
                continue
            a, sp = model_cases(fv, s, c, res["dir"])
            cases.append(a); case_ref.append((s, script, i, pl, "accept", c))
            cases.append(sp); case_ref.append((s, script, i, pl, "spec", c))
            state["distinct"].add((s["name"], tuple(r[1] + ("!" if r[5] != "0" or r[4] in ("-1",) else "") for r in c["io"])))
            state["maxtrace"] = max(state["maxtrace"], len(c["io"]))
            for r in c["io"]:
                state["fnset"].add(r[1])

    def job(s):
        import random
        rng = random.Random("%d:%s" % (run.seed, s["name"]))      # per scenario: the plans do not depend on thread scheduling
        out = []
        nbase = s.get("calls", 1) or 1
        res, script = run_scenario(run, lib, s, ["-"] * nbase, "%s-base" % re.sub(r"[^a-z0-9]+", "-", s["name"]))
        if "tmpfs" in res:
            state["tmpfs"] = res["tmpfs"]
        out.append((s, res, script, ["-"] * nbase, [(-1, E.ENOENT)] * nbase, "base"))
        if not s["faults"] or not res["calls"] or res["calls"][0]["fatal"] or res["calls"][0]["ret"] is None:
            return out
        pos = positions(res["calls"][0])
        plans = []
        for (k, fn) in pos:
            errs = PLAUSIBLE.get(fn, [E.EIO])
            chosen = list(errs) if (thorough or fn in ALL_ERRNOS_ALWAYS) else [errs[(k + run.seed) % len(errs)]]
            if fn in SHORT_FNS:
                chosen.append(SHORT_COUNT)
            if not thorough:      # plus the errno a retry loop would spin on
                chosen += [e for e in (E.EINTR, E.EAGAIN) if e in errs and e not in chosen][:1]
            for e in chosen:
                plans.append("%d:%d" % (k, e))
        # every occurrence of one function fails with the errno a retry loop would spin on (EINTR / EAGAIN), else with its first plausible errno
        for fn in sorted(set(f for _, f in pos)):
            errs = PLAUSIBLE.get(fn, [E.EIO])
            for e in ([x for x in (E.EINTR, E.EAGAIN) if x in errs] or errs[:1]):
                plans.append("%s#*:%d" % (fn, e))
        if thorough and len(pos) >= 2:
            for _ in range(min(2000, len(pos) * 12)):
                (k1, f1), (k2, f2) = sorted(rng.sample(pos, 2))
                plans.append("%d:%d,%d:%d" % (k1, rng.choice(PLAUSIBLE.get(f1, [E.EIO])), k2, rng.choice(PLAUSIBLE.get(f2, [E.EIO]))))
                state["pairs"] += 1
            for _ in range(min(600, len(pos) * 4) if len(pos) >= 3 else 0):
                tr = sorted(rng.sample(pos, 3))
                plans.append(",".join("%d:%d" % (k, rng.choice(PLAUSIBLE.get(f, [E.EIO]))) for (k, f) in tr))
                state["pairs"] += 1
        # scripted results of the real exec vary as well
        rcs = [(-1, [E.ENOENT, E.EACCES, E.E2BIG, E.ENOEXEC][i % 4]) if i % 5 else (0, 0) for i in range(len(plans))]
        CH = 60
        for b in range(0, len(plans), CH):
            tag = "%s-f%d" % (re.sub(r"[^a-z0-9]+", "-", s["name"]), b)
            r2, sc2 = run_scenario(run, lib, s, plans[b:b + CH], tag, rcs[b:b + CH])
            out.append((s, r2, sc2, plans[b:b + CH], rcs[b:b + CH], tag))
        return out

    results = run_many(job, todo, workers=6)
    for out in results:
        for (s, res, script, plans, rcs, tag) in out:
            consume(s, res, script, plans, rcs, tag)
            if tag == "base" and len(state["samples"]) < 4 and res["calls"]:
                state["samples"].append({"scenario": s["name"], "trace_len": len(res["calls"][0]["io"]), "first_calls": [r[1] for r in res["calls"][0]["io"][:8]]})
    # ---- thorough: independent re-check of the compiled property file with coqchk
    if thorough and ok:
        from vlib.core import THEORIES
        p = subprocess.run(["timeout", "900", "coqchk", "-o", "-silent", "-Q", THEORIES, "Snoopy", "-Q", run.gen, "Gen", "-Q", os.path.join(run.scratch, "props"), "Props", "Props.Properties_C03"],
                           stdout=subprocess.PIPE, stderr=subprocess.STDOUT, text=True)
        good = p.returncode == 0 and "Axioms: <none>" in p.stdout and "type-in-type: <none>" in p.stdout and "unsafe (co)fixpoints: <none>" in p.stdout and "positivity is assumed: <none>" in p.stdout
        run.coverage["coqchk"] = "ok: no axioms, no type-in-type, no unsafe fixpoints, no assumed positivity" if good else "FAILED"
        if not good:
            ok, failed, log = False, "coqchk", p.stdout
    # ---- thorough: strace --inject single faults over the raw syscall stream (search only)
    if thorough and not run.violations:
        strace_search(run, lib, [s for s in scs if s["name"] in ("file-all-datasources", "socket", "devlog-ident-template", "terminal-on-stdin", "stdout", "stderr", "file-path-template", "errlog-ident-overflow")], state, report)
    # ---- the model: acceptance of every observed trace + the property on the observed calls
    cp = os.path.join(run.scratch, "c03-cases.txt")
    open(cp, "w").write("".join(c + "\n" for c in cases))
    mo = run.run_model("fault", cp, cp + ".out") if cases else []
    corr_bad = []
    for line, (s, script, i, pl, what, c) in zip(mo, case_ref):
        if line.startswith("driver-error"):
            raise CheckError("model driver: %s (scenario %s plan %s)" % (line, s["name"], pl))
        if what == "accept":
            if line.startswith("ok"):
                state["naccept"] += 1
            else:
                corr_bad.append((s, script, i, pl, line, c))
        elif not line.startswith("ok"):
            why = line.split("\t", 1)[1] if "\t" in line else line
            report(s, script, i, pl, "spec_violation", "table:" + why.split(":")[0], "an observed call is not in the non-blocking / signal-free class of the table: %s" % why,
                   {"observed_tail": c["io"][-6:]})
    if corr_bad and not run.violations:
        s, script, i, pl, line, c = corr_bad[0]
        run.violation("corr:trace", "correspondence", "the observed libc-boundary call sequence is not a run of the model: %s [scenario %s, fault plan %s] (%d such traces)" % (
            line.replace("\t", " "), s["name"], pl, len(corr_bad)), {"stream": "fault-trace", "script": script, "call_index": i, "model_says": line, "observed": [r[1:4] for r in c["io"]][:200]})
    if not ok and not any(v["kind"] not in ("correspondence", "proof") for v in run.violations):
        unrec = [n for n in run.notes if n.startswith("translator:") or n.startswith("skeleton translator:")]
        run.violation("proof:%s" % failed, "proof", "proof obligation no longer checks: %s%s\n%s" % (
            failed, ("; not recognised by the translator: " + "; ".join(unrec)) if unrec else "", log[-1500:]), {"theorem": failed, "coq_log": log[-3000:], "translator_notes": unrec})
    run.coverage.update({
        "evaluations": state["ncalls"], "distinct_nontrivial": len(state["distinct"]),
        "rule": "per scenario (output x format x filter chain x sink state): the fault-free call, then one call per (position k of its libc-boundary trace, plausible errno of the "
                "function at k) [quick: one errno per position, rotating with the seed; thorough: every listed errno, sampled pairs, all occurrences of one function, strace "
                "--inject over raw syscalls]; each call checked at the process boundary (one real exec, scripted result, no signal, elapsed < %d ms) and its trace accepted by the "
                "extracted model; distinct = (scenario, sequence of (function, failed?))" % ELAPSED_BOUND_MS,
        "samples": state["samples"],
        "distribution": {"scenarios": [s["name"] for s in todo], "processes": state["nruns"], "longest_trace": state["maxtrace"], "functions_seen": sorted(state["fnset"]),
                         "sampled_pairs": state["pairs"], "strace_injections": state["strace"], "tmpfs_mounted": state["tmpfs"]},
        "traces_validated_against_impl": state["naccept"],
        "model_rejections": len(corr_bad),
    })
    observations = observe_outside(run, lib, fv)
    run.coverage["observations_outside_enumerated_states"] = observations
    for o_ in observations:
        run.notes.append("outside the enumerated sink states (not claimed either way): %s -> observed: %s; table: %s" % (o_["state"], o_["observed"], o_["table"]))
    if state["tmpfs"] is False:
        run.notes.append("mount of a tiny tmpfs was not permitted: ENOSPC sink state covered by /dev/full and by injection only")
    run.notes.append("stdout/stderr outputs write to descriptors the caller owns (SIGPIPE / blocking on a reader-less or full pipe possible), file: pointed at a FIFO and a "
                     "flow-controlled /dev/tty block: outside the enumerated sink states; marked may_block/may_signal in the table, not claimed either way")
    return run.finish(level="proof",
                      trusted_base=["Coq 8.16.1 kernel + vm_compute", "the classification table Fault/Table.v (linux_table): an assumption about Linux/glibc, not proved",
                                    "vlib/tr_fault.py (gcc -E + regex, compiler-evaluated flag words, nm per object), vlib/skel.py (clang AST skeletons), tr_expand, tr_wrapper",
                                    "extraction ExtrOcamlBasic + ocaml/drv_fault.ml", "harness/libfault.c, tool_fcaller.c, librecorder.c; strace 6.1 (thorough)"],
                      assumptions=["glibc-internal system calls (NSS lookups, ttyname_r, localtime_r, utmp) are ONE abstract call each with an abstract outcome (partial)",
                                   "process tree finite and well-founded, files have finitely many lines (hypotheses of C03_reaches_exec, discharged by the oracle's world)",
                                   "allocation failure and dlsym failure are outside the domain"])


STRACE_ERRS = {"openat": ["ENOENT", "EMFILE", "EINTR"], "read": ["EIO", "EINTR", "EAGAIN"], "write": ["ENOSPC", "EIO", "EINTR", "EAGAIN"], "close": ["EIO", "EINTR"],
               "socket": ["EMFILE", "ENOBUFS"], "connect": ["ECONNREFUSED", "ENOENT", "EAGAIN", "EINTR"], "sendto": ["EAGAIN", "ENOBUFS", "ECONNREFUSED", "EINTR"],
               "newfstatat": ["EACCES", "EIO"], "fstat": ["EIO"], "getcwd": ["ENOENT"], "ioctl": ["ENOTTY", "EIO"], "readlink": ["EACCES"], "readlinkat": ["EACCES"],
               "lseek": ["ESPIPE"], "access": ["EACCES"], "faccessat": ["EACCES"], "fcntl": ["EINTR", "EAGAIN"], "statx": ["EACCES"], "getdents64": ["EIO"]}


def observe_outside(run, lib, fv):
    """States the property does NOT enumerate, run for the record (never a verdict): what really happens, and what the table says."""
    obs = []
    cases = [
        ("stdout output, caller's stdout is a pipe without reader", [b"output = stdout"], ["stdfd\t1\tpipe-noreader"], ["ok", "noreader", "plain", "1"]),
        ("stderr output, caller's stderr is a pipe without reader", [b"output = stderr"], ["stdfd\t2\tpipe-noreader"], ["ok", "plain", "noreader", "1"]),
        ("stdout output, caller's stdout is a full pipe nobody drains", [b"output = stdout"], ["stdfd\t1\tpipe-full"], ["ok", "full", "plain", "1"]),
        ("file output pointed at a FIFO nobody reads", [b"output = file:@D@/fifo"], ["fifo\t@D@/fifo"], ["fifo", "plain", "plain", "1"]),
    ]
    lines = []
    res_all = []
    for i, (what, ini, setup, world) in enumerate(cases):
        s = {"name": "observe-%d" % i, "lines": [b"[snoopy]"] + ini + [b'message_format = "x %{cmdline}"'], "setup": ["stdin\tnull", "timeout\t2"] + setup, "world": world, "argv": [b"true"]}
        res, script = run_scenario(run, lib, s, ["-"], "observe-%d" % i)
        c = res["calls"][0] if res["calls"] else None
        if c is None:
            seen = "caller died before the call"
        elif c["fatal"]:
            seen = "BLOCKED (no return within 2 s)" if c["fatal"].startswith("timeout") else "died: " + c["fatal"]
        elif c["ret"] is not None and c["ret"][6] != "-":
            seen = "signal %s delivered to the caller, exec reached" % c["ret"][6]
        else:
            seen = "exec reached, no signal"
        res_all.append((what, seen, s, c))
        # what the table says about the same world, on a nominal trace of that output (from the fault-free run of a healthy sink)
        nominal = {"stdout": [["0", "dprintf", "1", "-", "5", "0", "-", "0"]], "stderr": [["0", "fprintf", "stderr", "-", "5", "0", "-", "0"]],
                   "file": [["0", "open", (b"/x").hex(), str(fv["file_oflags"]), "0", "0", "-", "0"], ["1", "write", "reg", "5", "5", "0", "-", "0"]]}[ini[0].split(b"=")[1].strip().split(b":")[0].decode()]
        lines.append("\t".join(["spec"] + world + obs_fields(nominal, True)))
    cp = os.path.join(run.scratch, "c03-observe.txt")
    open(cp, "w").write("".join(l + "\n" for l in lines))
    mo = run.run_model("fault", cp, cp + ".out")
    for (what, seen, s, c), verdict in zip(res_all, mo):
        obs.append({"state": what, "observed": seen, "table": verdict.replace("\t", " ")})
    return obs


def strace_search(run, lib, scs, state, report):
    """single faults over the RAW syscall stream between the harness markers (including the syscalls glibc makes inside one abstract
    call of the model): search, not proof.  A first traced run locates, per syscall name, the occurrences between the markers; then one
    run per (occurrence, errno) with strace -e inject=<syscall>:error=<errno>:when=<n>.  libfault only writes its markers (VERIF_FAULT_QUIET)."""
    names = ",".join(sorted(STRACE_ERRS))
    jobs = []
    for s in scs:
        tag = "st-%s-base" % re.sub(r"[^a-z0-9]+", "-", s["name"])
        script = script_of(s, ["-"])
        log = os.path.join(run.scratch, tag + ".strace")
        res = run_fscript(run, lib, script, tag, strace=["-f", "-o", log, "-e", "trace=" + names, "-E", "VERIF_FAULT_QUIET=1"])
        if not os.path.exists(log):
            continue
        before, between, phase = {}, {}, 0
        for line in open(log, errors="replace"):
            m = re.match(r"^\d+\s+(\w+)\(", line)
            if not m:
                continue
            sysc = m.group(1)
            if sysc == "write" and '"mark\\tbegin' in line:
                before[sysc] = before.get(sysc, 0) + 1
                phase = 1
                continue
            if sysc == "write" and '"mark\\texec' in line:
                phase = 2
                continue
            if phase == 0:
                before[sysc] = before.get(sysc, 0) + 1
            elif phase == 1:
                between[sysc] = between.get(sysc, 0) + 1
        if phase != 2:
            continue
        for sysc, n in sorted(between.items()):
            occ = list(range(1, n + 1))
            if n > 40:
                occ = occ[:20] + run.rng.sample(occ[20:], 20)
            for j in occ:
                for err in STRACE_ERRS.get(sysc, []):
                    jobs.append((s, script, sysc, err, before.get(sysc, 0) + j))

    def one(j):
        s, script, sysc, err, when = j
        tag = "st-%s-%s-%s-%d" % (re.sub(r"[^a-z0-9]+", "-", s["name"]), sysc, err, when)
        return (j, run_fscript(run, lib, script, tag, strace=["-f", "-o", "/dev/null", "-e", "trace=" + sysc, "-e", "inject=%s:error=%s:when=%d" % (sysc, err, when), "-E", "VERIF_FAULT_QUIET=1"]))
    for (j, res) in run_many(one, jobs, workers=6):
        s, script, sysc, err, when = j
        state["strace"] += 1
        if not res["calls"]:
            continue
        c = res["calls"][0]
        plan = "strace inject=%s:error=%s:when=%d" % (sysc, err, when)
        # the injection may also have hit one of the harness's own record writes: only verdicts that do not depend on a complete record count
        if c["fatal"]:
            v = judge_call(c, None, (-1, E.ENOENT))
            report(s, script, 0, plan, v[0], "strace:" + v[1], v[2] + " (syscall-level injection)")
        elif c["ret"] is not None and (c["ret"][4] != "1" or c["ret"][6] != "-"):
            report(s, script, 0, plan, "spec_violation", "strace:exec-or-signal", "real exec reached %s times, signals %s (syscall-level injection)" % (c["ret"][4], c["ret"][6]))


def replay(run, path):
    rep = json.load(open(path))
    run.snapshot()
    objs = run.build_objs("prod-ts", san=False, entry=True)
    lib = os.path.join(run.scratch, "lib-prod-ts.so")
    run.link(lib, [], objs, san=False, shared=True)
    os.chmod(run.scratch, 0o755)
    script = rep.get("script")
    if not script:
        print("proof-only violation (%s): re-run ./check C03 quick" % rep.get("theorem"))
        run.cleanup()
        return 1
    d = os.path.join(run.scratch, "f-replay")
    os.makedirs(d, exist_ok=True)
    plan = (rep.get("failing_input") or {}).get("fault_plan", "")
    st = None
    if plan.startswith("strace inject="):
        spec = plan[len("strace inject="):]
        st = ["-f", "-o", "/dev/null", "-e", "trace=" + spec.split(":")[0], "-e", "inject=" + spec, "-E", "VERIF_FAULT_QUIET=1"]
    if any("/full/" in l for l in script):
        with TmpfsFull(d):
            res = run_fscript(run, lib, script, "replay", strace=st)
    else:
        res = run_fscript(run, lib, script, "replay", strace=st)
    i = rep.get("call_index", 0)
    print("process status:", res["status"], res["stderr"][-300:])
    bad = 0
    for c in res["calls"]:
        if c["idx"] != i:
            continue
        print("call %d: fatal=%s ret=%s real_exec_calls=%d exec_marker=%s" % (i, c["fatal"], c["ret"], len(c["real"]), c["exec_mark"]))
        for r in c["io"][-12:]:
            print("   ", r[0], r[1], r[2][:40], r[3][:20], "ret=" + r[4], "errno=" + r[5], "injected" if r[7] == "1" else "")
        if c["fatal"] or c["ret"] is None or len(c["real"]) != 1 or (c["ret"] and c["ret"][6] != "-"):
            bad = 1
    if len(res["calls"]) <= i:
        print("the caller died before call", i)
        bad = 1
    print("REPRODUCED" if bad else "not reproduced at the process boundary (see the replay file for the model/table verdict)")
    run.cleanup()
    return 1 if bad else 0
