"""C04 — Exactly one faithful record per logged exec, none when filtered.

proof:  props/Properties_C04.v over Gen_Output.v (T1: modes/flags/format strings of src/output/*.c) and Gen_Wrapper.v
        (T2: action and dispatch skeletons).
tie:    system-level correspondence: production libsnoopy.so from the snapshot; the harness owns every candidate sink
        (file, fds 1 and 2 as pipes, a pty as /dev/tty, datagram sockets at the configured path and behind /dev/log);
        the recorder drains all of them AT EXEC ENTRY; the observed records must be exactly those predicted by the
        extracted models (message: Expand; frame and sink: Output), and nothing may appear anywhere else or later.
"""
import json, os, syslog
from vlib.core import hexs, hexlist, VERIF, CheckError
from vlib.translate import tr_expand
from vlib.tr_wrapper import tr_wrapper
from vlib.tr_output import tr_output, tr_errors
from vlib.syslevel import build_prod, run_script, per_call, call_line, run_many
from vlib import sysmodel

FAC = {"AUTH": syslog.LOG_AUTH, "AUTHPRIV": 10 << 3, "CRON": syslog.LOG_CRON, "DAEMON": syslog.LOG_DAEMON, "FTP": 11 << 3, "KERN": syslog.LOG_KERN,
       "LOCAL0": syslog.LOG_LOCAL0, "LOCAL1": syslog.LOG_LOCAL1, "LOCAL2": syslog.LOG_LOCAL2, "LOCAL3": syslog.LOG_LOCAL3, "LOCAL4": syslog.LOG_LOCAL4,
       "LOCAL5": syslog.LOG_LOCAL5, "LOCAL6": syslog.LOG_LOCAL6, "LOCAL7": syslog.LOG_LOCAL7, "LPR": syslog.LOG_LPR, "MAIL": syslog.LOG_MAIL,
       "NEWS": syslog.LOG_NEWS, "SYSLOG": syslog.LOG_SYSLOG, "USER": syslog.LOG_USER, "UUCP": syslog.LOG_UUCP}
LVL = {"EMERG": 0, "ALERT": 1, "CRIT": 2, "ERR": 3, "WARNING": 4, "NOTICE": 5, "INFO": 6, "DEBUG": 7}
KIND = {"file": 0, "devtty": 1, "devnull": 2, "stdout": 3, "stderr": 4, "socket": 5, "devlog": 6, "noop": 7}
SINKS = ["sink\tfile\tout\t@D@/out.log", "sink\tfile\tout2\t@D@/out-T.log", "sink\tfile\tout3\t@D@/out-%{snoopy_literal:T}.log", "sink\tpipe\tso\t1", "sink\tpipe\tse\t2",
         "sink\tdgram\tsock\t@D@/s.sock", "sink\tdevlog\tdevlog\t@D@/devlog.sock", "sink\ttty\ttty"]


def rb(rng, n, alpha=None):
    alpha = alpha or rng.choice([b"abc xyz", bytes(range(1, 256)), b"%{}:;#\"' =\\", b"m"])
    return bytes(rng.choice(alpha) for _ in range(n))


def gen_procs(rng, tier):
    """list of process descriptions: output, arg, limits, facility/level/ident, chain, calls [(api, path, argv)]"""
    procs = []
    outs = [("file", b"@D@/out.log"), ("file", b"@D@/out-%{snoopy_literal:T}.log"), ("file", b""), ("devtty", b""), ("devnull", b""), ("stdout", b""), ("stderr", b""),
            ("socket", b"@D@/s.sock"), ("devlog", b""), ("noop", b""), ("devlog", b"ignored-arg"), ("stdout", b"x")]
    reps = 2 if tier == "quick" else 12
    for (o, arg) in outs:
        for r in range(reps):
            fac = rng.choice(sorted(FAC)); lvl = rng.choice(sorted(LVL))
            if r == 0:
                fac, lvl = "LOCAL7", "DEBUG"      # widest priority field (<191>): the frame's fixed part is at its longest
            ident = rng.choice([b"snoopy", b"", b"id-%{snoopy_literal:x}", b"I" * 300, b"%{filename}", b"i d[1]:"])
            chain = rng.choice([None, None, b"only_uid:0", b"exclude_uid:0", b"only_root;exclude_uid:0", b"nosuchfilter;only_uid:0"])
            llog = rng.choice([255, 1000, 16383, 1048575])
            maxmsg = {"devtty": 1500, "socket": 60000, "devlog": 60000, "stdout": 300000, "stderr": 300000}.get(o, 1048575)
            calls = []
            for k in range(5 if tier == "quick" else 8):
                sz = rng.choice([1, 2, 17, 254, 255, 256, 1000, 5000, 70000, llog - 1, llog, llog + 1]) if k else 1
                sz = max(0, min(sz, maxmsg)) if rng.random() > 0.07 else 0
                a0 = rb(rng, sz)
                argv = [a0] if sz else []     # empty argv -> cmdline falls back to the path; path empty -> empty message
                path = b"" if not sz and rng.random() < 0.7 else rb(rng, rng.choice([1, 9]), b"/bin")
                calls.append((rng.choice(["execve", "execv"]), path, argv))
            # error logging on in a third of the processes, with a format whose pieces get refused at the small limits
            el = rng.random() < 0.34
            # several refusable pieces per message, with error logging on AND off (off: no error record may appear, however many appends are refused)
            multi = el or rng.random() < 0.3
            fmt = rng.choice([b"%{cmdline}", b"pre-%{cmdline}-post", b"%{snoopy_literal:" + b"L" * 200 + b"}%{cmdline}%{filename}%{cmdline}"]) if multi else b"%{cmdline}"
            if multi:
                llog = rng.choice([255, 255, 1000])
            procs.append({"out": o, "arg": arg, "fac": fac, "lvl": lvl, "ident": ident, "chain": chain, "llog": llog, "calls": calls, "el": el, "fmt": fmt,
                          "stdin_closed": (o in ("file", "devtty", "devnull", "socket", "devlog") and r == reps - 1)})
    small = lambda n: [(("execve", "execv")[j % 2], b"/bin/x", [b"m%d" % j, b"arg"]) for j in range(n)]
    base = {"arg": b"", "fac": "USER", "lvl": "INFO", "ident": b"snoopy", "chain": None, "llog": 1000, "el": False, "fmt": b"%{cmdline}"}
    # every facility once at the devlog sink (priority = facility | level, also for facility 0), levels cycling
    for j, fac in enumerate(sorted(FAC)):
        procs.append(dict(base, out="devlog", fac=fac, lvl=sorted(LVL)[j % 8], calls=small(2)))
    # descriptors 1 / 2 are stream sockets (service started by systemd, inetd, sshd): the record goes to THAT descriptor
    for o in ("stdout", "stderr"):
        procs.append(dict(base, out=o, calls=small(3), std_socket=True))
    # log rotation between the calls of one process: each record goes to the file the configured path names at that moment
    procs.append(dict(base, out="file", arg=b"@D@/out.log", calls=small(4), pre={1: ["rename\t@D@/out.log\t@D@/out-T.log"], 3: ["rename\t@D@/out.log\t@D@/out-T.log"]}))
    # one name in two registries within one call: filter `noop` then data source `noop`; output `noop` with data source `noop`
    procs.append(dict(base, out="file", arg=b"@D@/out.log", chain=b"noop;only_uid:0", fmt=b"<%{noop}>%{cmdline}<%{noop}>", calls=small(3)))
    procs.append(dict(base, out="noop", chain=b"noop", fmt=b"<%{noop}>%{cmdline}", calls=small(2)))
    # the path template has its own limits (PATH_MAX), not the message's: a 300-byte data-source value in the path under a 255-byte data-source limit
    procs.append(dict(base, out="file", arg=b"@D@/%{snoopy_literal:" + b"./" * 150 + b"}out.log", dsmax=255, calls=small(3)))
    # a data-source value that itself looks like a tag is inserted into the path verbatim (one expansion, not two)
    procs.append(dict(base, out="file", arg=b"@D@/out-%{env:PT}.log", env=[b"PATH=/bin", b"PT=%{snoopy_literal:T}"], calls=small(3)))
    # a filter that tokenises its own argument sits in front of a dropping filter: the chain walk must survive it (no record)
    procs.append(dict(base, out="file", arg=b"@D@/out.log", chain=b"exclude_spawns_of:nosuchprog,othernosuch;exclude_uid:0", calls=small(3)))
    # an ident template whose expansion is far longer than the template itself (devlog frame buffer must follow the ident BUFFER size)
    procs.append(dict(base, out="devlog", ident=b"%{env:IDL}", env=[b"PATH=/bin", b"IDL=" + b"i" * 200], calls=small(3)))
    procs.append(dict(base, out="devlog", ident=b"%{env:IDL}%{env:IDL}", env=[b"PATH=/bin", b"IDL=" + b"j" * 120], fmt=b"%{cmdline} " + b"m" * 300, calls=small(2)))
    # the last component of the configured path is a symbolic link to the log file
    procs.append(dict(base, out="file", arg=b"@D@/link.log", calls=small(3), pre={0: ["symlink\t@D@/out.log\t@D@/link.log"]}, sink_alias={b"/D/link.log": "out"}))
    # real uid differs from the effective uid (set-uid program started by an ordinary user): the output acts with the effective uid
    procs.append(dict(base, out="file", arg=b"@D@/out.log", calls=small(4), pre={0: ["ruid\t65534"]}))
    return procs


def ini_of(p):
    lines = [b"[snoopy]", b"message_format = \"" + p["fmt"] + b"\"", b"datasource_message_max_length = %d" % p.get("dsmax", 1048575), b"log_message_max_length = %d" % p["llog"],
             b"error_logging = " + (b"yes" if p["el"] else b"no")]
    lines.append(b"output = " + p["out"].encode() + (b":" + p["arg"] if p["arg"] else b""))
    lines.append(b"syslog_facility = " + p["fac"].encode())
    lines.append(b"syslog_level = " + p["lvl"].encode())
    lines.append(b"syslog_ident = \"" + p["ident"] + b"\"")
    if p["chain"] is not None:
        lines.append(b"filter_chain = \"" + p["chain"] + b"\"")
    return b"\n".join(lines) + b"\n"


def drops(chain):
    return chain is not None and b"exclude_uid:0" in chain


def check(run):
    run.snapshot()
    consts = tr_expand(run)
    tr_wrapper(run)
    oc = tr_output(run)
    ec = tr_errors(run)
    sysmodel.translate_all(run)
    ok, failed, log = run.coq_props(["Properties_C04.v", "Properties_C04sys.v"])
    lib = build_prod(run)
    rng = run.rng
    procs = gen_procs(rng, run.tier)
    oc_js = run.consts["output"]

    # socket output whose path has exactly the longest length the output accepts (PATH_SIZE) and one byte less: the datagram must arrive
    # at that very path.  The run directory is known here, so the file name is padded to the exact total length.
    psz = int(run.consts["output"].get("sock_path_size") or 0)
    n_exact = 0
    for L in (psz, psz - 1):
        if psz >= 60:
            procs.append({"out": "socket", "arg": b"@EXACT%d@" % L, "fac": "USER", "lvl": "INFO", "ident": b"snoopy", "chain": None, "llog": 1000,
                          "calls": [("execve", b"/bin/x", [b"msg-%d" % L, b"y"])] * 2, "el": False, "fmt": b"%{cmdline}", "exact_len": L})
            n_exact += 1

    def exact_path(i, L):
        d = os.path.join(run.scratch, "sys-c04-%d" % i)
        base = d + "/"
        return (base + "s" * (L - len(base) - 5) + ".sock").encode() if L - len(base) - 5 >= 1 else None

    def job(i):
        p = procs[i]
        if p.get("exact_len"):
            ep = exact_path(i, p["exact_len"])
            if ep is None:
                return (i, [], {"status": 0, "stderr": "", "records": [], "skipped": True})
            p = dict(p, arg=ep)
            procs[i] = p
            script = list(SINKS) + ["sink\tdgram\tsockx\t" + ep.decode(), "ini\t" + hexs(ini_of(p)), "env\t" + hexlist([b"PATH=/bin"])]
            for (api, path, argv) in p["calls"]:
                script.append(call_line(api, path, argv, [] if api == "execve" else None, 0, -1, 2))
            return (i, script, run_script(run, lib, script, "c04-%d" % i, timeout=120))
        # some processes run with descriptor 0 closed: the output's own open()/socket() then returns 0
        sinks = [l.replace("sink\tpipe\t", "sink\tsockpair\t") for l in SINKS] if p.get("std_socket") else list(SINKS)
        script = (["minpid\t10000"] if p["out"] == "devlog" else []) + sinks + (["stdin\tclosed"] if p.get("stdin_closed") else []) + ["ini\t" + hexs(ini_of(p)), "env\t" + hexlist(p.get("env", [b"PATH=/bin"]))]
        for kk, (api, path, argv) in enumerate(p["calls"]):
            script += p.get("pre", {}).get(kk, [])
            script.append(call_line(api, path, argv, [] if api == "execve" else None, 0, -1, 2))
        # the last call of each process is a simulated successful exec (what is not handed to the OS by then is lost)
        api, path, argv = p["calls"][-1]
        script[-1] = call_line(api, path, argv, [] if api == "execve" else None, 1, 0, 0)
        return (i, script, run_script(run, lib, script, "c04-%d" % i, timeout=120))
    outs = run_many(job, range(len(procs)), workers=8)
    # ---- model predictions: message (expand), ident and path templates (expand), frame + sink (output)
    la, da = consts["call_log_adj"], consts["call_ds_adj"]
    gen_cases, index = [], []
    for i, p in enumerate(procs):
        for k, (api, path, argv) in enumerate(p["calls"]):
            base = [hexs(path), hexlist(argv), hexlist(p.get("env", [b"PATH=/bin"]))]
            tmpl = {"devtty": bytes.fromhex(oc_js["devtty_path"]), "devnull": bytes.fromhex(oc_js["devnull_path"])}.get(p["out"], p["arg"].replace(b"@D@", b"/D"))
            for kind in ("gen", "generr"):
                gen_cases.append("\t".join([kind, str(p["llog"] + la), str(p.get("dsmax", 1048575) + da), hexs(p["fmt"])] + base))
                gen_cases.append("\t".join([kind, str(consts["ident_buf"]), str(consts["ident_buf"]), hexs(p["ident"])] + base))
                gen_cases.append("\t".join([kind, str(consts["path_buf"]), str(consts["path_buf"]), hexs(tmpl)] + base))
            index.append((i, k))
    gp = os.path.join(run.scratch, "c04-gen.txt")
    open(gp, "w").write("".join(c + "\n" for c in gen_cases))
    g = run.run_model("expand", gp, gp + ".out")
    res_by_proc = {i: (script, r) for (i, script, r) in outs}
    pred_cases, pred_idx, nerr_pred = [], [], {}
    for n, (i, k) in enumerate(index):
        p = procs[i]
        script, r = res_by_proc[i]
        pcs = per_call(r["records"])
        real = pcs.get(k, {}).get("real", [])
        pid = real[0][7] if real and len(real[0]) > 7 else "0"
        msg, ident, path = (g[6 * n + j].split("\t")[1] for j in range(3))
        n1, n3, n2 = (g[6 * n + 3 + j].split("\t")[1] for j in range(3))     # refusals: message, ident template, path template
        pred_cases.append("\t".join(["predict_el", str(KIND[p["out"]]), hexs(p["arg"].replace(b"@D@", b"/D")), path, ident,
                                     str(FAC[p["fac"]] | LVL[p["lvl"]]), pid, "1" if p["el"] else "0", "1", "1" if drops(p["chain"]) else "0",
                                     n1, n2, n3, ec["err_append_text"] or "-", msg]))
        nerr_pred[(i, k)] = (int(n1), int(n2), int(n3))
        pred_idx.append((i, k))
    pp = os.path.join(run.scratch, "c04-pred.txt")
    open(pp, "w").write("".join(c + "\n" for c in pred_cases))
    open(os.path.join(run.scratch, "consts_output.tsv"), "a").close()
    pr = run.run_model("output", pp, pp + ".out")
    # ---- compare
    ncmp, distinct, n_errrec = 0, set(), 0
    sinkmap = {("0", b"/D/out.log"): "out", ("0", b"/D/out-T.log"): "out2", ("0", b"/D/out-%{snoopy_literal:T}.log"): "out3", ("0", b"/dev/tty"): "tty", ("0", b"/dev/null"): None,
               ("1", b"1"): "so", ("1", b"2"): "se", ("2", b"/D/s.sock"): "sock", ("2", b"/dev/log"): "devlog"}
    for n, (i, k) in enumerate(pred_idx):
        p = procs[i]
        script, r = res_by_proc[i]
        if r.get("skipped"):
            continue
        if r["status"] != 0:
            run.violation("caller-died", "crash", "caller ended with status %s (output %s): %s" % (r["status"], p["out"], r["stderr"][-300:]),
                          {"failing_input": {"config": ini_of(p).decode(errors="replace"), "call_index": k}, "script": script})
            continue
        f = pr[n].split("\t")
        nrec = int(f[1])
        expected = {}
        for j in range(nrec):
            tag, name, data = f[2 + 3 * j], f[3 + 3 * j], f[4 + 3 * j]
            nm = bytes.fromhex(name) if name != "-" else b""
            if tag == "0" and b"/./" in nm:
                nm = os.path.normpath(nm.decode("latin-1")).encode("latin-1")      # the kernel resolves "./" components: same file
            key = p.get("sink_alias", {}).get(nm) if tag == "0" and nm in p.get("sink_alias", {}) else sinkmap.get((tag, nm), "?")
            if key == "?" and p.get("exact_len") and tag == "2" and nm == p["arg"]:
                key = "sockx"
            if key is None:
                continue          # /dev/null: unobservable by construction; "nothing anywhere else" is still checked
            expected.setdefault(key, []).append(data if data != "-" else "")
        for nm in ("out", "out2", "out3", "so", "se", "tty"):          # byte-stream sinks: several records arrive as one stream
            if nm in expected:
                expected[nm] = ["".join(expected[nm])]
        pcs = per_call(r["records"])
        c = pcs.get(k, {"sinks": {}})
        last = (k == len(p["calls"]) - 1)      # simulated successful exec: only at-exec counts
        got = {}
        for (nm, hx) in c["sinks"].get("at-exec", []):
            if hx not in ("-", "~"):
                got.setdefault(nm, []).append(hx)
        # byte-stream sinks: concatenate
        for nm in ("out", "out2", "out3", "so", "se", "tty"):
            if nm in got:
                got[nm] = ["".join(got[nm])]
        late = [(nm, hx[:80]) for ph in (("after", "after-flush") if not last else ()) for (nm, hx) in c["sinks"].get(ph, []) if hx not in ("-", "~")]
        ncmp += 1
        distinct.add((p["out"], len(expected) > 0, min(len(pred_cases[n].split("\t")[-1]) // 2, 99999) // 1000, drops(p["chain"]), p["el"], min(sum(nerr_pred[(i, k)]), 3) if p["el"] else 0))
        if p["el"] and sum(nerr_pred[(i, k)]) > 0 and not drops(p["chain"]):
            n_errrec += 1
        why = None
        if "?" in expected:
            why = None if p["out"] == "file" and p["arg"] == b"" else "model predicts a sink the harness does not own"
        elif got != expected:
            missing = [s for s in expected if s not in got]
            extra = [s for s in got if s not in expected]
            if missing and late:
                why = "record not handed to the operating system before the real exec (appeared only after the call returned / was flushed by the caller)"
            elif missing:
                why = "no record at the configured sink '%s' at exec time" % missing[0]
            elif extra:
                why = "record at sink '%s' which is not the configured one / although none was expected" % extra[0]
            else:
                s = list(expected)[0]
                why = "record at sink '%s' differs from the documented frame (%d records of %s bytes, expected %d of %s bytes)" % (
                    s, len(got[s]), [len(x) // 2 for x in got[s]][:3], len(expected[s]), [len(x) // 2 for x in expected[s]][:3])
        elif late:
            why = "bytes reached sink '%s' after the real exec had returned" % late[0][0]
        if why:
            run.violation("record:%s:%s" % (p["out"], why.split(" ")[0] + "-" + why.split(" ")[1]), "spec_violation",
                          "%s (output %s, call %d%s)" % (why, p["out"], k, ", simulated successful exec" if last else ""),
                          {"failing_input": {"config": ini_of(p).decode(errors="replace"), "call": [l for l in script if l.startswith("call\t")][k][:300], "call_index": k},
                           "script": script, "call_index": k, "expected": {s: [x[:200] for x in v] for s, v in expected.items()},
                           "observed": {s: [x[:200] for x in v] for s, v in got.items()}, "late": late})
    # ---- whole-run stream: generated snoopy.ini x calls, composed model (System/Compose.v) vs production wrapper
    try:
        sexe = sysmodel.build_model(run)
    except CheckError as e:
        sexe = None
        ok, failed, log = False, failed or "Extract_system_run.v", log + "\n" + str(e)[-1500:]
    nsys, dsys = 0, set()
    if sexe:
        nsys, dsys = sysmodel.whole_run_stream(run, lib, sexe, 28 if run.tier == "quick" else 400, 6, run.violation)
        n2, d2 = sysmodel.default_format_stream(run, lib, sexe, 12 if run.tier == "quick" else 120, 4, run.violation)
        nsys += n2
        dsys |= set(("full",) + x for x in d2)
    if not ok and not run.violations:
        run.violation("proof:%s" % failed, "proof", "proof obligation no longer checks: %s\n%s" % (failed, log[-1500:]), {"theorem": failed, "coq_log": log[-3000:]})
    run.coverage.update({
        "evaluations": ncmp + nsys, "distinct_nontrivial": len(distinct) + len(dsys),
        "rule": "one process per (output, argument, facility, level, ident template, filter chain, message limit); per process 5-8 calls with messages of "
                "0,1,2,...,limit-1,limit,limit+1 bytes of arbitrary non-NUL bytes (capped per sink type so that the harness-owned pipe/pty/datagram queue can hold them), "
                "the last call being a simulated successful exec; all seven sinks drained at exec entry; distinct = (output, record expected?, size class, dropped?)",
        "samples": [{"config": ini_of(procs[0]).decode(errors="replace"), "calls": len(procs[0]["calls"])}],
        "distribution": {"processes": len(procs), "outputs": sorted(set(p["out"] for p in procs)), "dropping_chains": sum(1 for p in procs if drops(p["chain"])),
                         "error_logging_on": sum(1 for p in procs if p["el"]), "calls_with_error_records_predicted": n_errrec,
                         "whole_run_calls_compared": nsys, "whole_run_distinct": len(dsys)},
        "traces_validated_against_impl": ncmp,
        "file_open": oc.get("file_open_desc"),
    })
    return run.finish(level="proof",
                      trusted_base=["Coq 8.16.1 kernel + vm_compute", "vlib/tr_output.py (regex over src/output/*.c), vlib/skel.py (action/dispatch skeletons), tr_expand",
                                    "extraction ExtrOcamlBasic + drv_output.ml / drv_expand.ml", "harness tool_caller.c + librecorder.c (sinks drained at exec entry)"],
                      assumptions=["the sink accepts the operations (failures: C03)", "stderr is unbuffered (C default) so fprintf(stderr) reaches the OS before returning",
                                   "datagram size limits of the kernel are outside the model (messages to sockets capped at 60 kB in the run)"])


def replay(run, path):
    rep = json.load(open(path))
    run.snapshot()
    lib = build_prod(run)
    if not rep.get("script"):
        print("proof-only violation: re-run ./check C04 quick")
        run.cleanup()
        return 1
    r = run_script(run, lib, rep["script"], "replay", timeout=120)
    c = per_call(r["records"]).get(rep.get("call_index", 0), {})
    for ph, l in c.get("sinks", {}).items():
        for (nm, hx) in l:
            if hx not in ("-", "~"):
                print(ph, nm, len(hx) // 2, "bytes:", hx[:120])
    print("expected:", json.dumps(rep.get("expected"))[:400])
    # verdict: the records at exec entry of that call against the prediction stored with the violation
    got = {}
    for (nm, hx) in c.get("sinks", {}).get("at-exec", []):
        if hx not in ("-", "~"):
            got.setdefault(nm, []).append(hx)
    for nm in ("out", "out2", "so", "se", "tty"):
        if nm in got:
            got[nm] = ["".join(got[nm])]
    exp = rep.get("expected") or {}
    late = [(nm, hx) for ph in ("after", "after-flush") for (nm, hx) in c.get("sinks", {}).get(ph, []) if hx not in ("-", "~")] if not rep.get("last_call") else []
    same = (set(got) == set(exp) and all([x[:200] for x in got[k]] == exp[k] for k in exp)) and not late and r["status"] == 0
    print("not reproduced: the records match the prediction" if same else "REPRODUCED")
    run.cleanup()
    return 0 if same else 1
