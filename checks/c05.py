"""C05 — Message format expansion is exact and length-bounded.

proof:   coq/props/Properties_C05.v over Gen_Expand.v regenerated from message.c, string.c,
         log-syscall-exec.c, devlogoutput.c, fileoutput.c, snoopy.h (T1)
tie:     T3 differential run of the extracted model against snoopy_message_generateFromFormat
         built from the snapshot (ASan+UBSan), deterministic data sources, boundary-directed formats;
         the extracted spec_C05_ok is evaluated on every implementation output.
"""
import os, json
from vlib.core import hexs, hexlist, corr_stream, VERIF, CheckError
from vlib.translate import tr_expand

AREA = "expand"


def rbytes(rng, n, alphabet=None):
    if alphabet is None:
        alphabet = rng.choice([b"abc xyz", b"ab%{}: ", bytes(range(1, 256)), b"a"])
    return bytes(rng.choice(alphabet) for _ in range(n))


def gen_world(rng, lds):
    file = rbytes(rng, rng.choice([0, 1, 8, 40, lds - 1, lds, lds + 1]), b"/abcdef.-_ ")
    r = rng.random()
    if r < 0.1:
        argv = None
    elif r < 0.2:
        argv = []
    else:
        n = rng.choice([1, 2, 3, 5, 20])
        argv = [rbytes(rng, rng.choice([0, 1, 3, 10, 60]), b"abc -=/\x01\xff") for _ in range(n)]
        if rng.random() < 0.25:
            # total length near the data-source limit
            tot = sum(len(a) for a in argv) + len(argv) - 1
            want = lds + rng.choice([-2, -1, 0, 1, 2])
            if want > tot:
                argv.append(b"q" * (want - tot - 1))
    env = []
    for name in (b"A", b"BIG", b"E_Q", b"EMPTY"):
        if rng.random() < 0.8:
            vl = 0 if name == b"EMPTY" else rng.choice([0, 1, 5, lds - 1, lds, lds + 1, lds + 50])
            env.append(name + b"=" + rbytes(rng, vl, b"vV=:}{% \xfe"))
    rng.shuffle(env)
    return file, argv, env


def gen_part(rng, llog, lds, env_names):
    r = rng.random()
    if r < 0.30:
        L = rng.choice([0, 1, 5, 99, 100, 101, lds - 1, lds, lds + 1, 1023, 1024, 1025])
        arg = rbytes(rng, L, rng.choice([b"abc", b"a:%{ b", bytes(x for x in range(1, 256) if x != 0x7d)]))
        return b"%{snoopy_literal:" + arg.replace(b"}", b")") + b"}"
    if r < 0.42:
        return b"%{env:" + rng.choice(env_names + [b"NOPE", b"", b"A=x"]) + b"}"
    if r < 0.50:
        return rng.choice([b"%{cmdline}", b"%{filename}", b"%{cmdline:x}", b"%{filename:}"])
    if r < 0.58:
        return rng.choice([b"%{failure}", b"%{noop}", b"%{failure:x}", b"%{noop:abc}"])
    if r < 0.68:
        n = rng.choice([0, 1, 5, 98, 99, 100, 101, 150, 1000])
        nm = rbytes(rng, n, b"abcxyz_")
        return rng.choice([b"%{" + nm + b"}", b"%{" + nm + b":arg}", b"%{:}", b"%{}", b"%{snoopy_literalx}", b"%{snoopy_litera}", b"%{ENV:A}"])
    if r < 0.74:
        return rng.choice([b"%{snoopy_literal", b"%{", b"%{env:A", b"%{nosuch:"])
    if r < 0.80:
        return rng.choice([b"%", b"{", b"}", b":", b"%%{", b"}%{", b"%{%{snoopy_literal:a}}"])
    L = rng.choice([0, 1, 7, 100, lds - 1, lds, lds + 1, lds + 2, max(0, llog - 50), llog - 1, llog, llog + 1])
    return rbytes(rng, L, rng.choice([b"abc xyz", b"lit-", bytes(x for x in range(1, 256) if x not in (0x25,))]))


def gen_cases(rng, consts, n, tier):
    hmin_l, hmax_l = consts["hardmin_log"], consts["hardmax_log"]
    hmin_d, hmax_d = consts["hardmin_ds"], consts["hardmax_ds"]
    la, da = consts["call_log_adj"], consts["call_ds_adj"]
    logs = [hmin_l, hmin_l + 1, 300, 1000, 2047, 16383]
    dss = [hmin_d, hmin_d + 1, 300, 1000, 2047]
    cases, meta = [], []
    for k in range(n):
        site = rng.random()
        if site < 0.8:
            llog, lds = rng.choice(logs), rng.choice(dss)
            if tier == "thorough" and rng.random() < 0.02:
                llog = rng.choice([hmax_l, hmax_l - 1, 65536])
            if tier == "thorough" and rng.random() < 0.02:
                lds = rng.choice([hmax_d, 65535])
            bs, th = llog + la, lds + da
            sname = "log"
        elif site < 0.9:
            bs = th = consts["ident_buf"]
            llog, lds = bs - 1, th - 1
            sname = "ident"
        else:
            bs = th = consts["path_buf"]
            llog, lds = bs - 1, th - 1
            sname = "path"
        file, argv, env = gen_world(rng, lds)
        names = [e.split(b"=")[0] for e in env]
        parts = [gen_part(rng, llog, lds, names) for _ in range(rng.choice([0, 1, 1, 2, 3, 4, 6]))]
        if rng.random() < 0.3:
            # pad with a literal so that the total is at the message limit +-1 when data sources are short
            base = sum(len(p) for p in parts)
            want = llog + rng.choice([-1, 0, 1])
            if want > base:
                parts.insert(rng.randrange(len(parts) + 1), b"p" * (want - base))
        fmt = b"".join(parts)
        if b"\x00" in fmt:
            fmt = fmt.replace(b"\x00", b"\x01")
        cases.append("\t".join(["gen", str(bs), str(th), hexs(fmt), hexs(file), hexlist(argv), hexlist(env)]))
        meta.append({"site": sname, "Llog": llog, "Lds": lds, "fmtlen": len(fmt), "ntags": fmt.count(b"%{")})
    return cases, meta


def gen_dsall(rng, consts, n):
    """ds_contract stream: every data source of the registry, exactly sized result buffers at the sizes the three call sites pass,
    environments / arguments / argv whose rendered length sits at size-2 .. size+2 and far above."""
    sizes = sorted(set([consts["hardmin_ds"] + consts["call_ds_adj"], consts["hardmin_ds"] + consts["call_ds_adj"] + 1, consts["ident_buf"],
                        1001, 2048, consts["path_buf"], 65536]))
    cases = []
    for k in range(n):
        sz = rng.choice(sizes)
        tot = max(1, sz + rng.choice([-3, -2, -1, 0, 1, 2, 60, 2 * sz]))
        # environment whose comma-joined rendering has exactly `tot` bytes, split into 1..6 entries of "K<i>=vvv"
        ne = rng.choice([1, 1, 2, 3, 6])
        body = max(ne * 4, tot - (ne - 1))
        lens = [body // ne] * ne
        lens[-1] += body - sum(lens)
        env = [(b"K%d=" % i) + b"v" * max(0, l - 3) for i, l in enumerate(lens)]
        if rng.random() < 0.1:
            env = None if rng.random() < 0.5 else []
        arg = rng.choice([b"", b"K0", b"%Y-%m-%d", b"x" * tot, b"K0=", b"nosuch"])
        file = b"/" + b"f" * rng.choice([0, 3, tot - 1 if tot < 70000 else 10])
        argv = None if rng.random() < 0.1 else [b"a" * rng.choice([0, 1, tot // 2]), b"b" * rng.choice([0, tot // 2, tot])]
        cases.append("\t".join(["dsall", str(sz), hexs(arg), hexs(file), hexlist(argv), hexlist(env)]))
    return cases


def corpus_cases():
    d = os.path.join(VERIF, "corpus", "C05")
    out = []
    if os.path.isdir(d):
        for f in sorted(os.listdir(d)):
            for line in open(os.path.join(d, f)):
                line = line.rstrip("\n")
                if line and not line.startswith("#"):
                    out.append(line)
    return out


def spec_line(cf, rf):
    if cf[0] != "gen":
        return None
    return "\t".join(["spec"] + cf[1:] + [rf[1] if len(rf) > 1 else "-"])


def build_impl(run):
    objs = run.build_objs("asan", san=True)
    exe = os.path.join(run.scratch, "impl_expand")
    run.link(exe, [os.path.join(VERIF, "harness", "impl_expand.c")], objs, san=True, extra=["-I" + os.path.join(VERIF, "harness")])
    return exe


def classify(run, res, cases, stream):
    n_v = 0
    for (i, c, impl, sp) in res["spec_bad"]:
        f = c.split("\t")
        out = impl.split("\t")[1] if "\t" in impl else "-"
        outlen = 0 if out == "-" else len(out) // 2
        label = "message-exceeds-buffer" if outlen >= int(f[1]) else "inexact-expansion"
        run.violation("spec:%s" % label, "spec_violation",
                      "implementation output violates spec_C05_ok (%s): bufsize=%s third=%s outlen=%d" % (label, f[1], f[2], outlen),
                      {"stream": stream, "failing_input": c, "impl_output": impl, "model_output": res["model"][i], "cases": [c]})
        n_v += 1
    for (i, c, impl) in res["faults"]:
        run.violation("fault:%s" % impl.split("\t")[0], "sanitizer", "implementation faulted on a format the property covers: %s" % impl,
                      {"stream": stream, "failing_input": c, "impl_output": impl, "model_output": res["model"][i], "cases": [c]})
        n_v += 1
    return n_v


def check(run):
    run.snapshot()
    consts = tr_expand(run)
    ok, failed, log = run.coq_props(["Properties_C05.v"])
    exe = build_impl(run)
    n = 2500 if run.tier == "quick" else 30000
    corp = corpus_cases()
    cases, meta = gen_cases(run.rng, consts, n, run.tier)
    allcases = corp + cases
    res = corr_stream(run, AREA, exe, allcases, spec_line=spec_line, stream="gen")
    nv = classify(run, res, allcases, "gen")
    # ---- ds_contract: the hypothesis of C05_ds_bounded, checked on EVERY data source of the registry (implementation only)
    dcases = gen_dsall(run.rng, consts, 120 if run.tier == "quick" else 2500)
    dd = os.path.join(run.scratch, "dsall")
    os.makedirs(dd, exist_ok=True)
    open(os.path.join(dd, "cases.txt"), "w").write("".join(c + "\n" for c in dcases))
    dout = run.run_impl(exe, os.path.join(dd, "cases.txt"), os.path.join(dd, "impl.out"))
    ds_seen, ds_evals = set(), 0
    for c, o in zip(dcases, dout):
        sz = int(c.split("\t")[1])
        f = o.split("\t")
        if f[0] != "ok":
            run.violation("dscontract:%s" % f[0], "sanitizer", "a data source left the buffer it was given (size %d): %s" % (sz, o[:200]),
                          {"stream": "dsall", "failing_input": c, "impl_output": o, "cases": [c]})
            nv += 1
            continue
        for item in f[1:]:
            name, _, l = item.partition("=")
            ds_seen.add(name)
            ds_evals += 1
            if l == "UNTERMINATED" or int(l) >= sz:
                run.violation("dscontract:%s" % name, "spec_violation",
                              "data source %s produced %s bytes for a buffer of %d (contract: strlen(result) < size, i.e. at most datasource_message_max_length bytes)" % (name, l, sz),
                              {"stream": "dsall", "failing_input": c, "impl_output": o[:2000], "cases": [c]})
                nv += 1
                break
    if not ok:
        # proof obligation broken: the search above (boundary cases computed from the regenerated constants) is the search
        if nv == 0:
            run.violation("proof:%s" % failed, "proof", "proof obligation no longer checks: %s\n%s" % (failed, log[-1500:]),
                          {"theorem": failed, "coq_log": log[-3000:]})
    if res["mismatch"] and nv == 0:
        i, c, m, im = res["mismatch"][0]
        run.violation("corr:gen", "correspondence",
                      "model and implementation differ on %d of %d cases although spec_C05_ok holds on the outputs" % (len(res["mismatch"]), len(allcases)),
                      {"stream": "gen", "correspondence": "expand.gen", "first_case": c, "model_output": m, "impl_output": im, "cases": [c]})
    # coverage
    fits = sum(1 for i in range(len(corp), len(allcases)) if res["impl"][i].startswith("ok") and (len(res["impl"][i].split("\t")[1]) // 2 if res["impl"][i].split("\t")[1] != "-" else 0) < int(allcases[i].split("\t")[1]) - 1)
    distinct = len(set(c for c, m in zip(cases, meta) if m["ntags"] > 0))
    run.coverage.update({
        "evaluations": len(allcases), "distinct_nontrivial": distinct,
        "rule": "formats generated from the tag grammar (known/unknown/failing/unterminated tags, stray delimiters, 8-bit bytes) with literal, "
                "argument and data-source value lengths placed at limit-1/limit/limit+1 of both limits taken from the regenerated constants; "
                "non-trivial = distinct case whose format contains at least one tag",
        "samples": [allcases[i][:300] for i in range(0, len(allcases), max(1, len(allcases) // 5))][:5],
        "distribution": {"sites": {s: sum(1 for m in meta if m["site"] == s) for s in ("log", "ident", "path")},
                         "corpus_cases": len(corp), "expansion_below_limit": fits, "mismatches": len(res["mismatch"]),
                         "spec_failures": len(res["spec_bad"]), "impl_faults": len(res["faults"]),
                         "ds_contract_cases": len(dcases), "ds_contract_evaluations": ds_evals, "data_sources_exercised": len(ds_seen)},
        "traces_validated_against_impl": len(allcases) - len(res["mismatch"]),
    })
    return run.finish(
        level="proof",
        trusted_base=["Coq 8.16.1 kernel + vm_compute (gen_ok)", "vlib/translate.py tr_expand (regex over message.c, string.c, log-syscall-exec.c, devlogoutput.c, fileoutput.c; gcc for macro values)",
                      "extraction: ExtrOcamlBasic only; ocaml/common.ml + drv_expand.ml; harness/impl_expand.c", "data-source contract len(out) < size (C02) as hypothesis ds_contract"],
        assumptions=["snprintf/strstr/strndup semantics as in Lib/CStr.v", "deterministic data sources (snoopy_literal, env, filename, cmdline, failure, noop) in the correspondence; other data sources enter only through ds_contract"])


def replay(run, path):
    rep = json.load(open(path))
    run.snapshot()
    tr_expand(run)
    exe = build_impl(run)
    cases = rep.get("cases") or []
    if rep.get("stream") == "dsall":
        dd = os.path.join(run.scratch, "dsall")
        os.makedirs(dd, exist_ok=True)
        open(os.path.join(dd, "cases.txt"), "w").write("".join(c + "\n" for c in cases))
        dout = run.run_impl(exe, os.path.join(dd, "cases.txt"), os.path.join(dd, "impl.out"))
        bad = 0
        for c, o in zip(cases, dout):
            sz = int(c.split("\t")[1])
            print("case:", c[:200]); print(" impl:", o[:1500])
            f = o.split("\t")
            if f[0] != "ok" or any(it.endswith("=UNTERMINATED") or int(it.partition("=")[2]) >= sz for it in f[1:]):
                bad += 1
        run.cleanup()
        return 1 if bad else 0
    res = corr_stream(run, AREA, exe, cases, spec_line=spec_line, stream="replay")
    for i, c in enumerate(cases):
        print("case:", c[:200])
        print(" model:", res["model"][i][:200])
        print(" impl: ", res["impl"][i][:200])
    nv = classify(run, res, cases, "replay")
    print("spec failures: %d, faults: %d, mismatches: %d" % (len(res["spec_bad"]), len(res["faults"]), len(res["mismatch"])))
    run.cleanup()
    return 1 if nv else 0
