"""C06 — cmdline and filename describe the current call only.

proof:  props/Properties_C06.v over Gen_Cmdline.v (T1: separator / fallback literals of cmdline.c) and Gen_Wrapper.v
        (T2: init/cleanup/ctor/dtor/setDefaults/store skeletons -> ids_facts).
tie:    T3 function level: snoopy_datasource_cmdline / _filename from the snapshot (ASan+UBSan) vs extracted model;
        system level: histories of 2..30 calls in ONE process through the production wrapper (thread-safe and
        non-thread-safe builds), every record compared with the model's prediction for that call alone.
"""
import json, os
from vlib.core import hexs, hexlist, corr_stream, VERIF, CheckError
from vlib.translate import tr_expand
from vlib.tr_wrapper import tr_wrapper
from vlib.syslevel import build_prod, run_script, per_call, call_line, run_many
from checks.c05 import build_impl

AREA = "expand"


def rb(rng, n, alpha=b"abc -=/\x01\x7f\xff\t%sd"):
    return bytes(rng.choice(alpha) for _ in range(n))


def gen_fn_cases(rng, n):
    cases = []
    for _ in range(n):
        r = rng.random()
        file = None if r < 0.05 else rb(rng, rng.choice([0, 1, 5, 30, 300]), rng.choice([b"/abc.", b"/abc.", b"/a%sdx20 \xe9"]))
        if file is not None and rng.random() < 0.05:
            file = rng.choice([b"/tmp/50%done", b"my%20prog", b"%%", b"%s%s%s", b"/x/%d-%u-%x/%c", b"caf\xc3\xa9/%5s|"])
        r = rng.random()
        if r < 0.08:
            argv = None
        elif r < 0.16:
            argv = []
        else:
            # thousands of entries only now and then: the extracted model is quadratic in the joined length
            cnt = rng.choice([600, 2000, 5000]) if rng.random() < 0.012 else rng.choice([1, 1, 2, 3, 5, 17, 100])
            argv = [rb(rng, rng.choice([0, 0, 1, 2, 7, 40] if cnt < 600 else [0, 0, 0, 1, 3])) for _ in range(cnt)]
        tot = (sum(len(a) for a in argv) + len(argv) - 1) if argv else (len(file) if file is not None else 9)
        sz = rng.choice([1, 2, 3, 4, 5, max(1, tot - 1), max(1, tot), tot + 1, tot + 2, 256, 2048, tot + 100])
        if file is None and (argv is None or argv == []):
            pass  # "(unknown)" branch
        cases.append("\t".join(["cmdline", str(sz), hexs(file), hexlist(argv)]))
        if file is not None and rng.random() < 0.3:
            cases.append("\t".join(["filename", str(rng.choice([1, 2, max(1, len(file)), len(file) + 1, len(file) + 2, 256])), hexs(file)]))
    return cases


def history(rng, tier):
    n = rng.choice([2, 3, 5, 8, 12, 30] if tier == "thorough" else [2, 3, 5, 9])
    lds = rng.choice([255, 300, 2047])
    calls = []
    for k in range(n):
        r = rng.random()
        path = rb(rng, rng.choice([1, 6, 40, lds + 5] if r < 0.9 else [0]), rng.choice([b"/binxyz.", b"/binxyz.", b"/b%sd\xe9 x"]))
        r = rng.random()
        if r < 0.15:
            argv = None
        elif r < 0.25:
            argv = []
        elif r < 0.45:
            # long call (around / far above the limit)
            argv = [rb(rng, rng.choice([lds - 3, lds, lds + 1, 3 * lds]), b"LONG-")] + [b"tail"]
        else:
            argv = [rb(rng, rng.choice([0, 1, 4, 12]), b"short ") for _ in range(rng.choice([1, 2, 4]))]
        envp = None if rng.random() < 0.2 else [b"K=%d" % k]
        api = rng.choice(["execve", "execv"])
        calls.append((api, path, argv, envp))
    return lds, calls


def check(run):
    run.snapshot()
    consts = tr_expand(run)
    tr_wrapper(run)
    ok, failed, log = run.coq_props(["Properties_C06.v"])
    exe = build_impl(run)
    rng = run.rng
    # ---- function level
    fcases = gen_fn_cases(rng, 1500 if run.tier == "quick" else 12000)
    res = corr_stream(run, AREA, exe, fcases, stream="fn")
    for (i, c, m, im) in res["mismatch"][:1]:
        f = c.split("\t")
        kind = "sanitizer" if im.split("\t")[0] != "ok" else "spec_violation"
        run.violation("fn:%s:%s" % (f[0], im.split("\t")[0]), kind,
                      "%s output differs from join/prefix law proved for the model: model=%s impl=%s" % (f[0], m[:120], im[:120]),
                      {"stream": "fn", "failing_input": c, "model_output": m, "impl_output": im, "cases": [c]})
    # ---- system level histories
    la, da = consts["call_log_adj"], consts["call_ds_adj"]
    libs = [("ts", build_prod(run, ts=True)), ("nts", build_prod(run, ts=False))]
    nh = 12 if run.tier == "quick" else 150
    hists = [history(rng, run.tier) for _ in range(nh)]
    fmt = b"%{cmdline}|%{filename}|%{snoopy_literal:end}"
    # model predictions for every call alone
    pred_cases = []
    for (lds, calls) in hists:
        for (api, path, argv, envp) in calls:
            pred_cases.append("\t".join(["gen", str(16383 + la), str(lds + da), hexs(fmt), hexs(path), hexlist(argv), "[]"]))
    pc = os.path.join(run.scratch, "c06-pred.txt")
    open(pc, "w").write("".join(c + "\n" for c in pred_cases))
    pred = run.run_model(AREA, pc, pc + ".out")

    def job(args):
        hi, vname, lib = args
        lds, calls = hists[hi]
        ini = b"[snoopy]\noutput = file:@D@/out.log\ndatasource_message_max_length = %d\nmessage_format = \"%s\"\n" % (lds, fmt)
        script = ["sink\tfile\tout\t@D@/out.log", "ini\t" + hexs(ini)]
        for (api, path, argv, envp) in calls:
            script.append(call_line(api, path, argv, envp, 0, -1, 2))
        return (hi, vname, script, run_script(run, lib, script, "c06-%s-%d" % (vname, hi), timeout=120))
    jobs = [(hi, vn, lib) for hi in range(nh) for (vn, lib) in libs]
    outs = run_many(job, jobs, workers=8)
    off = [0]
    for (lds, calls) in hists:
        off.append(off[-1] + len(calls))
    nrec = 0
    distinct = set()
    for (hi, vname, script, r) in outs:
        lds, calls = hists[hi]
        if r["status"] != 0:
            run.violation("hist:caller-died:%s" % vname, "crash", "caller ended with status %s: %s" % (r["status"], r["stderr"][-300:]),
                          {"failing_input": {"variant": vname, "history": script}, "script": script, "variant": vname})
            continue
        pcs = per_call(r["records"])
        for k in range(len(calls)):
            want = pred[off[hi] + k].split("\t")[1]
            want = (want if want != "-" else "") + "0a"
            got = "".join(h for (nm, h) in pcs.get(k, {}).get("sinks", {}).get("at-exec", []) if nm == "out" and h not in ("-", "~"))
            nrec += 1
            distinct.add((hi, k))
            if got != want:
                run.violation("hist:record-differs:%s" % vname, "spec_violation",
                              "record of call %d in a history of %d calls (%s build) is not the record of that call alone" % (k, len(calls), vname),
                              {"failing_input": {"variant": vname, "call_index": k, "history": script}, "script": script, "variant": vname,
                               "expected_record_hex": want[:400], "observed_record_hex": got[:400]})
                break
    if not ok and not run.violations:
        run.violation("proof:%s" % failed, "proof", "proof obligation no longer checks: %s\n%s" % (failed, log[-1500:]), {"theorem": failed, "coq_log": log[-3000:]})
    run.coverage.update({
        "evaluations": len(fcases) + nrec,
        "distinct_nontrivial": len(set(fcases)) + len(distinct),
        "rule": "function level: argv shapes (NULL, {NULL}, 1..2000 entries, empty strings, control/8-bit bytes) with buffer sizes 1..5 and total-1..total+2; "
                "system level: histories of 2..30 calls in one process (long-then-short, NULL argv mixed in, execv/execve alternating), both builds, "
                "each record compared with the model's record of that call alone; distinct = distinct function cases + (history, call) pairs",
        "samples": fcases[:2] + [{"history": hists[0][1][:3].__repr__()[:300]}],
        "distribution": {"function_cases": len(fcases), "function_mismatches": len(res["mismatch"]), "histories": nh, "records_compared": nrec, "builds": [v for v, _ in libs]},
        "traces_validated_against_impl": len(fcases) - len(res["mismatch"]) + nrec,
    })
    return run.finish(level="proof",
                      trusted_base=["Coq 8.16.1 kernel + vm_compute", "vlib/translate.py tr_expand (cmdline.c literals), vlib/skel.py (life-cycle skeletons)",
                                    "extraction ExtrOcamlBasic + drv_expand.ml; impl_expand.c; tool_caller/librecorder"],
                      assumptions=["snprintf returns the would-be length and writes at most size-1 bytes plus NUL", "the thread-safe build's fresh per-call record may hold arbitrary content before the ctor (modelled as ids_garbage)"])


def replay(run, path):
    rep = json.load(open(path))
    run.snapshot()
    consts = tr_expand(run)
    if rep.get("cases"):
        exe = build_impl(run)
        res = corr_stream(run, AREA, exe, rep["cases"], stream="replay")
        for i, c in enumerate(rep["cases"]):
            print("case:", c[:200]); print(" model:", res["model"][i][:200]); print(" impl: ", res["impl"][i][:200])
        run.cleanup()
        return 1 if res["mismatch"] else 0
    lib = build_prod(run, ts=(rep.get("variant", "ts") == "ts"))
    r = run_script(run, lib, rep["script"], "replay", timeout=120)
    for k, v in sorted(per_call(r["records"]).items()):
        print(k, [h[:160] for (nm, h) in v["sinks"].get("at-exec", [])])
    run.cleanup()
    return 0
