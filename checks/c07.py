"""C07 — Filter chain is a conjunction; a drop silences the call.

proof:  coq/props/Properties_C07.v over Gen_Filter.v (T1: buffer sizes, delimiters, registry arrays under the current config.h,
        INI_MAX_LINE), Gen_Wrapper.v (T2: action / wrapper skeletons from clang's AST) and Gen_Output.v.
tie:    T3 on snoopy_filtering_check_chain built from the snapshot (ASan+UBSan), each case in a worker that has taken the
        wanted real/effective uid and a pty or /dev/null on stdin.  The verdict of every chain element ALONE is measured on the
        implementation in the same state (registry lookup + call); the extracted model of the chain combinator and the extracted
        specification are then evaluated over those measured verdicts, so the check is about the combinator and nothing else.
        Exhaustive over all chains of <= 2 (quick) / <= 3 (thorough) elements of a 15-spec alphabet, random chains to 20
        elements with stray semicolons and long arguments, chains beyond the configuration-line length around the copy and name
        buffers (model Fault <-> sanitizer event).
        End to end: production libsnoopy.so from the snapshot preloaded into the scripted caller running under several uids with
        and without a terminal on stdin; per chain the configuration file is rewritten; predicted 'drop' => no byte at any of
        the seven harness-owned sinks at exec entry, after return and after flushing, and the real exec is still reached once
        with the scripted result; predicted 'pass' => the record is at the configured sink at exec entry.
"""
import json, os
from vlib.core import hexs, hexlist, unhex, corr_stream, VERIF, CheckError
from vlib.tr_filter import tr_filter
from vlib.tr_wrapper import tr_wrapper
from vlib.tr_output import tr_output
from vlib.syslevel import build_prod, per_call, call_line, run_many
from vlib.filt import AREA, UIDS, build_impl, alphabet, chains_upto, random_chain, boundary_chains, measure_singles, probe, parse_elems, table_of, run_script_as, stage_tools, shrink_list, FAST_ASAN, run_uidhist

SINKS = ["sink\tfile\tout\t@D@/out.log", "sink\tpipe\tso\t1", "sink\tpipe\tse\t2", "sink\tdgram\tsock\t@D@/s.sock",
         "sink\tdevlog\tdevlog\t@D@/devlog.sock", "sink\ttty\ttty"]
OUTS = [("file", b"file:@D@/out.log", "out"), ("stdout", b"stdout", "so"), ("devlog", b"devlog", "devlog"), ("socket", b"socket:@D@/s.sock", "sock"),
        ("stderr", b"stderr", "se"), ("devtty", b"devtty", "tty")]


def my_comm():
    try:
        return open("/proc/self/comm", "rb").read().strip()
    except OSError:
        return b"python3"


def corpus_pairs():
    """corpus lines 'chain <ruid> <euid> <tty> <chain hex> [...]': the verdict table is re-measured on the current tree"""
    d = os.path.join(VERIF, "corpus", "C07")
    out = []
    if os.path.isdir(d):
        for f in sorted(os.listdir(d)):
            for line in open(os.path.join(d, f)):
                g = line.rstrip("\n").split("\t")
                if g[0] == "chain" and len(g) >= 5:
                    out.append(((int(g[1]), int(g[2]), int(g[3])), unhex(g[4]) or b""))
    return out


def states_for(tier):
    if tier == "quick":
        return [(0, 0, 0), (0, 0, 1), (0, 7, 1), (1000, 1000, 1), (1000, 0, 0), (65534, 65534, 0), (65534, 1000, 1)]
    st = []
    for i, u in enumerate(UIDS + [1000]):
        for t in (0, 1):
            st.append((u, u, t))
            st.append((u, [7, 0, 1000][(i + t) % 3] if u != [7, 0, 1000][(i + t) % 3] else 12, t))
    return st


def model_elems(run, chains, tag):
    """spec-level reading of every chain: {chain: [(name, arg, tag)]} through the extracted [elems]"""
    p = os.path.join(run.scratch, "c07-elems-%s.txt" % tag)
    open(p, "w").write("".join("elems\t%s\n" % hexs(c) for c in chains))
    out = run.run_model(AREA, p, p + ".out")
    return {c: parse_elems(o) for c, o in zip(chains, out)}


def spec_line(cf, rf):
    if cf[0] == "chain" and len(rf) > 1 and rf[1] in ("P", "D"):
        return "\t".join(["spec07", cf[4], cf[5], rf[1]])
    return None


def chain_cases(run, exe, pairs, tag, view=None):
    """pairs: [(state, chain)] -> (case lines, singles dict, elems dict); view(chain) = the part of the chain whose elements are
    measured (the whole chain inside the property's domain; the bytes the copy buffer keeps beyond it)"""
    view = view or (lambda c: c)
    chains = sorted(set(c for _, c in pairs))
    elv = model_elems(run, sorted(set(view(c) for c in chains)), tag)
    el = {c: elv[view(c)] for c in chains}
    wanted = set()
    for (st, c) in pairs:
        for (n, a, t) in el[c]:
            wanted.add((st[0], st[1], st[2], n, a))
    singles = measure_singles(run, exe, wanted, tag)
    lines = []
    for (st, c) in pairs:
        tbl = table_of(el[c], lambda n, a: singles[(st[0], st[1], st[2], n, a)])
        lines.append("chain\t%d\t%d\t%d\t%s\t%s" % (st[0], st[1], st[2], hexs(c), tbl))
    return lines, singles, el


def describe(c):
    f = c.split("\t")
    if f[0] in ("chain", "full"):
        return "chain %r under real uid %s, effective uid %s, %s on stdin" % ((unhex(f[4]) or b"")[:200], f[1], f[2], "a terminal" if f[3] == "1" else "/dev/null")
    return c[:200]


def fails(run, exe, st, chain):
    lines, _, _ = chain_cases(run, exe, [(st, chain)], "shrink")
    r = corr_stream(run, AREA, exe, lines, spec_line=spec_line, stream="shrink", impl_env=FAST_ASAN)
    return bool(r["spec_bad"] or r["faults"]), lines[0]


def minimise(run, exe, case):
    """fewest elements (then shortest arguments) on which the implementation still breaks the specification"""
    f = case.split("\t")
    if f[0] != "chain" or exe is None:
        return case
    st = (int(f[1]), int(f[2]), int(f[3]))
    best = [case]

    def test(elems):
        bad, line = fails(run, exe, st, b";".join(elems))
        if bad:
            best[0] = line
        return bad
    elems = shrink_list([e for e in (unhex(f[4]) or b"").split(b";")], test, budget=40)
    for i, e in enumerate(elems):
        if b":" in e and len(e) > 24:
            n, a = e.split(b":", 1)
            for cut in (a[:1], a[: len(a) // 8], a[: len(a) // 2]):
                cand = elems[:i] + [n + b":" + cut] + elems[i + 1:]
                if test(cand):
                    elems = cand
                    break
    return best[0]


def seq_fails(run, exe, seq):
    r = corr_stream(run, AREA, exe, seq, spec_line=spec_line, stream="shrink", impl_env=FAST_ASAN)
    return bool(r["spec_bad"] or r["faults"])


def reproduce(run, exe, cases, i):
    """the case alone (minimised) when it fails alone; otherwise the shortest run of preceding cases that makes it fail again
    in one process (a decision that depends on earlier calls)"""
    if seq_fails(run, exe, [cases[i]]):
        return [minimise(run, exe, cases[i])]
    for k in (1, 2, 4, 8, 16, 64, 256, i):
        seq = cases[max(0, i - k): i + 1]
        if seq_fails(run, exe, seq):
            return seq
        if k >= i:
            break
    return [cases[i]]


def classify(run, res, cases, stream, in_domain=True, exe=None):
    nv = 0
    shrunk = set()
    for k, (i, c, impl, sp) in enumerate(res["spec_bad"]):
        seq = [c]
        if k == 0 and exe is not None:
            seq = reproduce(run, exe, cases, i)
            c = seq[-1]
        run.violation("spec:conjunction", "spec_violation",
                      "decision %s is not the conjunction of the known elements' own verdicts: %s (measured verdicts: %s)%s"
                      % (impl.split("\t")[1], describe(c), c.split("\t")[5], " (as the last of %d calls in one process)" % len(seq) if len(seq) > 1 else ""),
                      {"stream": stream, "failing_input": c, "impl_output": impl, "model_output": res["model"][i], "cases": seq})
        nv += 1
    for (i, c, impl) in res["faults"]:
        seq = [c]
        if not in_domain and res["model"][i].startswith("fault:"):
            continue          # outside the property's domain, and the model predicts the undefined behaviour
        if in_domain and "fault" not in shrunk and exe is not None:
            shrunk.add("fault")
            seq = reproduce(run, exe, cases, i)
            c = seq[-1]
        run.violation("fault:%s" % impl.split("\t")[0], "sanitizer", "implementation faulted (%s) on %s" % (impl, describe(c))
                      + (" (as the last of %d calls in one process)" % len(seq) if len(seq) > 1 else ""),
                      {"stream": stream, "failing_input": c, "impl_output": impl, "model_output": res["model"][i], "cases": seq})
        nv += 1
    mism = [m for m in res["mismatch"] if not (m[2].startswith("fault:") and (m[3].startswith("san:") or m[3].startswith("crash:")))]
    return nv, mism


def beyond_cases(fc):
    """(state, chain) pairs with chains longer than the configuration line allows: around the copy bound and the name buffer
    (correspondence of the truncation and of the model's Fault with the sanitizer; no specification demand)"""
    cut = min(fc["copy_n"], fc["term_idx"])
    nm, ini = fc["name_max"], fc["ini_max_line"]
    out = []
    for off in range(-3, 4):
        tail = b"only_uid:12"
        padlen = cut + off - len(tail)
        if padlen < 6:
            continue
        pad = (b"noop;" * (padlen // 5 + 1))[: padlen - 1] + b";"
        for r in (1, 12, 5):
            out.append(((r, 7, 0), pad + tail + b";exclude_uid:5"))
    for L in (ini - 1, ini, ini + 1, cut - 1, cut, cut + 1, cut + 200):
        body = (b"nosuch:" + b"a" * 50 + b";") * (L // 58 + 1)
        out.append(((0, 7, 0), body[:L]))
        out.append(((5, 7, 0), (body[: max(0, L - 10)] + b";only_root")[:L + 9]))
    for k in (nm - 2, nm - 1, nm, nm + 1, nm + 40):
        if k > 0:
            out.append(((0, 7, 0), b"x" * k + b":arg;only_root"))
            out.append(((0, 7, 0), b"noop;" + b"y" * k + b":"))
            out.append(((0, 7, 0), b"z" * k))                       # no colon: never copied into the name buffer
    return out, cut


# ------------------------------------------------------------------------------------------------ concurrent callers
def mt_stream(run, exe, limit, anc=b"nosuchproc2"):
    iters = 1500 if run.tier == "quick" else 12000
    long_drop = (b"noop;" * 150)[: min(700, limit - 40)] + b"only_uid:4242"          # drops for every uid but 4242, at the very end
    long_pass = (b"nosuch:" + b"k" * 40 + b";") * 12 + b"exclude_uid:4242"
    sets = [[long_drop, b"noop"], [long_drop, long_pass, b"", b"exclude_uid:4242;noop"], [b"noop;only_root;only_uid:4242", b"only_uid:1000,0;noop;noop", b"x", long_drop]]
    cases = ["mt\t%d\t%d\t0\t%d\t%s" % (r, e, iters, hexlist(cs)) for (r, e) in ((0, 0), (1000, 7)) for cs in sets]
    # list-taking filters with different lists in different threads (a tokeniser with process-wide state mixes them up)
    spawn = [b"exclude_spawns_of:aa,bb,cc,dd,ee," + anc, b"exclude_spawns_of:ff,gg,hh,ii,jj,kk,nosuchproc", b"noop;exclude_spawns_of:ll,mm,nn;only_uid:0,1000", b"exclude_spawns_of:" + anc + b",oo,pp"]
    cases.append("mt\t0\t0\t0\t%d\t%s" % (max(200, iters // 5), hexlist(spawn)))
    d = os.path.join(run.scratch, "mt")
    os.makedirs(d, exist_ok=True)
    cp = os.path.join(d, "cases.txt")
    open(cp, "w").write("".join(c + "\n" for c in cases))
    out = run.run_impl(exe, cp, os.path.join(d, "impl.out"), env=FAST_ASAN)
    ncalls = 0
    for c, o in zip(cases, out):
        f = c.split("\t")
        chains = [unhex(x) or b"" for x in f[5].split(",")]
        if not o.startswith("ok\t"):
            run.violation("fault:%s" % o.split("\t")[0], "sanitizer", "implementation faulted (%s) with %d threads evaluating chains concurrently under real uid %s" % (o, len(chains), f[1]),
                          {"stream": "mt", "failing_input": c, "impl_output": o, "cases": [c]})
            continue
        res = o.split("\t")[1].split(",")
        ncalls += iters * len(res)
        bad = [(chains[i], x) for i, x in enumerate(res) if x[1:] != "0"]
        if bad:
            ch, x = bad[0]
            run.violation("mt:decision-changes-under-concurrency", "spec_violation",
                          "chain %r decides %s when evaluated alone under real uid %s, but %s of %d evaluations decided otherwise while %d other thread(s) evaluated other chains"
                          % (ch[:120], "pass" if x[0] == "P" else "drop", f[1], x[1:], iters, len(chains) - 1),
                          {"stream": "mt", "failing_input": c, "impl_output": o, "cases": [c]})
    return {"cases": len(cases), "threads": sorted(set(len(c.split("\t")[5].split(",")) for c in cases)), "evaluations": ncalls}


# ------------------------------------------------------------------------------------------------ a build with one filter only
def variant_stream(run, exe, pty_ok):
    """production library built from the snapshot with only_tty as the ONLY configured filter (config.h edited as
    --disable-all-filters --enable-filter-only_tty does): the chain is still consulted; names of filters that are not in this build are ignored"""
    import re
    from vlib.core import CheckError as _CE

    def only_tty_cfg(cfg):
        return re.sub(r"^#define SNOOPY_CONF_FILTER_ENABLED_(?!only_tty\b)\w+.*$", "/* not in this build */", cfg, flags=re.M)
    try:
        objs = run.build_objs("prod-onlytty", san=False, entry=True, config_edit=only_tty_cfg)
        lib = os.path.join(run.scratch, "lib-prod-onlytty.so")
        run.link(lib, [], objs, san=False, shared=True)
    except _CE as ex:
        run.notes.append("the tree does not build with only_tty as the only filter: variant stream skipped (%s)" % str(ex)[:200])
        return {"skipped": True}
    chains = [b"only_tty", b"only_tty:x", b"noop;only_tty;", b"nosuchfilter;;only_tty", b"only_uid:12345;only_tty", b"exclude_uid:0;noop", b""]
    singles = measure_singles(run, exe, {(0, 0, t, b"only_tty", b"") for t in ((0, 1) if pty_ok else (0,))}, "variant")
    ncalls = 0
    for t in ((0, 1) if pty_ok else (0,)):
        tty_pass = singles[(0, 0, t, b"only_tty", b"")] != "d"
        script = list(SINKS) + ["env\t" + hexlist([b"PATH=/bin"])]
        for k, c in enumerate(chains):
            script.append("ini\t" + hexs(b"[snoopy]\nmessage_format = \"%{cmdline}\"\noutput = file:@D@/out.log\nfilter_chain = \"" + c + b"\"\n"))
            script.append(call_line("execv", b"/bin/prog", [b"mark-%d-x" % k], None, 0, -1, 2))
        r = run_script_as(run, lib, script, "c07-variant-%d" % t, 0, t, timeout=120)
        if r["status"] != 0:
            run.violation("e2e:caller-died", "crash", "caller with the only_tty-only build ended with status %s: %s" % (r["status"], r["stderr"][-300:]),
                          {"failing_input": {"build": "only_tty is the only configured filter", "tty": t}, "script": script, "uid": 0, "tty": t})
            continue
        pcs = per_call(r["records"])
        for k, c in enumerate(chains):
            ncalls += 1
            want = tty_pass or b"only_tty" not in c
            at = "".join(hx for (nm, hx) in pcs.get(k, {"sinks": {}})["sinks"].get("at-exec", []) if nm == "out" and hx not in ("-", "~"))
            logged = (b"mark-%d-x" % k).hex() in at
            if logged != want:
                sub = list(SINKS) + ["env\t" + hexlist([b"PATH=/bin"]), script[len(SINKS) + 1 + 2 * k], script[len(SINKS) + 2 + 2 * k].replace("mark-%d-x" % k, "mark-0-x").replace((b"mark-%d-x" % k).hex(), b"mark-0-x".hex())]
                run.violation("e2e:one-filter-build", "spec_violation",
                              "build with only_tty as the only configured filter, %s on stdin: the chain %r decides '%s' but the call was %s"
                              % ("a terminal" if t else "/dev/null", c, "pass" if want else "drop", "logged" if logged else "not logged"),
                              {"failing_input": {"build": "config.h with SNOOPY_CONF_FILTER_ENABLED_only_tty as the only filter macro", "filter_chain": c.decode("latin1"), "tty": t,
                                                 "predicted": "pass" if want else "drop"},
                               "script": sub, "uid": 0, "tty": t, "sink": "out", "predicted_pass": want, "variant": "only_tty"})
                break
    return {"calls": ncalls, "build": "only_tty only"}


# ------------------------------------------------------------------------------------------------ constructed ancestry
ANCESTORS = ["vfy-listed", "vfy)mid(dle", "a) S 1 (b"]         # outermost first; kernel names set with prctl(PR_SET_NAME)


def ancestry_stream(run, lib):
    """the caller runs below three processes whose kernel names the harness chose (two of them with parentheses and blanks): a chain
    that names one of them must silence the call, a chain that names none must not (expectation by construction, not measured)"""
    chains = [(b"exclude_spawns_of:vfy-listed", False), (b"exclude_spawns_of:nosuchproc7,vfy-listed", False), (b"exclude_spawns_of:vfy)mid(dle", False),
              (b"noop;exclude_spawns_of:a) S 1 (b;only_root", False), (b"exclude_spawns_of:nosuchproc7,vfy-liste,vfy-listedx,mid,dle", True),
              (b"only_root;exclude_spawns_of:vfy", True)]
    script = list(SINKS) + ["env\t" + hexlist([b"PATH=/bin"])]
    for k, (c, want) in enumerate(chains):
        script.append("ini\t" + hexs(b"[snoopy]\nmessage_format = \"%{cmdline}\"\noutput = file:@D@/out.log\nfilter_chain = \"" + c + b"\"\n"))
        script.append(call_line("execv", b"/bin/prog", [b"mark-%d-x" % k], None, 0, -1, 2))
    r = run_script_as(run, lib, script, "c07-ancestry", 0, 0, timeout=120, ancestors=ANCESTORS)
    if r["status"] != 0:
        run.violation("e2e:caller-died", "crash", "caller below the named ancestors %s ended with status %s: %s" % (ANCESTORS, r["status"], r["stderr"][-300:]),
                      {"failing_input": {"ancestors": ANCESTORS}, "script": script, "uid": 0, "tty": 0, "ancestors": ANCESTORS})
        return {"calls": 0}
    pcs = per_call(r["records"])
    for k, (c, want) in enumerate(chains):
        call = pcs.get(k, {"sinks": {}, "real": []})
        at = "".join(hx for (nm, hx) in call["sinks"].get("at-exec", []) if nm == "out" and hx not in ("-", "~"))
        anywhere = [nm for ph in ("at-exec", "after", "after-flush") for (nm, hx) in call["sinks"].get(ph, []) if hx not in ("-", "~")]
        logged = (b"mark-%d-x" % k).hex() in at
        if logged != want or (not want and anywhere) or len(call["real"]) != 1:
            sub = list(SINKS) + ["env\t" + hexlist([b"PATH=/bin"]), script[len(SINKS) + 1 + 2 * k], script[len(SINKS) + 2 + 2 * k].replace((b"mark-%d-x" % k).hex(), b"mark-0-x".hex())]
            run.violation("e2e:ancestry", "spec_violation",
                          "caller below processes named %s (outermost first): the chain %r must %s but %s"
                          % (ANCESTORS, c, "let the call through" if want else "silence the call", "a record was written" if logged or anywhere else ("nothing was logged" if len(call["real"]) == 1 else "the exec was not reached once")),
                          {"failing_input": {"filter_chain": c.decode("latin1"), "ancestors": ANCESTORS, "predicted": "pass" if want else "drop"},
                           "script": sub, "uid": 0, "tty": 0, "sink": "out", "predicted_pass": want, "ancestors": ANCESTORS})
            break
    return {"calls": len(chains), "ancestors": ANCESTORS}


# ------------------------------------------------------------------------------------------------ uid histories in one process image
HIST_SEQ = [(0, 4242), (1000, 4242), (65534, 4242), (1000, 1000), (0, 0), (4294967294, 4242), (4242, 7), (0, 4242)]


def hist_ini(chain):
    return b"[snoopy]\nmessage_format = \"%{cmdline}\"\noutput = file:@D@/out.log\nfilter_chain = \"" + chain + b"\"\n"


def hist_stream(run, exe, lib, tier):
    """several exec calls of ONE process image with the real uid / gid changed in between (production wrapper, file output): each call is
    logged iff the chain passes for the uid the process has AT THAT CALL (chain model over the verdicts measured at function level)"""
    chains = [b"only_uid:1000", b"exclude_uid:1000", b"only_root", b"only_uid:0,65534", b"exclude_uid:0;only_uid:1000,0,4294967294", b"only_root:x;noop",
              b"only_uid:4242", b"exclude_uid:4242,7", b"noop;exclude_uid:65534;only_uid:65534,1000"]
    seqs = [HIST_SEQ, HIST_SEQ[::-1]] if tier == "quick" else [HIST_SEQ, HIST_SEQ[::-1], HIST_SEQ[2:] + HIST_SEQ[:2], HIST_SEQ[5:] + HIST_SEQ[:5]]
    pairs = [((u, u, 0), c) for c in chains for (u, g) in HIST_SEQ]
    lines, singles, el = chain_cases(run, exe, pairs, "hist")
    pp = os.path.join(run.scratch, "c07-hist-pred.txt")
    open(pp, "w").write("".join(l + "\n" for l in lines))
    pred = dict(zip([(st[0], c) for (st, c) in pairs], run.run_model(AREA, pp, pp + ".out")))
    jobs = [(c, sq) for c in chains for sq in seqs]
    # the same with every second call made from a fresh thread: a call that was filtered out must leave nothing behind that stops the next
    # caller (5 s limit per threaded call; exec result -99 = still blocked)
    thr = [(u, g, k % 2 == 1) for k, (u, g) in enumerate(HIST_SEQ)]
    jobs += [(c, thr) for c in chains[:5]]
    outs = run_many(lambda j: run_uidhist(run, lib, hist_ini(jobs[j][0]), jobs[j][1], "%d" % j), range(len(jobs)), workers=4)
    ncalls = 0
    for (c, sq), o in zip(jobs, outs):
        if isinstance(o, str) or (len(o) != len(sq) and not (o and o[-1][3] == -99)):
            run.violation("e2e:history-caller-died", "crash", "process with uid history %s and chain %r ended abnormally: %s" % (sq, c, o),
                          {"failing_input": {"filter_chain": c.decode("latin1"), "uid_gid_history": sq}, "hist": {"chain": c.decode("latin1"), "seq": sq}})
            continue
        for k, (u, g, grew, ret, err) in enumerate(o):
            ncalls += 1
            if ret == -99:
                run.violation("e2e:exec-blocked", "spec_violation", "call %d of one process image, made from a second thread, did not return within 5 s (history %s, chain %r): the exec does not proceed"
                              % (k + 1, sq[: k + 1], c), {"failing_input": {"filter_chain": c.decode("latin1"), "uid_gid_thread_history": sq[: k + 1]},
                                                          "hist": {"chain": c.decode("latin1"), "seq": sq[: k + 1], "want_last": None}})
                break
            p = pred.get((u, c), "")
            if not p.startswith("ok\t"):
                continue
            want = p == "ok\tP"
            if (grew > 0) != want or ret != -1:
                run.violation("e2e:history", "spec_violation",
                              "call %d of one process image (real uid/gid history %s): under real uid %d the chain %r decides '%s' but the call was %s%s"
                              % (k + 1, sq[: k + 1], u, c, "pass" if want else "drop", "logged" if grew > 0 else "not logged", "" if ret == -1 else "; exec result %d" % ret),
                              {"failing_input": {"filter_chain": c.decode("latin1"), "uid_gid_history": sq[: k + 1], "predicted": "pass" if want else "drop"},
                               "hist": {"chain": c.decode("latin1"), "seq": sq[: k + 1], "want_last": want}})
                break
    return {"processes": len(jobs), "calls": ncalls, "history": HIST_SEQ}


# ------------------------------------------------------------------------------------------------ end to end
def e2e(run, exe, fc, alpha, tier, rng, pty_ok=True):
    lib = build_prod(run)
    stage_tools(run)
    states = [(0, 0), (0, 1), (1000, 1), (65534, 0), (1000, 0), (4294967294, 1)] if tier == "quick" else [(u, t) for u in UIDS + [1000] for t in (0, 1)]
    if not pty_ok:
        states = [(u, 0) for (u, t) in states if t == 0] + [(u, 0) for (u, t) in states if t == 1 and (u, 0) not in states]
    pairs_ch = chains_upto(alpha, 2)
    procs = []
    for i, (u, t) in enumerate(states):
        oname, oarg, sink = OUTS[i % len(OUTS)]
        chains = list(pairs_ch)
        chains += [random_chain(rng, alpha[:10] + alpha[11:], 900) for _ in range(25 if tier == "quick" else 150)]
        # what the INI line cannot carry verbatim: quotes, newlines, '#', a blank in front of ';' (inline comment) or at either end
        chains = [c for c in chains if b'"' not in c and b"\n" not in c and b"#" not in c and b"\t" not in c and b"\r" not in c
                  and b" ;" not in c and c == c.strip() and all(32 <= x < 127 for x in c)]
        procs.append({"uid": u, "tty": t, "out": oname, "oarg": oarg, "sink": sink, "chains": chains, "extra": b"", "fmt": b"%{cmdline}"})
    long_arg = b"y" * 400       # with error logging on, the message overflow is reported through the error handler
    # error logging on, a failing data source and a message that overflows its limit (error handler): a dropped call must stay silent all the same
    for (u, t, o) in ([(1000, 0, 0)] if tier == "quick" else [(1000, 0, 0), (0, 1 if pty_ok else 0, 4), (65534, 0, 3)]):
        oname, oarg, sink = OUTS[o]
        procs.append({"uid": u, "tty": t, "out": oname, "oarg": oarg, "sink": sink, "chains": list(pairs_ch),
                      "extra": b"error_logging = yes\nlog_message_max_length = 255\n", "fmt": b"%{cmdline} %{nosuchdatasource:x}"})
    # the option assigned twice in one file, the empty chain first: the LAST value is the chain (an empty chain passes everything, it
    # does not switch filtering off for what follows)
    for (u, t, o) in ([(1000, 0, 0)] if tier == "quick" else [(1000, 0, 0), (0, 0, 3)]):
        oname, oarg, sink = OUTS[o]
        procs.append({"uid": u, "tty": t, "out": oname, "oarg": oarg, "sink": sink, "chains": list(pairs_ch), "extra": b"", "fmt": b"%{cmdline}",
                      "pre": b"filter_chain = \"\"\nfilter_chain =\n"})
    # predictions: the chain combinator (model) over the verdicts measured at function level in the same state
    pairs = [((p["uid"], p["uid"], p["tty"]), c) for p in procs for c in p["chains"]]
    lines, singles, el = chain_cases(run, exe, pairs, "e2e")
    pp = os.path.join(run.scratch, "c07-e2e-pred.txt")
    open(pp, "w").write("".join(l + "\n" for l in lines))
    pred = run.run_model(AREA, pp, pp + ".out")
    pred_by = {}
    k = 0
    for p in procs:
        for c in p["chains"]:
            pred_by[(p["uid"], p["tty"], c)] = pred[k]
            k += 1

    def ini_of(p, chain):
        return b"[snoopy]\n" + p["extra"] + b"message_format = \"" + p["fmt"] + b"\"\noutput = " + p["oarg"] + b"\n" + p.get("pre", b"") + b"filter_chain = \"" + chain + b"\"\n"

    def job(i):
        p = procs[i]
        script = list(SINKS) + ["env\t" + hexlist([b"PATH=/bin"])]
        for k, c in enumerate(p["chains"]):
            script.append("ini\t" + hexs(ini_of(p, c)))
            last = (k == len(p["chains"]) - 1)
            script.append(call_line("execve" if k % 2 else "execv", b"/bin/prog", [b"mark-%d-x" % k] + ([long_arg] if p["extra"] else []), [] if k % 2 else None, 1 if last else 0, 0 if last else -1, 0 if last else 2))
        return (i, script, run_script_as(run, lib, script, "c07-%d" % i, p["uid"], p["tty"], timeout=300))
    outs = run_many(job, range(len(procs)), workers=4)
    ncmp, ndrop, npass = 0, 0, 0
    for (i, script, r) in outs:
        p = procs[i]
        if r["status"] != 0:
            run.violation("e2e:caller-died", "crash", "caller under uid %d ended with status %s: %s" % (p["uid"], r["status"], r["stderr"][-300:]),
                          {"failing_input": {"uid": p["uid"], "tty": p["tty"], "output": p["out"]}, "script": script, "uid": p["uid"], "tty": p["tty"]})
            continue
        pcs = per_call(r["records"])
        for k, c in enumerate(p["chains"]):
            pr = pred_by[(p["uid"], p["tty"], c)]
            if not pr.startswith("ok\t"):
                continue
            want_pass = pr == "ok\tP"
            call = pcs.get(k, {"sinks": {}, "real": [], "ret": None})
            last = (k == len(p["chains"]) - 1)
            mark = (b"mark-%d-x" % k).hex()
            at = {}
            for (nm, hx) in call["sinks"].get("at-exec", []):
                if hx not in ("-", "~"):
                    at[nm] = at.get(nm, "") + hx
            late = [(ph, nm) for ph in (("after", "after-flush") if not last else ()) for (nm, hx) in call["sinks"].get(ph, []) if hx not in ("-", "~")]
            # (with the overflowing message of the error-logging processes the cmdline itself is refused: any record counts there)
            logged = mark in at.get(p["sink"], "") or bool(p["extra"] and at.get(p["sink"]))
            stray = [nm for nm in at if nm != p["sink"]]
            nreal = len(call["real"])
            ret = call["ret"]
            exec_ok = nreal == 1 and ret is not None and ((last and ret[2] == "child" and ret[3] == "0") or (not last and ret[2:5] == ["-1", "2", "1"]))
            ncmp += 1
            ndrop += (not want_pass)
            npass += want_pass
            why = sig = None
            if not exec_ok:
                sig, why = "e2e:exec", "the real exec was not reached exactly once with the scripted result (real calls %d, ret %s)" % (nreal, ret)
            elif not want_pass and (at or late):
                sig, why = "e2e:drop-not-silent", "the chain decides 'drop' but bytes reached %s" % (sorted(at) or late)
            elif want_pass and not logged:
                sig, why = "e2e:pass-not-logged", "the chain decides 'pass' but no record is at the configured sink '%s' at exec entry" % p["sink"]
            elif want_pass and (stray or late):
                sig, why = "e2e:stray-output", "bytes at %s besides the configured sink" % (stray or late)
            if why and p.get("pre"):
                why += " (filter_chain assigned three times in the file: \"\", empty, then this chain)"
            if why:
                sub = list(SINKS) + ["env\t" + hexlist([b"PATH=/bin"]), "ini\t" + hexs(ini_of(p, c)), script[len(SINKS) + 2 + 2 * k].replace("\t1\t0\t0", "\t0\t-1\t2") if last else script[len(SINKS) + 2 + 2 * k]]
                run.violation(sig, "spec_violation", "%s: chain %r, output %s, uid %d, %s on stdin" % (why, c[:200], p["out"], p["uid"], "a terminal" if p["tty"] else "/dev/null"),
                              {"failing_input": {"filter_chain": c.decode("latin1"), "uid": p["uid"], "tty": p["tty"], "output": p["out"], "predicted": "pass" if want_pass else "drop"},
                               "script": sub, "uid": p["uid"], "tty": p["tty"], "mark": (b"mark-%d-x" % k).decode(), "sink": p["sink"], "predicted_pass": want_pass})
    return {"calls": ncmp, "predicted_drop": ndrop, "predicted_pass": npass, "processes": len(procs), "states": states,
            "error_logging_processes": sum(1 for p in procs if p["extra"])}


def check(run):
    run.snapshot()
    fc = tr_filter(run)
    tr_wrapper(run)
    tr_output(run)
    ok, failed, log = run.coq_props(["Properties_C07.v"])
    exe = build_impl(run)
    rng = run.rng
    anc = my_comm()
    alpha = alphabet(1000, anc)
    limit = min(fc["ini_max_line"], 4096)
    states = states_for(run.tier)
    _, pty_ok = probe(run, exe)
    if not pty_ok:
        run.notes.append("no pty available: states with a terminal on stdin were left out")
        states = [st for st in states if st[2] == 0]
    # ---- stream 1: corpus + exhaustive small chains in every state
    corp = corpus_pairs()
    small = chains_upto(alpha, 2 if run.tier == "quick" else 3)
    gen = [(st, c) for st in states for c in small]
    nrand = 3000 if run.tier == "quick" else 25000
    gen += [(rng.choice(states), random_chain(rng, alpha, limit, wild=True)) for _ in range(nrand)]
    # empty elements in every position around a dropping / a passing element, with and without ':'
    holes = []
    for x in (b"only_uid:1001", b"only_root", b"exclude_uid:1000", b"only_uid", b"noop", b"nosuch"):
        for y in (b"only_uid:1000", b"noop:z", b"exclude_uid", b"only_root:q"):
            holes += [b";" + x, x + b";", b";;" + x, x + b";;", b";" + x + b";", x + b";;" + y, y + b";;" + x, b";" + y + b";;;" + x + b";", b";;" + y + b";" + x + b";;",
                      y + b";" + b";" * 7 + x]
    gen += [(st, c) for st in ((1000, 7, 0), (0, 0, 0), (65534, 65534, 0)) for c in holes]
    # '%' bytes: a chain is data, never a format (conversions with a field width would push or cut the rest of the chain)
    pct = []
    for x in (b"only_uid:1001", b"only_root", b"exclude_uid:1000"):
        for pre in (b"%", b"%%", b"nosuch:%%", b"noop:100%", b"x%4000d", b"noop:%900c", b"%1000%", b"nosuch:%-1500d", b"noop:%d;nosuch:%%%%", b"%s", b"noop:%s%s%s", b"%n", b"nosuch:%hhn%n"):
            pct += [pre + b";" + x, x + b";" + pre, pre + b";noop;" + pre + b";" + x]
    gen += [(st, c) for st in ((1000, 7, 0), (0, 0, 0)) for c in pct]
    bnd = boundary_chains(limit, 1000, 1001)
    gen += [(st, c) for st in ((1000, 7, 0), (0, 1000, 1 if pty_ok else 0)) for c in bnd]
    # a smoke stage first: when the implementation faults on a large share of it the full stream is pointless (and slow)
    pairs = corp + gen[:: max(1, len(gen) // 300)]
    lines, singles, el = chain_cases(run, exe, pairs, "smoke")
    res = corr_stream(run, AREA, exe, lines, spec_line=spec_line, stream="smoke", impl_env=FAST_ASAN)
    crashed = len(res["faults"]) > 20 or sum(1 for v in singles.values() if v not in ("u", "p", "d")) > 20
    if crashed:
        run.notes.append("the implementation faulted on %d of %d smoke cases; the full stream and the end-to-end part were skipped" % (len(res["faults"]), len(lines)))
    else:
        pairs = corp + gen
        lines, singles, el = chain_cases(run, exe, pairs, "fn")
        res = corr_stream(run, AREA, exe, lines, spec_line=spec_line, stream="chain", impl_env=FAST_ASAN)
    allcases = lines
    nv, mism = classify(run, res, allcases, "chain", exe=exe)
    # registry: the model's binding of a name (from the preprocessed arrays) and the implementation's doesNameExist agree
    reg_bad = []
    for (st, c) in pairs:
        for (n, a, t) in el[c]:
            v = singles[(st[0], st[1], st[2], n, a)]
            if (t == "u") != (v == "u") or v not in ("u", "p", "d"):
                reg_bad.append((n, a, t, v, st))
    # ---- stream 2: beyond the configuration-line length (truncation, name buffer): correspondence only
    # (after a broken obligation the model runs on the reference constants: a difference OUTSIDE the property's domain would then say
    #  nothing about the property, so this stream is left out and the broken obligation is what gets reported)
    bpairs, cut = beyond_cases(fc) if not run.using_reference else ([], 0)
    if run.using_reference:
        run.notes.append("beyond-domain correspondence stream skipped (reference constants in use)")
    # elements as the copy buffer keeps them; a name that reaches the name buffer's size is not measured alone (it is the fault under test)
    bc, _, _ = ([], None, None) if not bpairs else chain_cases(run, exe, bpairs, "beyond", view=lambda c: b";".join(e for e in c[:max(cut, 0)].split(b";") if e.find(b":") < fc["name_max"]))
    res2 = corr_stream(run, AREA, exe, bc, stream="beyond", impl_env=FAST_ASAN) if bc else {"mismatch": [], "spec_bad": [], "faults": [], "model": [], "impl": []}
    nv2, mism2 = classify(run, res2, bc, "beyond", in_domain=False)
    # ---- concurrent callers (impl only): a chain's decision while other threads evaluate other chains = its decision alone
    mt = mt_stream(run, exe, limit, anc) if not crashed else {"cases": 0}
    # ---- end to end
    ee = e2e(run, exe, fc, alpha, run.tier, rng, pty_ok) if not crashed else {"calls": 0, "processes": 0, "skipped": True}
    if not crashed:
        ee["uid_histories"] = hist_stream(run, exe, build_prod(run), run.tier)
        ee["one_filter_build"] = variant_stream(run, exe, pty_ok)
        ee["constructed_ancestry"] = ancestry_stream(run, build_prod(run))
    nv_total = len(run.violations)
    if not ok and nv_total == 0:
        run.violation("proof:%s" % failed, "proof", "proof obligation no longer checks: %s; %s\n%s" % (failed, "; ".join(n for n in run.notes if n.startswith("translator") or n.startswith("skeleton")) or "the translator recognised every statement (the regenerated constants themselves violate the side condition)", log[-1500:]),
                      {"theorem": failed, "coq_log": log[-3000:], "translator_notes": [n for n in run.notes if n.startswith("translator") or n.startswith("skeleton")]})
    if (mism or mism2 or reg_bad) and nv_total == 0:
        if mism or mism2:
            i, c, m, im = (mism or mism2)[0]
            run.violation("corr:chain" if mism else "corr:beyond", "correspondence",
                          "model and implementation differ on %d cases although the specification holds on the outputs; first: %s" % (len(mism) + len(mism2), describe(c)),
                          {"stream": "chain" if mism else "beyond", "correspondence": "filter.chain", "first_case": c, "model_output": m, "impl_output": im, "cases": [c]})
        else:
            n, a, t, v, st = reg_bad[0]
            run.violation("corr:registry", "correspondence", "registry binding of the name %r: model %s, implementation %s" % (n, t, v),
                          {"stream": "singles", "correspondence": "filter.registry", "cases": ["single\t%d\t%d\t%d\t%s\t%s" % (st[0], st[1], st[2], hexs(n), hexs(a))]})
    verdicts = [o.split("\t")[1] for o in res["impl"] if o.startswith("ok\t")]
    distinct = len(set((l.split("\t")[4], l.split("\t")[5]) for l in lines if len(el[unhex(l.split("\t")[4]) or b""]) >= 2))
    run.coverage.update({
        "evaluations": len(allcases) + len(bc) + ee["calls"] + len(singles), "distinct_nontrivial": distinct,
        "rule": "all chains of <= %d elements over the %d-spec alphabet %s in each of %d process states (real uid, effective uid, terminal on stdin); %d random chains of up to 20 "
                "elements with stray semicolons, near-miss names and arguments up to 700 bytes, all shorter than INI_MAX_LINE=%d; %d chains beyond that length around the copy "
                "bound and the name buffer; end to end %d calls in %d processes; every element's own verdict measured on the implementation in the same state; "
                "non-trivial = distinct (chain, measured verdicts) with >= 2 elements"
                % (2 if run.tier == "quick" else 3, len(alpha), [a.decode("latin1") for a in alpha], len(states), nrand, fc["ini_max_line"], len(bc), ee["calls"], ee["processes"]),
        "samples": [describe(c) for c in allcases[:: max(1, len(allcases) // 5)]][:5],
        "distribution": {"states": states, "corpus_cases": len(corp), "exhaustive_chains": len(small), "random_chains": nrand, "beyond_domain": len(bc),
                         "pass": verdicts.count("P"), "drop": verdicts.count("D"), "single_verdicts_measured": len(singles), "concurrent": mt,
                         "mismatches": len(mism) + len(mism2), "spec_failures": len(res["spec_bad"]), "impl_faults_in_domain": len(res["faults"]),
                         "model_fault_matched_by_sanitizer": sum(1 for i, c in enumerate(bc) if res2["model"][i].startswith("fault:") and (res2["impl"][i].startswith("san:") or res2["impl"][i].startswith("crash:"))),
                         "e2e": ee},
        "traces_validated_against_impl": len(allcases) + len(bc) - len(mism) - len(mism2) + ee["calls"],
    })
    return run.finish(
        level="proof",
        trusted_base=["Coq 8.16.1 kernel + vm_compute (gen_ok, skeleton shape)", "vlib/tr_filter.py (regex, gcc -E, clang AST), vlib/skel.py (action / wrapper skeletons), tr_output",
                      "extraction: ExtrOcamlBasic only; ocaml/common.ml + drv_filter.ml; harness/impl_filter.c; tool_caller + librecorder + tool_runas for the end-to-end part"],
        assumptions=["filters are deterministic functions of (argument, process state) during one call and write to no sink (true of the built-ins by inspection)",
                     "strncpy/strtok_r/strstr/strcmp semantics as in Filter/Model.v", "no configured chain is longer than INI_MAX_LINE-1 bytes (inih line buffer)"])


def replay(run, path):
    rep = json.load(open(path))
    run.snapshot()
    fc = tr_filter(run)
    exe = build_impl(run)
    if rep.get("hist"):
        lib = build_prod(run)
        h = rep["hist"]
        o = run_uidhist(run, lib, hist_ini(h["chain"].encode("latin1")), [tuple(x) for x in h["seq"]], "replay")
        print("chain:", h["chain"], " history (uid, gid):", h["seq"])
        print("per call (uid, gid, bytes logged, ret, errno):", o)
        bad = isinstance(o, str) or len(o) != len(h["seq"]) or o[-1][3] == -99 or (h.get("want_last") is not None and (o[-1][2] > 0) != h.get("want_last", True))
        print("last call predicted:", "pass" if h.get("want_last") else "drop")
        run.cleanup()
        return 1 if bad else 0
    if rep.get("script"):
        lib = build_prod(run)
        if rep.get("variant") == "only_tty":
            import re
            objs = run.build_objs("prod-onlytty", san=False, entry=True,
                                  config_edit=lambda cfg: re.sub(r"^#define SNOOPY_CONF_FILTER_ENABLED_(?!only_tty\b)\w+.*$", "/* not in this build */", cfg, flags=re.M))
            lib = os.path.join(run.scratch, "lib-prod-onlytty.so")
            run.link(lib, [], objs, san=False, shared=True)
        r = run_script_as(run, lib, rep["script"], "replay", rep.get("uid", 0), rep.get("tty", 0), timeout=120, ancestors=rep.get("ancestors", ()))
        c = per_call(r["records"]).get(0, {})
        seen = []
        for ph, l in c.get("sinks", {}).items():
            for (nm, hx) in l:
                if hx not in ("-", "~"):
                    seen.append((ph, nm))
                    print(ph, nm, len(hx) // 2, "bytes:", bytes.fromhex(hx)[:100])
        print("real calls:", len(c.get("real", [])), "ret:", c.get("ret"))
        print("predicted:", rep.get("failing_input", {}).get("predicted"), " chain:", rep.get("failing_input", {}).get("filter_chain"))
        logged = any(ph == "at-exec" and nm == rep.get("sink") for ph, nm in seen)
        bad = (logged != rep.get("predicted_pass")) or (not rep.get("predicted_pass") and seen) or len(c.get("real", [])) != 1
        run.cleanup()
        return 1 if bad else 0
    cases = rep.get("cases") or []
    if not cases:
        print("proof-only violation (%s): re-run ./check C07 quick" % rep.get("theorem"))
        run.cleanup()
        return 1
    nv = 0
    mtc = [c for c in cases if c.startswith("mt\t")]
    cases = [c for c in cases if not c.startswith("mt\t")]
    if mtc:
        p = os.path.join(run.scratch, "replay-mt.txt")
        open(p, "w").write("".join(c + "\n" for c in mtc))
        for attempt in range(3):          # a race: a few attempts
            outs = run.run_impl(exe, p, p + ".out", env=FAST_ASAN)
            for c, o in zip(mtc, outs):
                print("case:", "\t".join(c.split("\t")[:5]), [(unhex(x) or b"")[:60] for x in c.split("\t")[5].split(",")], "\n impl: ", o)
            if any((not o.startswith("ok\t")) or any(x[1:] != "0" for x in o.split("\t")[1].split(",")) for o in outs):
                nv += 1
                break
    sing = [c for c in cases if c.startswith("single\t")]
    rest = [c for c in cases if not c.startswith("single\t")]
    if sing:
        p = os.path.join(run.scratch, "replay-singles.txt")
        open(p, "w").write("".join(c + "\n" for c in sing))
        for c, o in zip(sing, run.run_impl(exe, p, p + ".out")):
            print("case:", c, "\n impl: ", o)
        nv += 1
    if rest:
        # measured verdicts are re-measured on the current tree
        pairs = [((int(f[1]), int(f[2]), int(f[3])), unhex(f[4]) or b"") for f in (c.split("\t") for c in rest) if f[0] == "chain"]
        lines, _, _ = chain_cases(run, exe, pairs, "replay") if pairs else ([], None, None)
        lines += [c for c in rest if not c.startswith("chain\t")]
        res = corr_stream(run, AREA, exe, lines, spec_line=spec_line, stream="replay", impl_env=FAST_ASAN)
        for i, c in enumerate(lines):
            print("case:", describe(c))
            print(" model:", res["model"][i][:200], " impl:", res["impl"][i][:200])
        n, mism = classify(run, res, lines, "replay", in_domain=all(len(unhex(c.split("\t")[4]) or b"") < fc["ini_max_line"] for c in lines))
        nv += n + len(mism)
        print("spec failures: %d, faults: %d, mismatches: %d" % (len(res["spec_bad"]), len(res["faults"]), len(mism)))
    run.cleanup()
    return 1 if nv else 0
