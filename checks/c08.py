"""C08 — Configuration file is parsed to the documented values with safe fallbacks; `snoopyctl conf` round trip.

proof:   coq/props/Properties_C08.v over Gen_Config.v regenerated (vlib/tr_config.py, T1) from lib/inih (Makefile.am -D flags,
         ini.h, ini.c), configfile.c (registry, parsers), util/parser.c, util/syslog.c + <syslog.h>, configuration.c,
         outputregistry.c, cli/action-conf.c, etc/snoopy.ini.in.
tie:     T3 differential run of the extracted model against the functions compiled from the snapshot (ASan+UBSan):
           ini   file bytes -> handler calls + return value of ini_parse (fgets reader; string reader cross-checked)
           load  file bytes -> snoopy_init() with that file -> every option through the library's option-value API
           cb    (section, name, value) -> the real callback on the defaults -> same observation
           conf  file bytes -> real `snoopyctl conf` with the library built from the snapshot -> text compared with the
                 model's conf_print, fed back as a configuration file (load), and printed again
         spec:  extracted spec_load_ok (documentation-level reading of every option, last occurrence wins) on the
                implementation's own handler calls and shown values; grammar files: implementation's handler calls = meaning(AST);
                conf: values after feeding the listing back = values before.
"""
import os, json, re, subprocess
from concurrent.futures import ThreadPoolExecutor
from vlib.core import hexs, unhex, corr_stream, VERIF, CheckError, sh
from vlib.tr_config import tr_config
from vlib import gen_config as G

AREA = "config"
WSB = b" \t\n\x0b\x0c\r"


# ------------------------------------------------------------------------------------------------ build
def config_path_edit(path):
    def edit(cfg):
        out, n = re.subn(r'^#define SNOOPY_CONF_CONFIGFILE_PATH .*$', '#define SNOOPY_CONF_CONFIGFILE_PATH "%s"' % path, cfg, flags=re.M)
        if n != 1:
            raise CheckError("config.h: SNOOPY_CONF_CONFIGFILE_PATH not found")
        return out
    return edit


def build_all(run):
    """impl driver (ASan+UBSan objects), production libsnoopy.so with the configuration path pointed into the scratch dir, snoopyctl."""
    ini = os.path.join(run.scratch, "case.ini")
    conf_ini = os.path.join(run.scratch, "snoopy.ini")

    def impl():
        objs = run.build_objs("asan", san=True)
        exe = os.path.join(run.scratch, "impl_config")
        run.link(exe, [os.path.join(VERIF, "harness", "impl_config.c")], objs, san=True, extra=["-I" + os.path.join(VERIF, "harness")])
        return exe

    def prod():
        objs = run.build_objs("prodconf", san=False, entry=True, config_edit=config_path_edit(conf_ini))
        so = os.path.join(run.scratch, "libsnoopy-conf.so")
        run.link(so, [], objs, san=False, shared=True)
        t = run.tree
        srcs = sorted(os.path.join(t, "src/cli", f) for f in os.listdir(os.path.join(t, "src/cli")) if f.endswith(".c"))
        srcs += [os.path.join(t, "src/util", f + ".c") for f in ("file", "parser", "pwd", "string", "syslog")]
        ctl = os.path.join(run.scratch, "snoopyctl")
        sh(["gcc", "-std=c99", "-D_GNU_SOURCE", "-DHAVE_CONFIG_H", "-w", "-O1", "-I" + t, "-I" + os.path.join(t, "src")] + srcs + ["-ldl", "-o", ctl])
        return so, ctl
    with ThreadPoolExecutor(2) as ex:
        a, b = ex.submit(impl), ex.submit(prod)
        exe = a.result()
        so, ctl = b.result()
    return {"impl": exe, "ini": ini, "so": so, "ctl": ctl, "conf_ini": conf_ini}


def run_snoopyctl_conf(b, data):
    """Real `snoopyctl conf` with the configuration file holding [data]. Returns stdout bytes or a status string."""
    open(b["conf_ini"], "wb").write(data)
    env = {"PATH": "/usr/bin:/bin", "SNOOPY_TEST_LIBSNOOPY_SO_PATH": b["so"]}
    try:
        p = subprocess.run([b["ctl"], "conf"], env=env, stdout=subprocess.PIPE, stderr=subprocess.PIPE, timeout=20)
    except subprocess.TimeoutExpired:
        return "timeout"
    if p.returncode != 0:
        return "exit:%d" % p.returncode
    return p.stdout


# ------------------------------------------------------------------------------------------------ cases
def corpus_cases():
    d = os.path.join(VERIF, "corpus", "C08")
    out = []
    if os.path.isdir(d):
        for f in sorted(os.listdir(d)):
            for line in open(os.path.join(d, f)):
                line = line.rstrip("\n")
                if line and not line.startswith("#"):
                    out.append(line)
    return out


def gen_cb_cases(rng, consts, n):
    rows = consts["options"]
    out = []
    if not rows:
        return out                                # registry not recognised and no reference constants: nothing to aim at
    for _ in range(n):
        r = rng.random()
        row = rng.choice(rows)
        name = row["name"].encode("latin1")
        sec = b"snoopy"
        val = G.option_value(rng, row["parse"], consts)
        if r < 0.06:
            sec = rng.choice([b"", b"Snoopy", b"snoopy ", b"other", b"snoop", b"snoopyy"])
        elif r < 0.12:
            name = rng.choice([b"", b"unknown", name.upper(), name + b"x", name[:-1], b" " + name])
        out.append("\t".join(["cb", hexs(sec), hexs(name), hexs(val.replace(b"\x00", b"0"))]))
    return out


def systematic_cb_cases(consts):
    """Every documented syslog name in three casings with and without the prefix; every suffix for a ladder of numbers."""
    out = []
    for opt, table in (("syslog_facility", consts["fac_to_int"]), ("syslog_level", consts["lvl_to_int"])):
        for n, _ in table:
            for v in (n, n.lower(), n.capitalize(), "LOG_" + n, "log_" + n.lower(), "Log_" + n.capitalize(),
                      "SYSLOG_" + n, "xLOG_" + n, "local0,log_" + n.lower(), "LOG_LOG_" + n, n + "_LOG_", "LOG_ " + n):
                out.append("\t".join(["cb", hexs(b"snoopy"), hexs(opt.encode()), hexs(v.encode("latin1"))]))
    # booleans are read by their first byte: every possible first byte (a fold like `c | 0x20` also maps 0x11 / 0x10 to '1' / '0')
    for b in range(1, 256):
        out.append("\t".join(["cb", hexs(b"snoopy"), hexs(b"error_logging"), hexs(bytes([b]) + b"es")]))
    for opt in ("datasource_message_max_length", "log_message_max_length"):
        for num in (0, 1, 254, 255, 256, 1023, 1024, 1025, 1048575, 1048576, 2 ** 31 - 1, 2 ** 31, 2 ** 32 + 1, 10 ** 15, 10 ** 19, 10 ** 30):
            for suf in ("", "k", "K", "m", "M"):
                out.append("\t".join(["cb", hexs(b"snoopy"), hexs(opt.encode()), hexs(("%d%s" % (num, suf)).encode())]))
    return out


def systematic_conf_cases(consts):
    """Continuation-line values with every NL-free isspace() byte directly before ';' and '#', at the start, in the middle and at
    the end of the value, for the free-text string options (the ini parser starts an inline comment at ';' after ANY isspace byte)."""
    out = []
    names = [r["name"].encode("latin1") for r in consts["options"] if r["parse"] in ("OMessageFormat", "OIdent", "OFilterChain")]
    for i, name in enumerate(names or [b"message_format"]):
        for ws in (b" ", b"\t", b"\x0b", b"\x0c", b"\r"):
            for mark in (b";", b"#"):
                for val in (b"a" + ws + mark + b"rest of the value", b"uid=%{uid}" + ws + mark + b"cmd=%{cmdline}" + ws + b"x", b"value ends with" + ws + mark):
                    if (i + len(val)) % len(names or [1]) and ws in (b" ", b"\t"):
                        continue                      # the plain blanks need not be repeated for every option
                    out.append("conf\t" + hexs(b"[snoopy]\n" + name + b" = first\n    " + val + b"\n"))
    out.append("conf\t" + hexs(b"[snoopy]\noutput = x\n\tfile:/tmp/a\x0c;b\n"))
    return out


def has_inline(v):
    return any(v[i] in WSB and v[i + 1] == 0x3b for i in range(len(v) - 1))


# ------------------------------------------------------------------------------------------------ the run
def pairs_from(field):
    if field == "[]":
        return []
    xs = field.split(",")
    return [(unhex(xs[i]), unhex(xs[i + 1])) for i in range(0, len(xs), 2)]


def triples_from(field):
    if field == "[]":
        return []
    xs = field.split(",")
    return [(unhex(xs[i]), unhex(xs[i + 1]), unhex(xs[i + 2])) for i in range(0, len(xs), 3)]


def process(run, b, consts, cases, asts, stream):
    """cases: case lines (ini/load/cb/conf).  asts: list of `ast` case lines (rendered by the model first).
    Returns a dict with counters; violations are recorded on run."""
    maxline = consts["ini_max_line"]
    nv = 0
    stats = {"ast": len(asts), "ast_wf": 0, "ini": 0, "load": 0, "cb": 0, "conf": 0, "mismatch": 0, "spec_bad": 0, "faults": 0, "conf_bad": 0, "events": 0}
    ast_meaning = {}          # data hex -> (ast line, meaning field)
    extra = []
    if asts:
        d = os.path.join(run.scratch, "ast-" + stream)
        os.makedirs(d, exist_ok=True)
        cp = os.path.join(d, "cases.txt")
        open(cp, "w").write("".join(c + "\n" for c in asts))
        mo = run.run_model(AREA, cp, os.path.join(d, "model.out"))
        for a, m in zip(asts, mo):
            f = m.split("\t")
            if f[0] != "ok":
                raise CheckError("model driver on ast case: %s" % m)
            if f[1] == "1":
                stats["ast_wf"] += 1
                ast_meaning[f[2]] = (a, f[3])
            extra.append(("ini", f[2]))
            extra.append(("load", f[2]))
    cases = list(cases) + ["%s\t%s" % (k, h) for k, h in extra]
    # conf cases are expanded by running the real tool: conf <file> -> text O; then load(file), load(O), conf(O)
    conf_cases = [c for c in cases if c.startswith("conf\t")]
    fn_cases = [c for c in cases if not c.startswith("conf\t")]
    conf_info = []
    for c in conf_cases:
        data = unhex(c.split("\t")[1]) or b""
        o1 = run_snoopyctl_conf(b, data)
        o2 = run_snoopyctl_conf(b, o1) if isinstance(o1, bytes) else None
        conf_info.append((c, data, o1, o2))
        fn_cases.append("load\t" + hexs(data))
        fn_cases.append("ini\t" + hexs(data))
        if isinstance(o1, bytes):
            fn_cases.append("load\t" + hexs(o1))
            fn_cases.append("conf\t%s\t%s" % (hexs(b["conf_ini"].encode()), hexs(data)))      # model-only line, answered below
    # every load case needs the implementation's own handler calls for the spec
    have_ini = set(c.split("\t")[1] for c in fn_cases if c.startswith("ini\t"))
    for c in list(fn_cases):
        if c.startswith("load\t") and c.split("\t")[1] not in have_ini:
            have_ini.add(c.split("\t")[1])
            fn_cases.append("ini\t" + c.split("\t")[1])
    # dedupe, keep order
    seen, uniq = set(), []
    for c in fn_cases:
        if c not in seen:
            seen.add(c)
            uniq.append(c)
    model_only = [c for c in uniq if c.startswith("conf\t")]
    both = [c for c in uniq if not c.startswith("conf\t")]
    res = corr_stream(run, AREA, b["impl"], both, stream=stream, impl_env={"VERIF_CASE_INI": b["ini"]}) if both else {"mismatch": [], "faults": [], "model": [], "impl": []}
    impl = dict(zip(both, res["impl"]))
    model = dict(zip(both, res["model"]))
    for c in both:
        stats[c.split("\t")[0]] += 1
    # ---- faults
    for (i, c, io) in res["faults"]:
        run.violation("fault:%s:%s" % (c.split("\t")[0], io.split("\t")[0]), "sanitizer", "implementation faulted on a configuration input: %s" % io,
                      {"stream": stream, "failing_input": c, "impl_output": io, "model_output": res["model"][i], "cases": [c]})
        nv += 1
        stats["faults"] += 1
    for c in both:
        if impl[c].startswith("strdiff"):
            run.violation("ini:string_reader_differs", "spec_violation", "ini_parse_string and ini_parse(file) disagree on a NUL-free input: %s" % impl[c],
                          {"stream": stream, "failing_input": c, "impl_output": impl[c], "cases": [c]})
            nv += 1
    # ---- grammar spec: handler calls of the implementation = meaning of the AST
    for h, (a, meaning) in ast_meaning.items():
        io = impl.get("ini\t" + h, "")
        f = io.split("\t")
        if f[0] == "ok" and (f[1] != "0" or f[2] != meaning):
            run.violation("spec:grammar", "spec_violation", "handler calls of ini_parse differ from the meaning of a well-formed grammar file",
                          {"stream": stream, "failing_input": "ini\t" + h, "ast": a, "expected_events": meaning, "impl_output": io, "cases": ["ini\t" + h]})
            nv += 1
            stats["spec_bad"] += 1
    # ---- option spec on load / cb
    spec_lines, spec_idx = [], []
    for c in both:
        f = c.split("\t")
        io = impl[c].split("\t")
        if io[0] != "ok":
            continue
        if f[0] == "load":
            ev = impl.get("ini\t" + f[1], "").split("\t")
            if ev[0] != "ok":
                continue
            spec_lines.append("spec\t%s\t%s" % (ev[2], io[1]))
            spec_idx.append((c, ev[2]))
            stats["events"] += 0 if ev[2] == "[]" else (ev[2].count(",") + 1) // 3
        elif f[0] == "cb":
            evs = ",".join(f[1:4])
            spec_lines.append("spec\t%s\t%s" % (evs, io[1]))
            spec_idx.append((c, evs))
    if spec_lines:
        d = os.path.join(run.scratch, "spec-" + stream)
        os.makedirs(d, exist_ok=True)
        sp = os.path.join(d, "spec.txt")
        open(sp, "w").write("".join(l + "\n" for l in spec_lines))
        so = run.run_model(AREA, sp, os.path.join(d, "spec.out"))
        for (c, evs), verdict in zip(spec_idx, so):
            if verdict == "ok":
                continue
            if not verdict.startswith("bad"):
                raise CheckError("model driver on spec line: %s" % verdict)
            opt = verdict[4:] or "?"
            cls = ""
            occ = [v for (s, n, v) in triples_from(evs) if s == b"snoopy" and n == opt.encode()]
            if opt in ("syslog_facility", "syslog_level") and occ and occ[-1].upper().startswith(b"LOG_LOG_"):
                cls = ":double_prefix"
            run.violation("spec:%s%s" % (opt, cls), "spec_violation",
                          "option %s: the value shown by the option API is not the documented reading of the file (last occurrence %r)" % (opt, occ[-1] if occ else None),
                          {"stream": stream, "failing_input": c, "impl_output": impl[c], "model_output": model[c], "cases": [c]})
            nv += 1
            stats["spec_bad"] += 1
    # ---- conf round trip through the real tool
    if model_only:
        d = os.path.join(run.scratch, "conf-" + stream)
        os.makedirs(d, exist_ok=True)
        cp = os.path.join(d, "cases.txt")
        open(cp, "w").write("".join(c + "\n" for c in model_only))
        mconf = dict(zip(model_only, run.run_model(AREA, cp, os.path.join(d, "model.out"))))
    for (c, data, o1, o2) in conf_info:
        stats["conf"] += 1
        if not isinstance(o1, bytes):
            run.violation("fault:conf:%s" % o1, "crash", "snoopyctl conf failed (%s)" % o1, {"stream": stream, "failing_input": c, "cases": [c]})
            nv += 1
            continue
        before = impl.get("load\t" + hexs(data), "")
        after = impl.get("load\t" + hexs(o1), "")
        bf, af = before.split("\t"), after.split("\t")
        if bf[0] != "ok" or af[0] != "ok":
            continue                                     # reported as fault above
        if bf[1:] != af[1:] or (isinstance(o2, bytes) and o2 != o1):
            vals = pairs_from(bf[1])
            strs = [v for (n, v) in vals]
            # cause first: a listing row (one-line OR continuation form) longer than the parser's line buffer is split by fgets,
            # whatever the value holds (known finding K1); only then the inline-comment class
            long_line = any(len(l) > maxline - 1 for l in o1.split(b"\n"))
            cls = "long_line" if long_line else ("inline_comment" if any(has_inline(v) for v in strs) else "other")
            changed = [n.decode("latin1") for (n, v), (n2, v2) in zip(vals, pairs_from(af[1])) if v != v2]
            run.violation("conf_roundtrip:%s" % cls, "spec_violation",
                          "`snoopyctl conf` output written back as the configuration file changes %s" % (", ".join(changed) or "the listing"),
                          {"stream": stream, "failing_input": c, "conf_output": hexs(o1), "values_before": bf[1:], "values_after": af[1:], "cases": [c]})
            nv += 1
            stats["conf_bad"] += 1
        mline = "conf\t%s\t%s" % (hexs(b["conf_ini"].encode()), hexs(data))
        mo = mconf.get(mline, "").split("\t")
        if len(mo) < 2 or mo[0] != "ok" or (unhex(mo[1]) or b"") != o1:
            res["mismatch"].append((-1, c, mconf.get(mline, "")[:400], "ok\t" + hexs(o1)[:400]))
    stats["mismatch"] = len(res["mismatch"])
    return nv, res, stats, both


def gen_all(run, consts, tier):
    rng = run.rng
    maxline = consts["ini_max_line"] or 1024
    n_ast = 2000 if tier == "quick" else 40000
    n_mut = 2000 if tier == "quick" else 40000
    n_cb = 6000 if tier == "quick" else 150000
    n_conf = 300 if tier == "quick" else 5000
    asts, meta = [], []
    rendered = []
    for _ in range(n_ast):
        bom, items = G.gen_ast(rng, consts, maxline)
        asts.append(G.enc_ast(bom, items))
        data = (b"\xef\xbb\xbf" if bom else b"") + b"".join(G.render_item(it) + G.EOL[e] for it, e in items)
        rendered.append(data)
    cases = []
    for _ in range(n_mut):
        data = G.mutate(rng, rng.choice(rendered), maxline)
        cases.append("ini\t" + hexs(data))
        cases.append("load\t" + hexs(data))
    cases += systematic_cb_cases(consts)
    cases += gen_cb_cases(rng, consts, n_cb)
    cases += systematic_conf_cases(consts)
    for _ in range(n_conf):
        data = rng.choice(rendered)
        if rng.random() < 0.3:
            data = G.mutate(rng, data, maxline)
        cases.append("conf\t" + hexs(data))
    return asts, cases


def check(run):
    run.snapshot()
    consts = tr_config(run)
    ok, failed, log = run.coq_props(["Properties_C08.v"])
    b = build_all(run)
    corp = corpus_cases()
    asts, cases = gen_all(run, consts, run.tier)
    corp_ast = [c for c in corp if c.startswith("ast\t")]
    corp_other = [c for c in corp if not c.startswith("ast\t")]
    nv, res, stats, both = process(run, b, consts, corp_other + cases, corp_ast + asts, "gen")
    # violations that match a known: line do not stand in for a broken obligation or a broken correspondence
    known = run.load_known()
    nv = len([v for v in run.violations if not [k for k in known if k[0] == run.prop and re.fullmatch(k[1], v["sig"])]])
    if not ok and nv == 0:
        run.violation("proof:%s" % failed, "proof", "proof obligation no longer checks: %s\n%s" % (failed, log[-1500:]),
                      {"theorem": failed, "coq_log": log[-3000:], "translator_notes": run.notes})
    if res["mismatch"] and nv == 0:
        i, c, m, im = res["mismatch"][0]
        run.violation("corr:%s" % c.split("\t")[0], "correspondence",
                      "model and implementation differ on %d cases although every specification check holds on the implementation's outputs" % len(res["mismatch"]),
                      {"stream": "gen", "correspondence": "config." + c.split("\t")[0], "first_case": c, "model_output": m, "impl_output": im, "cases": [c]})
    nontrivial = set()
    impl = dict(zip(both, res["impl"]))
    for c in both:
        f = c.split("\t")
        if f[0] == "ini" and impl[c].startswith("ok") and impl[c].split("\t")[2] != "[]":
            nontrivial.add(c)
        elif f[0] == "cb":
            nontrivial.add(c)
    run.coverage.update({
        "evaluations": len(both) + stats["conf"] + stats["ast"],
        "distinct_nontrivial": len(nontrivial),
        "rule": "INI files generated from the grammar AST of Config/Grammar.v (sections, '='/':' separators, ';'/'#' comments, inline comments, quotes, BOM, "
                "continuation lines, duplicate keys, CR-LF, lines padded to INI_MAX_LINE-3..+2) and byte-level mutations of them (separators, quotes, NUL, BOM, "
                "duplicated lines, over-long lines); per option every documented value in several letter cases with and without LOG_, numbers 0..10^15 and beyond "
                "with each suffix and case, garbage; `snoopyctl conf` on a sample. non-trivial = distinct file with at least one handler call, or distinct callback case",
        "samples": [c[:300] for c in (both[:: max(1, len(both) // 5)])][:5],
        "distribution": dict(stats, corpus_cases=len(corp)),
        "traces_validated_against_impl": len(both) - len([m for m in res["mismatch"] if m[0] >= 0]),
    })
    return run.finish(
        level="proof",
        trusted_base=["Coq 8.16.1 kernel + vm_compute (gen_ok)",
                      "vlib/tr_config.py (regex over configfile.c, util/parser.c, util/syslog.c, configuration.c, action-conf.c, ini.c; gcc for macro values, gcc -E for guarded tables and <syslog.h>)",
                      "extraction: ExtrOcamlBasic only; ocaml/common.ml + drv_config.ml; harness/impl_config.c; snoopyctl + libsnoopy.so built from the snapshot with the configuration path edited in config.h"],
        assumptions=["fgets/isspace/isdigit/strchr/strcmp/strdup semantics of the C locale as in Config/Model.v", "configuration files are regular files read completely (no read errors)"])


def replay(run, path):
    rep = json.load(open(path))
    run.snapshot()
    consts = tr_config(run)
    b = build_all(run)
    cases = rep.get("cases") or []
    asts = [c for c in cases if c.startswith("ast\t")]
    other = [c for c in cases if not c.startswith("ast\t")]
    nv, res, stats, both = process(run, b, consts, other, asts, "replay")
    impl = dict(zip(both, res["impl"]))
    model = dict(zip(both, res["model"]))
    for c in both:
        print("case:", c[:300])
        print(" model:", model[c][:400])
        print(" impl: ", impl[c][:400])
    for v in run.violations:
        print("violation:", v["sig"], "-", v["detail"][:300])
    print("spec failures: %d, conf round-trip failures: %d, faults: %d, mismatches: %d" % (stats["spec_bad"], stats["conf_bad"], stats["faults"], stats["mismatch"]))
    run.cleanup()
    return 1 if nv else 0
