"""C09 — Concurrent exec calls from threads stay isolated and complete.

proof:  props/Properties_C09.v over Gen_Conc.v (T2: lock skeleton of every function of src/tsrm.c, from clang's AST) and
        Gen_Globals.v (every static-storage object of the thread-safe library with all its accesses; function reference graph; nm).
tie:    T3 function level: random operation sequences on the real src/util/list.c (ASan+UBSan) vs the extracted heap model;
        system level: the production thread-safe libsnoopy.so from the snapshot under harness/libsched.so, which forces
        model-enumerated interleavings (2..4 threads x 1..3 failing exec calls, <= 2 / <= 3 preemptions at lock boundaries);
        per-thread records, the executed lock/unlock/once sequence and %{snoopy_threads} are compared with the model run on the
        same schedule.  Search: the same forced schedules and a stress run under ThreadSanitizer.
"""
import glob, json, os, re
from vlib.core import corr_stream, VERIF, CheckError, sh, THEORIES
from vlib.tr_conc import tr_conc
from vlib.syslevel import build_prod, run_many
from vlib.conclevel import run_mt, calibrate, build_tsan, call_strings, MTCALLER

AREA = "conc"
INI_MAIN = b'[snoopy]\noutput = file:@D@/out.log\nmessage_format = "%{snoopy_threads}|%{tid_kernel}|%{cmdline}|%{filename}"\n'
# every data source that does not depend on a terminal or on the network; the TSan search runs with this format
INI_WIDE = (b'[snoopy]\noutput = file:@D@/out.log\nmessage_format = "%{snoopy_threads}|%{tid_kernel}|%{cmdline}|%{filename}|%{login}|%{username}|%{eusername}|%{group}|%{egroup}'
            b'|%{uid}|%{pid}|%{ppid}|%{sid}|%{cwd}|%{hostname}|%{datetime}|%{timestamp}|%{env:HOME}|%{rpname}|%{tid}|%{snoopy_version}|%{snoopy_literal:x}|%{tty}|%{tty_uid}|%{tty_username}"\n')


# configurations that drive a wrapped call through a rarely taken path (a data source that fails, a dropping filter chain, a lookup without result)
LONGFMT = b"%A %B %d %Y %H:%M:%S %Z " * 4
RARE_INIS = [
    ("datetime-format-overflows-its-buffer", False, b'[snoopy]\noutput = file:@D@/out.log\nmessage_format = "%{datetime:' + LONGFMT + b'} %{cmdline}"\n'),
    ("filter-chain-drops-the-call", False, b'[snoopy]\noutput = file:@D@/out.log\nfilter_chain = "exclude_uid:0"\n'),
    ("ipaddr-without-utmp-record", True, b'[snoopy]\noutput = file:@D@/out.log\nmessage_format = "%{ipaddr} %{tty} %{cmdline}"\n'),
    ("unknown-data-source-and-error-logging", False, b'[snoopy]\noutput = file:@D@/out.log\nerror_logging = yes\nmessage_format = "%{nosuch} %{cmdline}"\n'),
]


def query_handlers(run):
    """the handler kinds the Coq side recognises in the generated skeletons -> sidecar consts_conc.tsv for the model driver.
    Called BEFORE run.coq_props, so that the sidecar takes part in the reference mechanism (saved with VERIF_MKREF, replaced by the
    reference copy when an obligation is broken); read it back with load_handlers AFTER coq_props."""
    qd = os.path.join(run.scratch, "query")
    os.makedirs(qd, exist_ok=True)
    qf = os.path.join(qd, "Query_conc.v")
    open(qf, "w").write("From Snoopy Require Import Conc.Tsrm Conc.LockSkel.\nFrom Gen Require Import Gen_Conc.\n"
                        "Eval vm_compute in (match handlers_of tsrm_fns constructors with Some h => (1, (if h_prepare h then 1 else 0), (if h_parent h then 1 else 0), "
                        "match h_child h with CNone => 0 | CUnlock => 1 | CReinit => 2 | CReinitClear => 3 end, (if h_preinit h then 1 else 0)) | None => (0, 0, 0, 0, 0) end).\n")
    base = ["timeout", "120", "coqc", "-q", "-Q", THEORIES, "Snoopy", "-Q", run.gen, "Gen"]
    sh(base + [os.path.join(run.gen, "Gen_Conc.v")], check=False)
    p = sh(base + [qf], check=False)
    m = re.search(r"=\s*\((\d), (\d), (\d), (\d), (\d)\)", p.stdout)
    hs = tuple(int(x) for x in m.groups()) if m else (0, 0, 0, 0, 0)
    open(os.path.join(run.scratch, "consts_%s.tsv" % AREA), "w").write("h_known\t%d\nh_prepare\t%d\nh_parent\t%d\nh_child\t%d\nh_preinit\t%d\n" % hs)


def load_handlers(run):
    d = {}
    for line in open(os.path.join(run.scratch, "consts_%s.tsv" % AREA)):
        k, v = line.rstrip("\n").split("\t")
        d[k] = int(v)
    return {"known": bool(d.get("h_known")), "prepare": bool(d.get("h_prepare")), "parent": bool(d.get("h_parent")), "child": d.get("h_child", 0),
            "preinit": bool(d.get("h_preinit")), "reference": bool(getattr(run, "using_reference", False))}


def query_unprotected(run):
    """names of the static-storage objects the classification leaves unprotected (for the report of a broken obligation)"""
    qf = os.path.join(run.scratch, "query", "Query_globals.v")
    os.makedirs(os.path.dirname(qf), exist_ok=True)
    open(qf, "w").write("From Coq Require Import String List.\nFrom Snoopy Require Import Conc.LockSkel.\nFrom Gen Require Import Gen_Conc Gen_Globals.\n"
                        "Eval vm_compute in (unprotected tsrm_fns globals (reachable_fns fn_refs data_refs) inlined_helpers, lock_objects globals).\n")
    p = sh(["timeout", "120", "coqc", "-q", "-Q", THEORIES, "Snoopy", "-Q", run.gen, "Gen", qf], check=False)
    return re.findall(r'"([^"]+)"%string', p.stdout) or re.findall(r'"([^"]+)"', p.stdout)


def setup_conc(run):
    """snapshot -> production library -> translator -> handlers; shared by C09 and C10"""
    run.snapshot()
    lib = build_prod(run, ts=True)
    objs = sorted(glob.glob(os.path.join(run.scratch, "obj-prod-ts", "*.o")))
    facts = tr_conc(run, objs)
    return lib, facts


def build_dlist(run):
    """function-level driver for util/list.c.  Linked against the NON-thread-safe objects of the snapshot (same list.c; its error handler then
    reads the global configuration): the driver runs every case in a forked worker, and must not depend on what the thread-safe build does
    around fork() - that is C10's subject, not the list's."""
    from vlib.syslevel import drop_thread_safety
    exe = os.path.join(run.scratch, "impl_dlist")
    if not os.path.exists(exe):
        objs = [o for o in run.build_objs("asan-nts", san=True, config_edit=drop_thread_safety) if not o.endswith("src__util__list.o") and not o.endswith("src__tsrm.o")]
        run.link(exe, [os.path.join(VERIF, "harness", "impl_dlist.c")], objs, san=True, extra=["-I" + os.path.join(VERIF, "harness")])
    return exe


def gen_dlist_cases(rng, n):
    cases = []
    for _ in range(n):
        ops, size, nextv = [], 0, 1
        for _ in range(rng.choice([1, 2, 3, 5, 8, 13, 30, 80])):
            r = rng.random()
            if size == 0 and r < 0.85 or r < 0.5:
                ops.append("p%d" % nextv); nextv += 1; size += 1
            elif r < 0.55:
                ops.append("F%d" % nextv); nextv += 1
            elif r < 0.6:
                ops.append("rN")
            else:
                if size == 0:
                    ops.append("r0")
                else:
                    i = rng.choice([0, size - 1, rng.randrange(size), rng.randrange(size)])
                    ops.append("r%d" % i); size -= 1
        cases.append("dlist\t" + ",".join(ops))
    return cases


def corpus_cases(prop, prefix):
    d = os.path.join(VERIF, "corpus", prop)
    out = []
    if os.path.isdir(d):
        for f in sorted(os.listdir(d)):
            for line in open(os.path.join(d, f)):
                line = line.rstrip("\n")
                if line and not line.startswith("#") and line.startswith(prefix):
                    out.append(line)
    return out


def coqchk_props(run, module):
    """thorough tier: re-check the compiled property file and everything it depends on with the stand-alone checker"""
    p = sh(["timeout", "900", "coqchk", "-silent", "-o", "-Q", THEORIES, "Snoopy", "-Q", run.gen, "Gen", "-Q", os.path.join(run.scratch, "props"), "Props", "Props." + module], check=False, timeout=960)
    m = re.search(r"\* Axioms:\s*(.*?)\n\s*\n", p.stdout, re.S)
    axioms = m.group(1).strip() if m else "?"
    if p.returncode != 0:
        run.violation("proof:coqchk:%s" % module, "proof", "coqchk rejects %s: %s" % (module, p.stdout[-800:]), {"theorem": "coqchk " + module, "coq_log": p.stdout[-3000:]})
    return {"exit": p.returncode, "axioms": axioms}


def new_violations(run):
    """violations that are not known findings (a known finding must not hide a broken obligation)"""
    known = run.load_known()
    return [v for v in run.violations if not [k for k in known if k[0] == run.prop and re.fullmatch(k[1], v["sig"])]]


def model_lines(run, lines, tag):
    p = os.path.join(run.scratch, "conc-%s.txt" % tag)
    open(p, "w").write("".join(l + "\n" for l in lines))
    out = run.run_model(AREA, p, p + ".out")
    bad = [o for o in out if o.startswith("driver-error")]
    if bad:
        raise CheckError("model driver: %s" % bad[0])
    return out


def parse_scheds(line):
    """'ok n truncated s;s;...' -> (n, truncated, [dict(ids, kinds, counts, flags)])"""
    f = line.split("\t")
    scheds = []
    for s in (f[3].split(";") if len(f) > 3 and f[3] else []):
        parts = s.split("|")
        ids = [int(x) for x in parts[0].split(",")] if parts[0] else []
        counts = {}
        for tc in (parts[2].split(",") if len(parts) > 2 and parts[2] else []):
            t, cs = tc.split(":")
            counts[int(t)] = [int(c) for c in cs.split(".")] if cs else []
        scheds.append({"ids": ids, "kinds": parts[1] if len(parts) > 1 else "", "counts": counts, "flags": parts[3:]})
    return int(f[1]), f[2] == "1", scheds


def tsan_reports(stderr):
    """distinct (kind, location) of ThreadSanitizer reports, without line numbers or addresses"""
    out = []
    for m in re.finditer(r"SUMMARY: ThreadSanitizer: ([a-z \-]+?) (?:\(?)(\S+?)(?::\d+)?(?::\d+)? in (\S+)", stderr):
        kind, f, fn = m.group(1).strip(), os.path.basename(m.group(2)), m.group(3)
        if (kind, f, fn) not in out:
            out.append((kind, f, fn))
    return out


def check_forced(run, r, sched, nthreads, ncalls, counts_expected=True):
    """compare one forced run with the model's prediction for the same schedule. Returns None or (sig, kind, detail)."""
    tr = r["trace"]
    others = [f[0] for f in tr["other"]]
    if r["status"] == "timeout" or "stuck" in others or r["status"] == 3:
        done = len(tr["sync"])
        return ("sched:blocked", "timeout", "the forced schedule stopped after %d of %d steps: a thread the model says is enabled did not get to its next lock boundary (deadlock or lost wake-up)" % (done, len(sched["ids"])))
    if r["status"] != 0:
        return ("sched:caller-died:%s" % r["status"], "crash", "caller ended with status %s: %s" % (r["status"], r["stderr"][-400:]))
    got = [(t, k) for (_, t, k, _) in tr["sync"]]
    want = list(zip(sched["ids"], sched["kinds"]))
    if got != want:
        n = next((i for i, (a, b) in enumerate(zip(got, want)) if a != b), min(len(got), len(want)))
        return ("sched:sync-sequence-differs", "correspondence",
                "executed lock/unlock/once sequence leaves the model's at step %d: impl %s model %s (%d vs %d steps)" % (n, got[n:n + 3], want[n:n + 3], len(got), len(want)))
    fin = [f for f in tr["other"] if f[0] == "finished"]
    if not fin or fin[0][2] != "0":
        return ("sched:extra-steps", "correspondence", "the implementation had sync points left when the model's schedule was exhausted")
    # the real exec saw each call exactly once with its own strings; the caller got the failure back
    reals = {}
    for (t, c, api, ph, ah) in tr["real"]:
        reals.setdefault((t, c), []).append((api, ph, ah))
    for i in range(nthreads):
        for j in range(ncalls):
            path, argv = call_strings(i, j)
            want_r = [("execv" if j & 1 else "execve", path.encode().hex(), ",".join(a.encode().hex() for a in argv))]
            if reals.get((i, j)) != want_r:
                return ("sched:real-exec-differs", "spec_violation", "thread %d call %d: real exec saw %s, expected %s" % (i, j, reals.get((i, j)), want_r))
            if (i, j, -1, 2) not in tr["ret"]:
                return ("sched:return-differs", "spec_violation", "thread %d call %d did not get (-1, ENOENT) back" % (i, j))
    return check_records(r, nthreads, ncalls, sched["counts"] if counts_expected else None)


def check_records(r, nthreads, ncalls, counts=None, wide=False):
    """exactly one record per call, made of the call's own path, arguments and thread identity and of nothing else"""
    tr = r["trace"]
    want = {}
    for i in range(nthreads):
        for j in range(ncalls):
            path, argv = call_strings(i, j)
            want[(i, j)] = [tr["tid"].get(i, "?").encode(), " ".join(argv).encode(), path.encode()]
    lone = 99 in tr["tid"]
    if lone:      # the caller's lone call after every thread has returned
        path, argv = call_strings(99, 0)
        want[(99, 0)] = [tr["tid"][99].encode(), " ".join(argv).encode(), path.encode()]
    got = {}
    foreign = []
    for line in r["out"]:
        f = line.split(b"|")
        hit = [k for k, w in want.items() if len(f) >= 4 and f[1:4] == w]
        if hit:
            got.setdefault(hit[0], []).append(f)
        else:
            foreign.append(line)
    missing = sorted(k for k in want if k not in got)
    dup = sorted(k for k, v in got.items() if len(v) > 1)
    if foreign:
        # which call does the damaged record belong to, and whose content does it show?
        owner = [k for k in missing if call_strings(*k)[1][0].encode() in foreign[0]]
        others = [k for k in want if k not in owner and (call_strings(*k)[1][0].encode() in foreign[0] or call_strings(*k)[0].encode() in foreign[0])]
        return ("sched:record-differs", "spec_violation",
                "record %r is not the record of any call (own thread id | own arguments | own path)%s%s; calls without a record of their own: %s"
                % (foreign[0][:200], "; it belongs to thread %d call %d" % owner[0] if owner else "", "; it shows content of thread %d call %d" % others[0] if others else "", missing[:4]))
    if dup:
        return ("sched:record-foreign-content", "spec_violation",
                "thread %d call %d was logged %d times and thread %d call %d not at all: a call's record shows another thread's content"
                % (dup[0][0], dup[0][1], len(got[dup[0]]), missing[0][0] if missing else -1, missing[0][1] if missing else -1))
    if missing or len(r["out"]) != nthreads * ncalls + (1 if lone else 0):
        return ("sched:record-count", "spec_violation", "%d records for %d calls; no record for %s" % (len(r["out"]), nthreads * ncalls + (1 if lone else 0), missing[:4]))
    if lone and got[(99, 0)][0][0].isdigit() and got[(99, 0)][0][0] != b"1":
        return ("quiescence:lone-call-sees-%s" % got[(99, 0)][0][0].decode(), "spec_violation",
                "all %d threads have returned from their %d calls, yet a later lone call sees %%{snoopy_threads} = %s registered threads instead of 1: the library still holds per-thread state"
                % (nthreads, ncalls, got[(99, 0)][0][0].decode()))
    if counts is not None:
        for i in range(nthreads):
            seen = [int(got[(i, j)][0][0]) if got[(i, j)][0][0].isdigit() else -1 for j in range(ncalls)]
            if seen != counts.get(i, []):
                return ("sched:thread-count-differs", "spec_violation",
                        "thread %d saw %%{snoopy_threads} = %s, the model run on the same schedule gives %s" % (i, seen, counts.get(i)))
    return None


def forced_campaign(run, lib, ini, ops, plans, tag, exe=None, env=None, want_tsan=False, workers=8):
    """plans: list of (T, calls, sched dict).  Returns (results, n_run)."""
    def job(a):
        k, (T, calls, sc) = a
        r = run_mt(run, lib, "force", T, calls, ",".join(map(str, sc["ids"])), ini, "%s-%d" % (tag, k), exe=exe, env=env, timeout=120)
        bad = check_forced(run, r, sc, T, calls)
        ts = tsan_reports(r["stderr"]) if want_tsan else []
        if not os.environ.get("VERIF_KEEP"):
            import shutil
            shutil.rmtree(r["dir"], ignore_errors=True)
        return (k, bad, ts, r["stderr"][-1500:] if (bad or ts) else "")
    # in chunks: a tree on which the forced schedules stop (every such run waits for its watchdog) is not run through all of them
    items, out, blocked = list(enumerate(plans)), [], 0
    step = 96
    for a in range(0, len(items), step):
        res = run_many(job, items[a:a + step], workers=workers)
        out += res
        blocked += len([1 for (_, bad, _, _) in res if bad and bad[1] in ("timeout", "crash")])
        if blocked >= 6:
            run.notes.append("forced schedules (%s): stopped after %d of %d runs, %d of them blocked or crashed" % (tag, len(out), len(items), blocked))
            break
    return out


def make_plans(run, ops, tier, rng):
    """model-enumerated schedules: exhaustive for 2 threads x 1 call, seeded samples for the larger configurations"""
    P = 2 if tier == "quick" else 3
    lines = ["enum\t2\t1\t%s\t%d\t%d" % (ops, P, 200000)]
    cfgs = [(T, c) for T in (2, 3, 4) for c in (1, 2, 3) if (T, c) != (2, 1)]
    nsamp = 60 if tier == "quick" else 600
    for (T, c) in cfgs:
        lines.append("sample\t%d\t%d\t%s\t%d\t%d\t%d" % (T, c, ops, P, nsamp, rng.randrange(1 << 30)))
    out = model_lines(run, lines, "plans")
    plans, meta = [], {}
    n, trunc, sc = parse_scheds(out[0])
    meta["2x1"] = {"enumerated": n, "truncated": trunc}
    plans += [(2, 1, s) for s in sc]
    for (T, c), o in zip(cfgs, out[1:]):
        n, _, sc = parse_scheds(o)
        # distinct schedules only
        seen, uniq = set(), []
        for s in sc:
            k = tuple(s["ids"])
            if k not in seen:
                seen.add(k); uniq.append(s)
        meta["%dx%d" % (T, c)] = {"sampled": len(uniq)}
        plans += [(T, c, s) for s in uniq]
    return plans, meta, P


def check(run):
    lib, facts = setup_conc(run)
    query_handlers(run)
    ok, failed, log = run.coq_props(["Properties_C09.v"])
    hs = load_handlers(run)
    rng = run.rng
    quick = run.tier == "quick"
    # ---------------------------------------------------------------- function level: util/list.c vs the heap model
    dl = build_dlist(run)
    dcases = corpus_cases("C09", "dlist\t")
    lsan = {"ASAN_OPTIONS": "detect_leaks=1:exitcode=77:abort_on_error=0:allocator_may_return_null=1", "LSAN_OPTIONS": "exitcode=0:print_suppressions=0"}
    res = corr_stream(run, AREA, dl, dcases, stream="dlist-corpus", impl_env=lsan)
    if not [1 for (i, c, m, im) in res["mismatch"] if not im.startswith("ok")]:
        # the corpus ran through without a dying worker: the random stream (a worker that dies in every case would cost one alarm per case)
        more = gen_dlist_cases(rng, 400 if quick else 20000)
        res2 = corr_stream(run, AREA, dl, more, stream="dlist", impl_env=lsan)
        dcases = dcases + more
        res = {"mismatch": res["mismatch"] + res2["mismatch"]}
    for (i, c, m, im) in res["mismatch"][:1]:
        st = im.split("\t")[0]
        if st == "ok" and im.endswith("\tLEAK") and im[:-5] == m:
            run.violation("dlist:leak", "sanitizer", "util/list.c: a node taken off the list is never freed (heap model / C09_DList_refines: remove frees the node; LeakSanitizer after the case)",
                          {"stream": "dlist", "failing_input": c, "cases": [c], "model_output": m, "impl_output": im})
            continue
        run.violation("dlist:%s" % st, "sanitizer" if st != "ok" else "spec_violation",
                      "util/list.c leaves the abstract list proved for the heap model: model=%s impl=%s" % (m[:200], im[:200]),
                      {"stream": "dlist", "failing_input": c, "cases": [c], "model_output": m, "impl_output": im})
    stats = {"ops": "", "K": 0, "meta": {}, "P": 2 if quick else 3, "plans": [], "nrun": 0, "tres": [], "nstress": 0, "tsan_seen": {}}

    def system_level():
        # ---------------------------------------------------------------- system level: forced schedules
        ops, K, _ = calibrate(run, lib, INI_MAIN)
        plans, meta, P = make_plans(run, ops, run.tier, rng)
        bad_model = [(T, c, s) for (T, c, s) in plans if s["flags"]]
        if bad_model:
            raise CheckError("the model itself reports %s on schedule %s" % (bad_model[0][2]["flags"], bad_model[0][2]["ids"][:40]))
        results = forced_campaign(run, lib, INI_MAIN, ops, plans, "f")
        nrun = len(results)
        seen_sigs = set()
        for (k, bad, _, err) in results:
            if bad and bad[0] not in seen_sigs:
                seen_sigs.add(bad[0])
                T, c, s = plans[k]
                run.violation(bad[0], bad[1], bad[2], {"failing_input": {"threads": T, "calls": c, "ops": ops, "schedule": ",".join(map(str, s["ids"]))},
                                                       "mode": "force", "threads": T, "calls": c, "ops": ops, "schedule": s["ids"], "kinds": s["kinds"], "counts": {str(a): b for a, b in s["counts"].items()},
                                                       "ini": INI_MAIN.decode(), "stderr": err})
        # ---------------------------------------------------------------- quiescence under contention (plain build): many threads, two calls each, then a lone call
        for rep in range(16 if quick else 60):
            rq = run_mt(run, lib, "stress", 48, 2, "-", INI_MAIN, "quiesce-%d" % rep, timeout=300)
            badq = ("sched:caller-died:%s" % rq["status"], "crash", "status %s: %s" % (rq["status"], rq["stderr"][-300:])) if rq["status"] != 0 else check_records(rq, 48, 2)
            if badq:
                run.violation("stress-" + badq[0] if not badq[0].startswith("quiescence") else badq[0], badq[1], "48 threads x 2 calls, free running: " + badq[2],
                              {"failing_input": {"mode": "stress", "threads": 48, "calls": 2, "then": "lone call"}, "mode": "stress-plain", "threads": 48, "calls": 2, "ini": INI_MAIN.decode()})
                break
        # ---------------------------------------------------------------- free running with random pauses around the library's file operations
        # (open / fclose / close of the log and of the configuration file): races between adjacent system calls of two threads; the log is absent at the start of every round
        for rep in range(10 if quick else 60):
            rj = run_mt(run, lib, "stress", 6, 3, "-", INI_MAIN, "jitter-%d" % rep, timeout=300, env={"SCHED_JITTER": str(run.seed * 1000 + rep + 1)})
            badj = ("sched:caller-died:%s" % rj["status"], "crash", "status %s: %s" % (rj["status"], rj["stderr"][-300:])) if rj["status"] != 0 else check_records(rj, 6, 3)
            if badj:
                run.violation("jitter-" + badj[0], badj[1], "6 threads x 3 calls, free running with random pauses of up to 0.8 ms around open/fclose/close (log file absent at the start): " + badj[2],
                              {"failing_input": {"mode": "stress", "threads": 6, "calls": 3, "jitter_seed": run.seed * 1000 + rep + 1}, "mode": "stress-jitter", "threads": 6, "calls": 3,
                               "jitter": run.seed * 1000 + rep + 1, "ini": INI_MAIN.decode()})
                break
        # ---------------------------------------------------------------- rare paths: after a call went through one, a second thread must still get through its own calls
        for (rname, rpty, rini) in RARE_INIS:
            rr = run_mt(run, lib, "stress", 2, 2, "-", rini, "rare-" + rname[:12], timeout=60, env={"MT_ALARM": "8"}, pty_stdin=rpty)
            stuck = rr["status"] == 3 or "stuck" in [f[0] for f in rr["trace"]["other"]]
            if stuck or rr["status"] != 0 or len(rr["trace"]["ret"]) != 5:
                run.violation("rare-path:%s:%s" % ("blocked" if stuck else "caller-died-%s" % rr["status"], rname), "timeout" if stuck else "crash",
                              "two threads x two calls with a configuration that takes a rarely used path (%s): %s" % (rname,
                              "a thread never returns from its exec call (8 s): the other thread went through the rare path and kept the repository mutex" if stuck
                              else "status %s, %d of 5 calls returned: %s" % (rr["status"], len(rr["trace"]["ret"]), rr["stderr"][-200:])),
                              {"failing_input": {"mode": "stress", "threads": 2, "calls": 2, "config": rname}, "mode": "stress-rare", "threads": 2, "calls": 2, "ini": rini.decode(), "pty": rpty})
        # ---------------------------------------------------------------- threads with a small stack (64 KiB) and both length limits at their maximum
        ini_big = b'[snoopy]\noutput = file:@D@/out.log\nlog_message_max_length = 1048575\ndatasource_message_max_length = 1048575\nmessage_format = "%{snoopy_threads}|%{tid_kernel}|%{cmdline}|%{filename}"\n'
        rs = run_mt(run, lib, "stress", 4, 2, "-", ini_big, "smallstack", timeout=120, env={"MT_STACK_KB": "64"})
        bads = ("sched:caller-died:%s" % rs["status"], "crash", "status %s: %s" % (rs["status"], rs["stderr"][-300:])) if rs["status"] != 0 else check_records(rs, 4, 2)
        if bads:
            run.violation("small-stack-" + bads[0], bads[1], "4 threads with 64 KiB stacks x 2 calls, log_message_max_length = datasource_message_max_length = 1048575: " + bads[2],
                          {"failing_input": {"mode": "stress", "threads": 4, "calls": 2, "stack_kb": 64, "limits": 1048575}, "mode": "stress-smallstack", "threads": 4, "calls": 2, "ini": ini_big.decode()})
        # ---------------------------------------------------------------- non-thread-safe build: single-threaded use only
        nts = build_prod(run, ts=False)
        ini_nts = b'[snoopy]\noutput = file:@D@/out.log\nmessage_format = "-|%{tid_kernel}|%{cmdline}|%{filename}"\n'
        rn = run_mt(run, nts, "stress", 1, 3, "-", ini_nts, "nts")
        badn = ("sched:caller-died:%s" % rn["status"], "crash", "status %s: %s" % (rn["status"], rn["stderr"][-300:])) if rn["status"] != 0 else check_records(rn, 1, 3)
        if badn:
            run.violation("nts-" + badn[0], badn[1], "non-thread-safe build, one thread, three calls: " + badn[2],
                          {"failing_input": {"mode": "stress", "build": "nts", "threads": 1, "calls": 3}, "mode": "stress-nts", "threads": 1, "calls": 3, "ini": ini_nts.decode()})
        # ---------------------------------------------------------------- search: ThreadSanitizer on forced schedules and under stress
        tlib, texe = build_tsan(run)
        ops_w, _, _ = calibrate(run, lib, INI_WIDE, "calib-wide")
        out = model_lines(run, ["enum\t2\t1\t%s\t1\t100000" % ops_w], "tsan-plans")
        _, _, sc_all = parse_scheds(out[0])
        # corpus first: "tsan-preempt <thread> <k>" = that thread is stopped after k of its lock-boundary steps while the other one runs a whole call
        first = []
        for line in corpus_cases("C09", "tsan-preempt\t"):
            f = line.split("\t")
            t, k = int(f[1]), int(f[2])
            for s in sc_all:
                if len(s["ids"]) > k and all(x == t for x in s["ids"][:k]) and s["ids"][k] != t and s not in first:
                    first.append(s)
                    break
        # one-preemption schedules: thread A stopped at every lock boundary while B runs a whole call; every second one in the quick tier
        sc = first + [s for s in (sc_all[::2] if quick else sc_all) if s not in first]
        tenv = {"TSAN_OPTIONS": "exitcode=0 report_signal_unsafe=0 second_deadlock_stack=1"}
        tres = forced_campaign(run, tlib, INI_WIDE, ops_w, [(2, 1, s) for s in sc], "t", exe=texe, env=tenv, want_tsan=True, workers=8)
        tsan_seen = {}
        for (k, bad, ts, err) in tres:
            for rep in ts:
                tsan_seen.setdefault(rep, (k, err))
            if bad and bad[0] not in seen_sigs and bad[1] != "timeout":
                seen_sigs.add(bad[0])
                run.violation("tsan-" + bad[0], bad[1], bad[2], {"failing_input": {"threads": 2, "calls": 1, "ops": ops_w, "schedule": ",".join(map(str, sc[k]["ids"]))},
                                                                 "mode": "force-tsan", "threads": 2, "calls": 1, "ops": ops_w, "schedule": sc[k]["ids"], "kinds": sc[k]["kinds"],
                                                                 "counts": {str(a): b for a, b in sc[k]["counts"].items()}, "ini": INI_WIDE.decode(), "stderr": err})
        nstress = 0
        for (T, c) in ([(8, 20)] if quick else [(8, 50), (32, 20), (64, 10), (64, 30)]):
            r = run_mt(run, tlib, "stress", T, c, "-", INI_WIDE, "stress-%d" % T, exe=texe, env=tenv, timeout=600)
            nstress += T * c
            for rep in tsan_reports(r["stderr"]):
                tsan_seen.setdefault(rep, ("stress %dx%d" % (T, c), r["stderr"][-1500:]))
            if r["status"] != 0:
                run.violation("stress:caller-died:%s" % r["status"], "crash", "stress run with %d threads x %d calls ended with status %s: %s" % (T, c, r["status"], r["stderr"][-300:]),
                              {"failing_input": {"mode": "stress", "threads": T, "calls": c}, "mode": "stress", "threads": T, "calls": c, "ini": INI_WIDE.decode()})
            else:
                bad = check_records(r, T, c)
                if bad:
                    run.violation("stress:" + bad[0].split(":", 1)[1], bad[1], "stress run with %d threads x %d calls: %s" % (T, c, bad[2]),
                                  {"failing_input": {"mode": "stress", "threads": T, "calls": c}, "mode": "stress", "threads": T, "calls": c, "ini": INI_WIDE.decode()})
        if len(tsan_seen) > 4:
            run.notes.append("ThreadSanitizer reported %d distinct locations; the first 4 are listed as violations: %s" % (len(tsan_seen), sorted("%s:%s" % (f, fn) for (_, f, fn) in tsan_seen)))
        for (kind, f, fn), (where, err) in sorted(tsan_seen.items(), key=lambda kv: (not isinstance(kv[1][0], int), kv[0]))[:4]:
            rep = {"tsan_report": {"kind": kind, "file": f, "function": fn}, "ini": INI_WIDE.decode(), "stderr": err}
            if isinstance(where, int):
                rep.update({"failing_input": {"threads": 2, "calls": 1, "ops": ops_w, "schedule": ",".join(map(str, sc[where]["ids"])), "tsan": True},
                            "mode": "force-tsan", "threads": 2, "calls": 1, "ops": ops_w, "schedule": sc[where]["ids"], "kinds": sc[where]["kinds"]})
            else:
                rep.update({"failing_input": {"mode": "stress", "run": where, "tsan": True}, "mode": "stress-tsan"})
            run.violation("tsan:%s:%s:%s" % (kind.replace(" ", "-"), f, fn), "sanitizer",
                          "ThreadSanitizer: %s in %s (%s) while two threads were inside wrapped exec calls" % (kind, fn, f), rep)
        stats.update({"ops": ops, "K": K, "meta": meta, "P": P, "plans": plans, "nrun": nrun, "tres": tres, "nstress": nstress, "tsan_seen": tsan_seen})
    try:
        system_level()
    except CheckError as e:
        # a tree whose proof obligations are broken may also leave the shape the harness is calibrated for: that is a verdict, not a machinery failure
        from vlib.conclevel import CalibrationMismatch
        if isinstance(e, CalibrationMismatch):
            run.violation("calibration:lock-sequence", "correspondence", str(e),
                          {"failing_input": {"mode": "trace", "threads": 1, "calls": 2, "what": "lock / unlock / once sequence of two consecutive wrapped calls of one thread"}, "mode": "trace"})
        elif ok:
            raise
        run.notes.append("system-level stage stopped on this tree: %s" % str(e)[:500])
    ops, K, meta, P, plans, nrun, tres, nstress, tsan_seen = (stats[k] for k in ("ops", "K", "meta", "P", "plans", "nrun", "tres", "nstress", "tsan_seen"))
    if not ok:
        run.notes.append("static-storage objects not classified as protected / lock objects: %s" % query_unprotected(run))
    if not ok and not new_violations(run):
        run.violation("proof:%s" % failed, "proof", "proof obligation no longer checks: %s\n%s\nobjects: %s" % (failed, log[-1500:], run.notes[-1]), {"theorem": failed, "coq_log": log[-3000:], "objects": run.notes[-1]})
    chk = coqchk_props(run, "Properties_C09") if (ok and not quick) else None
    run.coverage.update({
        "evaluations": len(dcases) + nrun + len(tres) + nstress + 3,
        "distinct_nontrivial": len(set(dcases)) + len(set((T, c, tuple(s["ids"])) for (T, c, s) in plans)) + len(tres),
        "rule": "function level: random push/remove(first, last, middle, NULL)/failed-allocation sequences of 1..80 operations on the real list.c; "
                "system level: every schedule of 2 threads x 1 call with <= %d preemptions at lock boundaries (model-enumerated), seeded samples for 2..4 threads x 1..3 calls, "
                "each executed by libsched.so and compared (sync sequence, own record, own thread id, %%{snoopy_threads}) with the model run on that schedule; "
                "TSan: one-preemption schedules at every lock boundary with all data sources + stress; distinct = distinct list cases + distinct schedules" % P,
        "samples": dcases[:2] + ([{"threads": plans[0][0], "calls": plans[0][1], "schedule": plans[0][2]["ids"][:40]}] if plans else []),
        "distribution": {"dlist_cases": len(dcases), "dlist_mismatches": len(res["mismatch"]), "accessor_calls_per_wrapped_call": len(ops), "lock_windows_per_call": K,
                         "schedules": meta, "forced_runs": nrun, "tsan_forced_runs": len(tres), "tsan_stress_calls": nstress, "tsan_reports": len(tsan_seen),
                         "globals_classified": len(facts["globals"]), "functions_in_reference_graph": facts["n_functions"], "handlers": hs, "coqchk": chk},
        "traces_validated_against_impl": nrun + len(tres) + len(dcases) - len(res["mismatch"]),
    })
    return run.finish(level="proof",
                      trusted_base=["Coq 8.16.1 kernel + vm_compute", "vlib/tr_conc.py (clang AST -> lock skeletons, static-object accesses, reference graph), nm",
                                    "extraction ExtrOcamlBasic + drv_conc.ml; impl_dlist.c; libsched.so / tool_mtcaller (schedule forcing, recorder)", "ThreadSanitizer (search only)"],
                      assumptions=["pthread recursive mutex and pthread_once behave as specified; memory ordering below the mutex is pthread's guarantee (not modelled)",
                                   "glibc's own functions are thread-safe as documented", "functions unreachable from execv/execve in the reference graph are not run concurrently with wrapped calls"])


def replay(run, path):
    rep = json.load(open(path))
    lib, facts = setup_conc(run)
    if rep.get("cases"):
        exe = build_dlist(run)
        res = corr_stream(run, AREA, exe, rep["cases"], stream="replay")
        for i, c in enumerate(rep["cases"]):
            print("case:", c[:300]); print(" model:", res["model"][i][:300]); print(" impl: ", res["impl"][i][:300])
        run.cleanup()
        return 1 if res["mismatch"] else 0
    mode = rep.get("mode", "")
    ini = rep.get("ini", INI_MAIN.decode()).encode()
    rc = 0
    if mode.startswith("force"):
        tsan = mode.endswith("tsan")
        exe = None
        if tsan:
            lib, exe = build_tsan(run)
        query_handlers_needed = os.path.join(run.scratch, "consts_%s.tsv" % AREA)
        open(query_handlers_needed, "w").write("h_prepare\t1\nh_parent\t1\nh_child\t3\n")
        out = model_lines(run, ["run\t%d\t%d\t%s\t%s" % (rep["threads"], rep["calls"], rep["ops"], ",".join(map(str, rep["schedule"])))], "replay")
        f = out[0].split("\t")[1].split("|")
        counts = {}
        for tc in (f[2].split(",") if len(f) > 2 and f[2] else []):
            t, cs = tc.split(":")
            counts[int(t)] = [int(c) for c in cs.split(".")] if cs else []
        sc = {"ids": rep["schedule"], "kinds": f[1], "counts": counts, "flags": f[3:]}
        r = run_mt(run, lib, "force", rep["threads"], rep["calls"], ",".join(map(str, rep["schedule"])), ini, "replay", exe=exe,
                   env={"TSAN_OPTIONS": "exitcode=0 report_signal_unsafe=0"} if tsan else None)
        bad = check_forced(run, r, sc, rep["threads"], rep["calls"])
        print("model:", out[0][:300])
        print("records:", [l[:120] for l in r["out"]])
        print("verdict:", bad)
        ts = tsan_reports(r["stderr"]) if tsan else []
        for t in ts:
            print("tsan:", t)
        rc = 1 if (bad or ts) else 0
    elif mode == "stress-jitter":
        bad = None
        for k in range(5):
            r = run_mt(run, lib, "stress", rep.get("threads", 6), rep.get("calls", 3), "-", ini, "replay%d" % k, timeout=300, env={"SCHED_JITTER": str(rep.get("jitter", 1))})
            bad = bad or check_records(r, rep.get("threads", 6), rep.get("calls", 3))
        print("verdict (5 runs with the same pauses):", bad)
        rc = 1 if bad else 0
    elif mode == "stress-plain":
        r = run_mt(run, lib, "stress", rep.get("threads", 48), rep.get("calls", 2), "-", ini, "replay", timeout=300)
        bad = check_records(r, rep.get("threads", 48), rep.get("calls", 2))
        print("status:", r["status"], "records:", len(r["out"]), "verdict:", bad)
        rc = 1 if (bad or r["status"] != 0) else 0
    elif mode.startswith("stress"):
        lib, exe = build_tsan(run)
        r = run_mt(run, lib, "stress", rep.get("threads", 8), rep.get("calls", 20), "-", ini, "replay", exe=exe, env={"TSAN_OPTIONS": "exitcode=0 report_signal_unsafe=0"}, timeout=600)
        ts = tsan_reports(r["stderr"])
        print("status:", r["status"], "records:", len(r["out"]), "tsan:", ts)
        rc = 1 if (ts or r["status"] != 0) else 0
    else:
        print("nothing to replay for kind %s (%s)" % (rep.get("kind"), rep.get("theorem")))
    run.cleanup()
    return rc
