"""C10 — Exec in a forked child of a multithreaded process never deadlocks.

proof:  props/Properties_C10.v over Gen_Conc.v (T2: the fork handlers src/tsrm.c registers, recognised in the lock skeletons
        regenerated from clang's AST; the lock skeleton of every tsrm function).
tie:    system level, production thread-safe libsnoopy.so from the snapshot under harness/libsched.so: for EVERY lock window k of a
        wrapped call a second thread is parked right after its k-th acquisition of the repository mutex, the main thread forks
        (the parked thread goes on only after the fork has been attempted: the prepare handler asked for the mutex, or fork()
        returned), the child execs under a 5 s alarm, per output type, children of children included; outcome (fork delayed
        or immediate, child completes or blocks, parent unaffected) compared with the model's prediction for the same window.
        Plus the fork that begins before the library's one-time initialisation (first wrapped call racing with the fork).
"""
import json, os
from vlib.core import VERIF, CheckError
from vlib.syslevel import run_many
from vlib.conclevel import run_mt, calibrate, observed_locks
from checks.c09 import RARE_INIS, setup_conc, query_handlers, load_handlers, query_unprotected, model_lines, corpus_cases, new_violations, coqchk_props, AREA

OUTPUTS = [
    ("file", b'[snoopy]\noutput = file:@D@/out.log\n'),
    ("devnull", b'[snoopy]\noutput = devnull\n'),
    ("stdout", b'[snoopy]\noutput = stdout\n'),
    ("stderr", b'[snoopy]\noutput = stderr\n'),
    ("socket", b'[snoopy]\noutput = socket:@D@/absent.sock\n'),
    ("devlog", b'[snoopy]\noutput = devlog\nsyslog_ident = "id-%{snoopy_threads}"\n'),
    ("file-threads", b'[snoopy]\noutput = file:@D@/out.log\nmessage_format = "%{snoopy_threads} %{tid} %{cmdline}"\nerror_logging = yes\n'),
]


# fork stress configurations: identity data sources (NSS lookups), and an error raised in every call with error logging on
STRESS_INIS = [
    ("identity-data-sources", 3, 150, 600,
     b'[snoopy]\noutput = file:@D@/out.log\nmessage_format = "%{username} %{eusername} %{group} %{egroup} %{tty_username} %{login} %{hostname} %{filename}"\n'),
    ("datetime", 6, 600, 12000, b'[snoopy]\noutput = devnull\nmessage_format = "%{datetime} %{filename}"\n'),
    ("datetime-epoch", 6, 800, 12000, b'[snoopy]\noutput = devnull\nmessage_format = "%{datetime:%s} %{datetime:%-s} %{datetime:%_s} %{datetime:%012s} %{datetime:%Z} %{datetime:%^Z} %{filename}"\n'),
    ("ipaddr-on-a-terminal", 6, 300, 6000, b'[snoopy]\noutput = devnull\nmessage_format = "%{ipaddr} %{tty} %{login} %{filename}"\n'),
    ("error-in-every-call", 6, 500, 3000,
     b'[snoopy]\noutput = devnull\nerror_logging = yes\nlog_message_max_length = 255\nmessage_format = "%{snoopy_literal:' + b"L" * 300 + b'}%{cmdline}"\n'),
]


def outcome(r):
    """canonical observation of one fork run"""
    o = {"fork": None, "child": None, "grandchild": None, "parent_call": False, "parked": False, "release": None, "own_prepare": None}
    for f in r["trace"]["other"]:
        if f[0] == "fork":
            o["fork"] = f[1]
        elif f[0] == "child":
            o["child"] = "completes" if f[1] == "done" else ("blocks" if f[1:] == ["signal", "14"] else "-".join(f[1:]))
        elif f[0] == "grandchild":
            o["grandchild"] = "completes" if f[1] == "done" else ("blocks" if f[1:] == ["signal", "14"] else "-".join(f[1:]))
        elif f[0] == "parked":
            o["parked"] = True
        elif f[0] == "release":
            o["release"] = f[1]
        elif f[0] == "own-prepare":
            o["own_prepare"] = f[1]
    o["parent_call"] = (0, 200, -1, 2) in r["trace"]["ret"]
    o["status"] = r["status"]
    return o


def check(run):
    lib, facts = setup_conc(run)
    query_handlers(run)
    ok, failed, log = run.coq_props(["Properties_C10.v"])
    hs = load_handlers(run)
    quick = run.tier == "quick"
    st = {"plans": [], "calib": {}, "results": [], "nwin": 0, "ro": {"child": None}}

    def system_level():
        nwin = 0
        # ---------------------------------------------------------------- lock windows per output type, model predictions
        plans = []
        calib = {}
        for (name, ini) in OUTPUTS:
            try:
                ops, _, _ = calibrate(run, lib, ini, "calib-" + name)
            except CheckError as e:
                if ok:
                    raise
                ops = ""
            # the windows are the OBSERVED acquisitions of every lock (any pthread mutex, rwlock, flock), not only the repository mutex
            locks = observed_locks(run, lib, ini, "locks-" + name)
            calib[name] = (ops, len(locks), locks)
            for k in range(1, len(locks) + 1):
                plans.append((name, ini, ops, k, 0))
                if name == "file" or not quick:
                    plans.append((name, ini, ops, k, 1))
        # corpus first: "fork <output> <window> <grandchild>"
        first = []
        inis = dict(OUTPUTS)
        for line in corpus_cases("C10", "fork\t"):
            f = line.split("\t")
            if f[1] in calib and 1 <= int(f[2]) <= calib[f[1]][1]:
                first.append((f[1], inis[f[1]], calib[f[1]][0], int(f[2]), int(f[3])))
        plans = first + [p for p in plans if p not in first]
        def repo_index(name, k):
            """k-th observed acquisition -> its index among the acquisitions of the repository mutex (the model's windows), or 0"""
            locks = calib[name][2]
            return len([1 for (kind, _) in locks[:k] if kind == "m"]) if locks[k - 1][0] == "m" else 0
        pred_idx = [i for i, (name, _, ops, k, _) in enumerate(plans) if ops and repo_index(name, k)]
        pred_out = model_lines(run, ["fork\t%s\t%d" % (plans[i][2], repo_index(plans[i][0], plans[i][3])) for i in pred_idx], "fork-pred") if (hs["known"] and pred_idx) else []
        preds = dict(zip(pred_idx, pred_out))

        def job(a):
            i, (name, ini, ops, k, g) = a
            r = run_mt(run, lib, "fork", 2, 1, "%d,%d" % (k, g), ini, "fk-%s-%d-%d" % (name, k, g), timeout=120)
            o = outcome(r)
            # outputs that go to the run's own file: the child's call must have left its record ("logs (or drops)": nothing is configured to drop)
            o["child_record"] = (len([1 for l in r["out"] if b"T0C100 " in l]) if b"out.log" in ini else None)
            o["parent_record"] = (len([1 for l in r["out"] if b"T0C200 " in l]) if b"out.log" in ini else None)
            if not os.environ.get("VERIF_KEEP"):
                import shutil
                shutil.rmtree(r["dir"], ignore_errors=True)
            return (i, o, r["stderr"][-500:])
        results = run_many(job, list(enumerate(plans)), workers=8)
        seen = set()

        def viol(sig, kind, detail, i, o, extra=None):
            if sig in seen:
                return
            seen.add(sig)
            name, ini, ops, k, g = plans[i]
            lk = calib[name][2][k - 1] if k - 1 < len(calib[name][2]) else ("?", "?")
            rep = {"failing_input": {"mode": "fork", "output": name, "lock_window": k, "lock": {"m": "repository mutex", "M": "another pthread mutex", "r": "rwlock (read)", "w": "rwlock (write)", "f": "flock"}.get(lk[0], lk[0]),
                                     "acquired_in": lk[1], "grandchild": g},
                   "mode": "fork", "output": name, "window": k, "grandchild": g, "ini": ini.decode(), "ops": ops, "observed": o, "locks_observed": ["%s@%s" % x for x in calib[name][2]]}
            if extra:
                rep.update(extra)
            run.violation(sig, kind, detail, rep)
        for (i, o, err) in results:
            name, ini, ops, k, g = plans[i]
            if not o["parked"]:
                raise CheckError("window %d of %s: the second thread never reached its %d-th acquisition (%s)" % (k, name, k, o))
            st["nwin"] += 1
            nwin = st["nwin"]
            if o["status"] != 0 or o["fork"] is None:
                viol("fork:caller-died:%s" % o["status"], "crash", "fork run (output %s, window %d) ended with status %s: %s" % (name, k, o["status"], err), i, o)
                continue
            if o["child"] != "completes":
                other = calib[name][2][k - 1][0] != "m"
                viol(("fork:child-blocked" if o["child"] == "blocks" else "fork:child-%s" % o["child"]) + (":lock-outside-the-handlers" if other else ""), "timeout" if o["child"] == "blocks" else "crash",
                     "a second thread has just made the %d-th lock acquisition of its wrapped call (%s, taken in %s; output %s); the child forked at that instant %s "
                     "(5 s alarm) in its own exec call" % (k, {"m": "the repository mutex", "M": "a pthread mutex that is NOT the repository mutex", "f": "a flock"}.get(calib[name][2][k - 1][0], "a lock"),
                                                           calib[name][2][k - 1][1], name, "never returns" if o["child"] == "blocks" else "ends with " + str(o["child"])), i, o)
            if o["child"] == "completes" and o.get("child_record") == 0:
                viol("fork:child-no-record", "spec_violation", "the child forked while a second thread was just past the %d-th lock acquisition of its wrapped call (taken in %s; output %s) "
                     "completes its exec call but leaves no record of it (state inherited from the parent that makes the child's call drop its record)" % (k, calib[name][2][k - 1][1], name), i, o)
            if o["parent_call"] and o.get("parent_record") == 0:
                viol("fork:parent-no-record", "spec_violation", "after the fork (window %d, output %s) the forking thread's next exec call leaves no record" % (k, name), i, o)
            if g and o["child"] == "completes" and o["grandchild"] != "completes":
                viol("fork:grandchild-blocked", "timeout", "the child's own child does not complete its exec call (output %s, window %d): %s" % (name, k, o["grandchild"]), i, o)
            if not o["parent_call"]:
                viol("fork:parent-affected", "spec_violation", "after the fork the parent's forking thread does not complete a further exec call (output %s, window %d)" % (name, k), i, o)
            if i in preds:
                p = preds[i].split("\t")
                want_fork, want_child, want_parent = p[1], p[2], p[3]
                if (o["fork"], o["child"]) != (want_fork, want_child) and o["child"] == "completes":
                    viol("fork:outcome-differs", "correspondence",
                         "window %d (output %s): implementation: fork %s, child %s; model with the recognised handlers: fork %s, child %s" % (k, name, o["fork"], o["child"], want_fork, want_child),
                         i, o, {"model": preds[i]})
        # ---------------------------------------------------------------- fork from a signal handler that interrupts a lock window of its own thread
        locks_file = calib["file"][2]
        repo_ks = [j + 1 for j in range(len([1 for (kind, _) in locks_file if kind == "m"]))]
        ks = repo_ks if not quick else sorted(set([repo_ks[0], repo_ks[len(repo_ks) // 2], repo_ks[-1]])) if repo_ks else []

        def sjob(k):
            r = run_mt(run, lib, "sigfork", 2, 1, str(k), OUTPUTS[0][1], "sigfork-%d" % k, timeout=60)
            o = outcome(r)
            o["signalled"] = any(f[0] == "signal" for f in r["trace"]["other"])
            o["fork_returned"] = any(f[:2] == ["fork", "returned"] for f in r["trace"]["other"])
            o["thread_done"] = (1, 0, -1, 2) in r["trace"]["ret"]
            return (k, o, r["stderr"][-300:])
        for (k, o, err) in run_many(sjob, ks, workers=8):
            if not o["signalled"]:
                raise CheckError("sigfork: the signal was never raised in lock window %d (%s)" % (k, o))
            st["sigfork"] = st.get("sigfork", 0) + 1
            if o["fork_returned"] and o["child"] == "completes" and o["thread_done"] and o["status"] == 0:
                continue
            what = ("fork() in the signal handler never returned: the prepare handler blocks on the mutex its own thread holds" if not o["fork_returned"]
                    else "the child %s" % o["child"] if o["child"] != "completes" else "the interrupted thread did not finish its call")
            if "sigfork" not in seen:
                seen.add("sigfork")
                run.violation("sigfork:%s" % ("fork-never-returned" if not o["fork_returned"] else "child-%s" % o["child"] if o["child"] != "completes" else "thread-stuck"), "timeout",
                              "a signal arrives on a thread right after the %d-th acquisition of the repository mutex in its wrapped call; its handler forks and the child execs: %s" % (k, what),
                              {"failing_input": {"mode": "sigfork", "lock_window": k, "output": "file"}, "mode": "sigfork", "window": k, "ini": OUTPUTS[0][1].decode(), "observed": o})
        # ---------------------------------------------------------------- fork stress: forks taken at arbitrary instants, also inside libc calls no interposer sees
        for (sname, nthr, fq, ft, sini) in STRESS_INIS:
            forks = fq if (quick and ok) else ft          # a broken obligation widens the search
            r = run_mt(run, lib, "forkstress", nthr, 1, str(forks), sini, "forkstress-" + sname, timeout=900, pty_stdin="terminal" in sname)
            fs = [f for f in r["trace"]["other"] if f[0] == "forkstress"]
            done = [f for f in fs if f[1] == "done"]
            bad = [f for f in fs if f[1] == "child"]
            st["forkstress"] = st.get("forkstress", 0) + (int(done[0][2]) if done else 0)
            if bad:
                run.violation("forkstress:child-%s:%s" % ("blocked" if bad[0][3:] == ["signal", "14"] else "-".join(bad[0][3:]), sname), "timeout",
                              "several threads make wrapped exec calls in a loop (%s), the main thread forks: the child of fork #%s %s in its own exec call "
                              "(state inherited from the parent that no fork handler resets, e.g. a libc-internal lock held by a thread that does not exist in the child)"
                              % (sname, bad[0][2], "never returns (5 s alarm)" if bad[0][3:] == ["signal", "14"] else "ends with " + " ".join(bad[0][3:])),
                              {"failing_input": {"mode": "forkstress", "config": sname, "threads": nthr, "forks": forks, "first_blocked_fork": int(bad[0][2])},
                               "mode": "forkstress", "config": sname, "threads": nthr, "forks": forks, "ini": sini.decode()})
            elif r["status"] != 0 or not done:
                run.violation("forkstress:caller-died:%s" % r["status"], "crash", "fork stress (%s) ended with status %s: %s" % (sname, r["status"], r["stderr"][-300:]),
                              {"failing_input": {"mode": "forkstress", "config": sname, "threads": nthr, "forks": forks}, "mode": "forkstress", "config": sname, "threads": nthr, "forks": forks, "ini": sini.decode()})
        # ---------------------------------------------------------------- forks after calls that went through a rarely taken path: fork() must return, the child must complete
        for (rname, rpty, rini) in RARE_INIS:
            r = run_mt(run, lib, "forkstress", 2, 1, "5", rini, "forkrare-" + rname[:12], timeout=120, env={"MT_ALARM": "10"}, pty_stdin=rpty)
            fs = [f for f in r["trace"]["other"] if f[0] == "forkstress"]
            stuck = r["status"] == 3 or "stuck" in [f[0] for f in r["trace"]["other"]]
            badc = [f for f in fs if f[1] == "child"]
            st["forkstress"] = st.get("forkstress", 0) + 5
            if stuck or badc or r["status"] != 0:
                run.violation("forkrare:%s:%s" % ("fork-never-returned" if stuck else "child-blocked" if badc else "caller-died-%s" % r["status"], rname), "timeout",
                              "two threads make wrapped calls that take a rarely used path (%s) while the main thread forks: %s" % (rname,
                              "fork() never returns (10 s): a thread kept the repository mutex, the prepare handler waits for it for ever" if stuck
                              else "the child of fork #%s does not complete its exec call" % badc[0][2] if badc else "status %s %s" % (r["status"], r["stderr"][-200:])),
                              {"failing_input": {"mode": "forkstress", "config": rname, "threads": 2, "forks": 5}, "mode": "forkstress", "config": "terminal " + rname if rpty else rname,
                               "threads": 2, "forks": 5, "ini": rini.decode()})
        # ---------------------------------------------------------------- the fork that begins before the one-time initialisation
        rr = run_mt(run, lib, "forkrace", 2, 1, "-", OUTPUTS[0][1], "forkrace", timeout=120)
        ro = outcome(rr)
        race_expected = "completes" if hs["preinit"] else "blocks"     # Conc/Fork.v first_call_race / preinit_always_registered
        if ro["own_prepare"] != "worker-parked" or ro["status"] != 0:
            raise CheckError("fork-race experiment did not run as scripted: %s %s" % (ro, rr["stderr"][-300:]))
        if ro["child"] != "completes":
            run.violation("fork:first-call-race:child-%s" % ("blocked" if ro["child"] == "blocks" else ro["child"]), "timeout",
                          "fork() began before the library's one-time initialisation (no handler registered yet); meanwhile another thread made the process's first exec call "
                          "and holds the repository mutex: the child never returns from its own exec call (model: Conc/Fork.v first_call_race)",
                          {"failing_input": {"mode": "forkrace", "output": "file"}, "mode": "forkrace", "ini": OUTPUTS[0][1].decode(), "observed": ro, "model_expected": race_expected})
        elif race_expected != "completes":
            run.notes.append("fork-race experiment: child completed although the model (no load-time initialisation) predicts a blocked child")
        st.update({"plans": plans, "calib": calib, "results": results, "nwin": nwin, "ro": ro})
    try:
        system_level()
    except CheckError as e:
        # a tree whose proof obligations are broken may also leave the shape the harness is calibrated for: that is a verdict, not a machinery failure
        from vlib.conclevel import CalibrationMismatch
        if isinstance(e, CalibrationMismatch):
            run.violation("calibration:lock-sequence", "correspondence", str(e),
                          {"failing_input": {"mode": "trace", "threads": 1, "calls": 2, "what": "lock / unlock / once sequence of two consecutive wrapped calls of one thread"}, "mode": "trace"})
        elif ok:
            raise
        run.notes.append("system-level stage stopped on this tree: %s" % str(e)[:500])
    plans, calib, results, nwin, ro = st["plans"], st["calib"], st["results"], st["nwin"], st["ro"]
    if not ok:
        run.notes.append("static-storage objects not classified as protected / lock objects: %s" % query_unprotected(run))
    if not ok and not new_violations(run):
        run.violation("proof:%s" % failed, "proof", "proof obligation no longer checks: %s\n%s" % (failed, log[-1500:]), {"theorem": failed, "coq_log": log[-3000:]})
    chk = coqchk_props(run, "Properties_C10") if (ok and not quick) else None
    run.coverage.update({
        "evaluations": len(results) + 1 + st.get("sigfork", 0) + st.get("forkstress", 0),
        "distinct_nontrivial": len(set((n, k, g) for (n, _, _, k, g) in plans)) + 1,
        "rule": "every lock acquisition OBSERVED in a wrapped call (any pthread mutex, rwlock, flock; from a traced run: %s) x output types %s; children of children for %s; a second thread parked right after its k-th acquisition, "
                "fork attempted, the parked thread released only after the prepare handler asked for the mutex or fork() returned; child's exec under a 5 s alarm; "
                "outcome compared with the model's fork experiment for the same window; plus one fork that begins before the one-time initialisation; distinct = (output, window, grandchild) triples"
                % ({n: v[1] for n, v in calib.items()}, [n for n, _ in OUTPUTS], "output file" if quick else "every output"),
        "samples": [{"output": plans[0][0], "window": plans[0][3], "observed": results[0][1]}] if results else [],
        "distribution": {"windows_run": nwin, "lock_windows": {n: v[1] for n, v in calib.items()}, "other_locks": {n: [x for x in v[2] if x[0] != "m"] for n, v in calib.items()}, "handlers": hs,
                         "fork_delayed": len([1 for (_, o, _) in results if o["fork"] == "delayed"]), "fork_immediate": len([1 for (_, o, _) in results if o["fork"] == "immediate"]),
                         "child_completes": len([1 for (_, o, _) in results if o["child"] == "completes"]), "first_call_race_child": ro["child"], "sigfork_windows": st.get("sigfork", 0), "forkstress_forks": st.get("forkstress", 0), "coqchk": chk},
        "traces_validated_against_impl": len(results) + 1,
    })
    return run.finish(level="proof",
                      trusted_base=["Coq 8.16.1 kernel + vm_compute", "vlib/tr_conc.py (clang AST -> lock skeletons and handler bodies)",
                                    "extraction ExtrOcamlBasic + drv_conc.ml; libsched.so / tool_mtcaller (parking, fork, alarm)"],
                      assumptions=["fork() copies the address space with the forking thread only; glibc runs exactly the atfork handlers registered when fork() began",
                                   "an unlock of a recursive mutex by a thread that is not its owner fails with EPERM (glibc)", "pthread_mutex_init on the inherited mutex in the single-threaded child is permitted (glibc)"])


def replay(run, path):
    rep = json.load(open(path))
    lib, facts = setup_conc(run)
    rc = 0
    if rep.get("mode") == "fork":
        r = run_mt(run, lib, "fork", 2, 1, "%d,%d" % (rep["window"], rep.get("grandchild", 0)), rep["ini"].encode(), "replay", timeout=120)
        o = outcome(r)
        print("observed:", o)
        rc = 0 if (o["child"] == "completes" and o["parent_call"] and (not rep.get("grandchild") or o["grandchild"] == "completes")) else 1
    elif rep.get("mode") == "sigfork":
        r = run_mt(run, lib, "sigfork", 2, 1, str(rep["window"]), rep["ini"].encode(), "replay", timeout=60)
        o = outcome(r)
        ret = any(f[:2] == ["fork", "returned"] for f in r["trace"]["other"])
        print("observed:", o, "fork returned:", ret)
        rc = 0 if (ret and o["child"] == "completes") else 1
    elif rep.get("mode") == "forkstress":
        r = run_mt(run, lib, "forkstress", rep.get("threads", 3), 1, str(rep.get("forks", 60)), rep["ini"].encode(), "replay", timeout=900, pty_stdin="terminal" in rep.get("config", ""))
        fs = [f for f in r["trace"]["other"] if f[0] == "forkstress"]
        print("observed:", fs)
        rc = 1 if [f for f in fs if f[1] == "child"] else 0
    elif rep.get("mode") == "forkrace":
        r = run_mt(run, lib, "forkrace", 2, 1, "-", rep["ini"].encode(), "replay", timeout=120)
        o = outcome(r)
        print("observed:", o)
        rc = 0 if o["child"] == "completes" else 1
    else:
        print("nothing to replay for kind %s (%s)" % (rep.get("kind"), rep.get("theorem")))
    run.cleanup()
    return rc
