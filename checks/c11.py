"""C11 — Each call sees only the current configuration, nothing carried over.

proof:  props/Properties_C11.v over Gen_CfgLife.v (T2: clang-AST skeletons of the configuration ctor/dtor/setDefaults/get in the
        thread-safe AND the non-thread-safe configuration, of every value parser of the option registry, of tsrm's thread-record
        functions): C11_history_free (effective configuration of call k = parse defaults file_k, all histories, both variants),
        C11_no_double_free, C11_no_growth (the skeletons are RUN by the collecting semantics of Lib/ResFlow.v over the whole
        reachable ownership state space).
tie:    system level: histories of 2..30 calls in ONE process through the production wrapper built both ways, the configuration
        file rewritten / emptied / removed / made unreadable (injected fopen failure) / corrupted between calls; record AND
        destination of call k (every sink the harness owns, sampled at exec entry and after return) compared with the same call made
        first in a fresh process; liballoc accounting: no live block allocated from a library call site at exec entry / after return,
        periodic long histories do not grow, no double free.
"""
import json, os, glob
from concurrent.futures import ThreadPoolExecutor
from vlib.core import hexs, hexlist, unhex, VERIF, CheckError
from vlib.tr_life import tr_cfglife
from vlib.syslevel import per_call, call_line, run_many
from vlib.lifelib import build_both, run_life, phases, addr2line, gen_config, coq_query, SINKS, ENVLINE, OPTION_NAMES

PHASES = ("at-exec", "after", "after-flush")


def mk_call(rng, k):
    path = b"/bin/prog%d" % rng.randrange(3)
    argv = [b"prog", b"arg%d" % k] + ([b"x" * rng.choice([10, 300, 3000])] if rng.random() < 0.3 else [])
    return (rng.choice(["execve", "execv"]), path, argv, [b"K=%d" % k])


def mk_history(rng, n, periodic=0):
    steps = []
    base = []
    for k in range(n):
        if periodic and k >= periodic:
            ini, label, unread = base[k % periodic]
        else:
            force = None
            r = rng.random()
            if r < 0.35:
                force = rng.sample(OPTION_NAMES, rng.choice([1, 2, 4]))      # make sure every option is set in some call ...
            ini, label = gen_config(rng, volatile=False, force=force)
            unread = ini is not None and rng.random() < 0.06
            if force is None and not unread and rng.random() < 0.05:
                ini, label = None, "directory"
            base.append((ini, label, unread))
        steps.append({"ini": hexs(ini), "label": label + ("+unreadable" if unread else ""), "unreadable": unread, "dir": label == "directory", "call": list(mk_call(rng, k))})
    return steps


def step_call_line(st):
    api, path, argv, envp = st["call"]
    return call_line(api, path, argv, envp, 0, -1, 2)


def script_of(steps):
    """the configuration path is rewritten / removed / replaced by a DIRECTORY (pre-made adir<k> of the run directory renamed onto it) between calls"""
    lines = list(SINKS) + [ENVLINE]
    unread = []
    isdir = False
    for k, st in enumerate(steps):
        if isdir:
            lines.append("rename\t@D@/snoopy.ini\t@D@/wasdir%d" % k)
            isdir = False
        if st.get("dir"):
            lines += ["ini\t~", "rename\t@D@/adir%d\t@D@/snoopy.ini" % k]
            isdir = True
        else:
            lines.append("ini\t" + st["ini"])
        if k >= 1:
            lines.append("errno\t%d" % st.get("errno", 2))   # the previous exec failed (ENOENT; EINTR: an interrupted call before) and nobody cleared errno since; a fresh process starts with 0
        lines.append(step_call_line(st))
        if st.get("unreadable"):
            unread.append(k)
    fault = "fopen:1:13:%s" % ",".join(map(str, unread)) if unread else None
    return lines, fault


def premake_dirs(run, tag, steps):
    d = os.path.join(run.scratch, "sys-" + tag)
    for k, st in enumerate(steps):
        if st.get("dir"):
            os.makedirs(os.path.join(d, "adir%d" % k), exist_ok=True)


def canon(data_hex, rundir, pid):
    if data_hex in ("-", "~", "TRUNCATED"):
        return data_hex
    b = bytes.fromhex(data_hex)
    b = b.replace(rundir.encode(), b"@D@")
    if pid:
        b = b.replace(b"[%s]:" % pid.encode(), b"[PID]:")
    return b.hex()


def observations(r):
    """per call: tuple of (phase, sink, canonical bytes) for every non-empty sink sample"""
    pcs = per_call(r["records"])
    out = {}
    for k, c in pcs.items():
        pid = c["real"][0][7] if c["real"] and len(c["real"][0]) > 7 else None
        obs = []
        for ph in PHASES:
            for (nm, h) in c["sinks"].get(ph, []):
                if h not in ("-", "~"):
                    obs.append((ph, nm, canon(h, r["dir"], pid)))
        out[k] = (tuple(obs), len(c["real"]), tuple(c["ret"][2:5]) if c["ret"] else None)
    return out


def lib_of(libs, variant):
    """variant: ts | nts | ts-prod | nts-prod (…-prod: compiled-in configuration path, production branch of the ctor)"""
    return libs[variant.split("-")[0]]


def is_prod(variant):
    return variant.endswith("-prod")


def run_history(run, libs, variant, steps, tag):
    script, fault = script_of(steps)
    premake_dirs(run, tag, steps)
    r = run_life(run, lib_of(libs, variant), script, tag, fault=fault, timeout=25 if any(st.get("errno", 2) != 2 for st in steps) else 180, prod=is_prod(variant))
    return r, script, fault


def fresh_ref(run, libs, variant, st, tag):
    script, fault = script_of([st])
    premake_dirs(run, tag, [st])
    r = run_life(run, lib_of(libs, variant), script, tag, fault=fault, timeout=60, prod=is_prod(variant))
    ob = observations(r)
    return (ob.get(0), r["status"])


def describe(obs):
    if obs is None:
        return "no record of the call"
    return "; ".join("%s@%s=%s" % (nm, ph, bytes.fromhex(h)[:120].decode("latin-1") if h not in ("TRUNCATED",) else h) for (ph, nm, h) in obs[0]) or "(nothing written anywhere)"


class Refs:
    def __init__(self, run, libs):
        self.run, self.libs, self.cache, self.n = run, libs, {}, 0

    def key(self, variant, st):
        return (variant, st["ini"], bool(st.get("unreadable")), bool(st.get("dir")), json.dumps(st["call"], default=lambda b: b.hex() if isinstance(b, bytes) else b))

    def fill(self, wanted):
        todo, seen = [], set()
        for (variant, st) in wanted:
            k = self.key(variant, st)
            if k not in self.cache and k not in seen:
                seen.add(k)
                todo.append((k, variant, st))

        base = self.n
        self.n += len(todo)

        def job(t):
            i, (k, variant, st) = t
            return k, fresh_ref(self.run, self.libs, variant, st, "c11-ref-%d" % (base + i))
        for k, v in run_many(job, list(enumerate(todo)), workers=10):
            self.cache[k] = v

    def get(self, variant, st):
        k = self.key(variant, st)
        if k not in self.cache:
            self.fill([(variant, st)])
        return self.cache[k]


def norm_step(st):
    """steps carry bytes in 'call'; make them JSON-able and back"""
    api, path, argv, envp = st["call"]
    conv = lambda x: x.hex() if isinstance(x, bytes) else x
    return {"ini": st["ini"], "label": st.get("label", ""), "unreadable": bool(st.get("unreadable")), "dir": bool(st.get("dir")), "errno": st.get("errno", 2),
            "call": [api, conv(path), [conv(a) for a in argv] if argv is not None else None, [conv(a) for a in envp] if envp is not None else None]}


def denorm_step(st):
    api, path, argv, envp = st["call"]
    conv = lambda x: bytes.fromhex(x) if isinstance(x, str) else x
    return {"ini": st["ini"], "label": st.get("label", ""), "unreadable": bool(st.get("unreadable")), "dir": bool(st.get("dir")), "errno": st.get("errno", 2),
            "call": [api, conv(path), [conv(a) for a in argv] if argv is not None else None, [conv(a) for a in envp] if envp is not None else None]}


def check_history(run, libs, refs, variant, steps, tag, periodic=0):
    """-> list of findings (sig, kind, detail, replay dict); also counters"""
    r, script, fault = run_history(run, libs, variant, steps, tag)
    finds = []
    base = {"variant": variant, "steps": [norm_step(s) for s in steps], "script": script, "fault": fault}
    calls, errs, faults, _ = phases(r["records"])
    if r["status"] != 0:
        finds.append(("hist:caller-died:%s" % variant, "crash", "the calling process ended with status %s during a history of %d calls (%s build): %s"
                      % (r["status"], len(steps), variant, r["stderr"][-300:]), dict(base, failing_input={"variant": variant, "history": [s["label"] for s in steps]})))
        return finds, 0
    for (kind, site) in errs:
        finds.append(("hist:%s:%s" % (kind, variant), "spec_violation", "%s at %s during a history of %d calls (%s build)" % (kind, addr2line(lib_of(libs, variant), site), len(steps), variant),
                      dict(base, failing_input={"variant": variant, "history": [s["label"] for s in steps], "site": addr2line(lib_of(libs, variant), site)})))
    obs = observations(r)
    refs.fill([(variant, st) for st in steps])
    ncmp = 0
    for k, st in enumerate(steps):
        want, wstatus = refs.get(variant, st)
        got = obs.get(k)
        ncmp += 1
        if got != want:
            finds.append(("hist:record-differs:%s" % variant, "spec_violation",
                          "call %d of a history of %d calls (%s build) does not log what the same call logs as the first call of a fresh process: in the history: %s -- fresh process: %s"
                          % (k, len(steps), variant, describe(got)[:400], describe(want)[:400]),
                          dict(base, call_index=k, failing_input={"variant": variant, "call_index": k, "history_configs": [unhex(s["ini"]).decode("latin-1") if s["ini"] != "~" else None for s in steps[:k + 1]]})))
            break
    # accounting: nothing allocated from a library call site may be live at exec entry or after return
    for k in sorted(calls):
        for ph in ("at-exec", "after"):
            e = calls[k].get(ph)
            if e and e.get("lib"):
                site, (cnt, byt) = sorted(e["lib"].items(), key=lambda kv: -kv[1][0])[0]
                finds.append(("hist:growth:%s" % variant, "spec_violation",
                              "%d block(s) (%d bytes) allocated at %s are still live %s of call %d (%s build, history of %d calls)"
                              % (cnt, byt, addr2line(lib_of(libs, variant), site), "at exec entry" if ph == "at-exec" else "after return", k, variant, len(steps)),
                              dict(base, call_index=k, failing_input={"variant": variant, "call_index": k, "site": addr2line(lib_of(libs, variant), site),
                                                                      "history_configs": [unhex(s["ini"]).decode("latin-1") if s["ini"] != "~" else None for s in steps[:k + 1]]})))
                break
        else:
            continue
        break
    if periodic and len(steps) >= 4 * periodic:
        def tot(k):
            e = calls.get(k, {}).get("after")
            return None if not e else sum(c for o, (c, _) in e["other"].items() if "tool_caller" not in o) + sum(c for _, (c, _) in e["lib"].items())
        a, b = tot(len(steps) - 1 - periodic), tot(len(steps) - 1)
        if a is not None and b is not None and b > a:
            finds.append(("hist:growth-long:%s" % variant, "spec_violation", "live blocks outside the caller grow over a periodic history: %d after call %d, %d after call %d"
                          % (a, len(steps) - 1 - periodic, b, len(steps) - 1), dict(base, failing_input={"variant": variant, "history": [s["label"] for s in steps]})))
    return finds, ncmp


def shrink(run, libs, refs, variant, steps, k):
    """smallest history (pair, else prefix) in which the last call still differs from the fresh process"""
    for j in range(k):
        cand = [steps[j], steps[k]]
        f, _ = check_history(run, libs, refs, variant, cand, "c11-shr-%d-%d" % (j, k))
        if any(x[0].startswith("hist:record-differs") for x in f):
            return cand
    return steps[:k + 1]


def corpus_histories():
    out = []
    for p in sorted(glob.glob(os.path.join(VERIF, "corpus", "C11", "*.json"))):
        d = json.load(open(p))
        out.append((os.path.basename(p), d.get("variants", ["ts", "nts", "ts-prod", "nts-prod"]), [denorm_step(s) for s in d["steps"]]))
    return out


def check(run):
    run.snapshot()
    info = tr_cfglife(run)
    from vlib import sysmodel
    sysmodel.translate_all(run)
    with ThreadPoolExecutor(2) as ex:
        fp = ex.submit(run.coq_props, ["Properties_C11.v", "Properties_C11sys.v"])
        fb = ex.submit(build_both, run)
        libs = fb.result()
        ok, failed, log = fp.result()
    rng = run.rng
    refs = Refs(run, libs)
    jobs = []
    for name, variants, steps in corpus_histories():
        for v in variants:
            jobs.append((v, steps, "corpus-" + name, 0))
    lens = [2, 2, 2, 3, 3, 4, 5, 6, 8, 9, 10, 12, 15, 20, 30] * 3 if run.tier == "quick" else [2, 3, 4, 5, 8, 12, 20, 30] * 120
    for i, n in enumerate(lens):
        steps = mk_history(rng, n)
        for v in ("ts", "nts"):
            jobs.append((v, steps, "gen-%d" % i, 0))
        if i % 3 == 0:        # the same history through the production branch of the ctor (compiled-in path instead of the test library's hook)
            jobs.append((("ts-prod", "nts-prod")[(i // 3) % 2], steps, "gen-%d" % i, 0))
    # long periodic histories: 30 calls cycling through 3 configurations (growth over long sequences)
    for i in range(3 if run.tier == "quick" else 40):
        steps = mk_history(rng, 30, periodic=3)
        for v in ("ts", "nts"):
            jobs.append((v, steps, "long-%d" % i, 3))

    refs.fill([(v, st) for (v, steps, _, _) in jobs for st in steps])     # all fresh-process references first (one process each)

    def job(a):
        idx, (v, steps, tag, per) = a
        return (v, steps, tag) + check_history(run, libs, refs, v, steps, "c11-%d-%s" % (idx, v), periodic=per)
    results = run_many(job, list(enumerate(jobs)), workers=6)
    ncmp, nhist = 0, 0
    labels = set()
    seen_sig = set()
    for (v, steps, tag, finds, n) in results:
        ncmp += n
        nhist += 1
        for s in steps:
            labels.add((v, s["label"], s["ini"][:64]))
        for (sig, kind, detail, rep) in finds:
            if sig in seen_sig:
                continue
            seen_sig.add(sig)
            if sig.startswith("hist:record-differs") and "call_index" in rep and len(steps) > 2:
                small = shrink(run, libs, refs, v, steps, rep["call_index"])
                script, fault = script_of(small)
                rep = dict(rep, steps=[norm_step(s) for s in small], script=script, fault=fault, call_index=len(small) - 1,
                           failing_input={"variant": v, "call_index": len(small) - 1,
                                          "history_configs": [unhex(s["ini"]).decode("latin-1") if s["ini"] != "~" else None for s in small]})
            run.violation(sig, kind, detail + " [%s]" % tag, rep)
    # ---- model-based histories: the composed model (System/Compose.v) predicts call k from the file in place at call k ALONE;
    #      the file is rewritten between the calls of one process; both builds
    nsys = 0
    try:
        sexe = sysmodel.build_model(run)
        for v in ("ts", "nts"):
            n1, _ = sysmodel.whole_run_stream(run, libs[v], sexe, 8 if run.tier == "quick" else 120, 6, run.violation, tag="c11m-" + v, rewrite=True, sigprefix="model-hist:" + v)
            nsys += n1
    except CheckError as e:
        run.notes.append("model-based history stream not run: %s" % str(e)[:300])
    if not ok:
        diag = coq_query(run, "Diag_C11",
                         "From Coq Require Import String List Bool.\nFrom Snoopy Require Import Lib.Skel Lib.ResFlow CfgLife.Model.\nFrom Gen Require Import Gen_CfgLife.\nOpen Scope string_scope.\n"
                         "Eval vm_compute in (\"fields not defaulted\", filter (fun f => negb (str_in f (vf_assigned gen))) (g_fields gen), \"defaults pure\", vf_defaults_pure gen, \"dtor ends with setDefaults\", vf_dtor_defaults gen, "
                         "\"get() defaults (ts, nts)\", vf_get_inits gen TS, vf_get_inits gen NTS, \"ctor re-reads the file\", vf_ctor_reparses gen, \"ts record fresh\", vf_ts_fresh gen, \"nts life\", vf_nts_life gen, "
                         "\"writers\", vf_writers_ok gen, \"ownership closed and clean (ts, nts)\", own_ok gen TS, own_ok gen NTS).\n")
        run.notes.append("diagnosis of the broken obligation: " + diag[:1500])
    if not ok and not run.violations:
        run.violation("proof:%s" % failed, "proof", "proof obligation no longer checks: %s\n%s\n%s" % (failed, diag[:1500], log[-800:]), {"theorem": failed, "diagnosis": diag[:3000], "coq_log": log[-3000:]})
    elif not ok:
        run.notes.append("proof obligation broken as well: %s" % failed)
    run.coverage.update({
        "evaluations": ncmp, "distinct_nontrivial": len(labels),
        "rule": "histories of 2..30 calls in one process, thread-safe and non-thread-safe production builds, through the test hook for the configuration path AND (a third of them) through the compiled-in path "
                "(production branch of the ctor; fopen of that path redirected by libfaultlite); every call after the first finds errno as the previous failed exec left it; between calls the configuration file is rewritten with generated "
                "contents covering every option of the registry (strings, booleans, syslog facility/level/ident, both length limits, every output with and without argument), "
                "invalid values, duplicates, foreign sections, corrupted lines, binary garbage, emptied, removed, unreadable (injected fopen failure); every call compared (all sinks, "
                "exec entry and after return) with the same call made first in a fresh process; liballoc: no live library-allocated block at exec entry/after return, "
                "no growth over periodic 30-call histories, no double free; distinct = distinct (build, configuration) pairs exercised",
        "samples": [{"variant": v, "configs": [unhex(s["ini"]).decode("latin-1")[:200] if s["ini"] != "~" else None for s in steps[:3]]} for (v, steps, tag, _, _) in results[:2]],
        "distribution": {"histories": nhist, "calls_compared": ncmp, "fresh_process_references": refs.n, "model_predicted_history_calls": nsys, "options": info["options"], "record_fields": len(info["fields"]),
                         "config_kinds": sorted(set(l for (_, l, _) in labels))},
        "traces_validated_against_impl": ncmp,
    })
    return run.finish(level="proof",
                      trusted_base=["Coq 8.16.1 kernel + vm_compute (reachability over the generated skeletons)", "vlib/tr_life.py + vlib/skel.py (clang -ast-dump=json -> skeleton terms; thread-safety switched off by a shadow config.h)",
                                    "harness: tool_caller.c, librecorder.c, liballoc.c, libfaultlite.c"],
                      assumptions=["the INI layer hands the callback a list of (option, value) pairs and the settings it produces depend on the record's fields only (hypothesis of C11_history_free; the INI model is C08's)",
                                   "heap allocation does not fail (memory exhaustion is outside the domain); callees classified neutral reach no allocation/release function (complete raw-AST call lists)"])


def replay(run, path):
    rep = json.load(open(path))
    run.snapshot()
    libs = build_both(run)
    steps = [denorm_step(s) for s in rep.get("steps", [])]
    if not steps:
        print("replay file has no history (proof-only violation): re-run ./check C11 quick")
        run.cleanup()
        return 1
    v = rep.get("variant", "nts")
    refs = Refs(run, libs)
    finds, n = check_history(run, libs, refs, v, steps, "replay")
    for k, st in enumerate(steps):
        print("call %d config: %r" % (k, unhex(st["ini"]).decode("latin-1") if st["ini"] != "~" else None))
    for (sig, kind, detail, _) in finds:
        print("VIOLATION-DETAIL", sig, detail[:1000])
    run.cleanup()
    return 1 if finds else 0
