"""C12 — identity and environment data sources report the process's true state.

proof:  coq/props/Properties_C12.v over Gen_Ds.v (vlib/tr_ds.py: clang AST of every data source bound in the
        registry -> queries + formats as decision trees; T1 constants of env_all / cgroup / rpname / datetime) and Gen_Cmdline.v:
        C12_table (eval_ds Gen name st = documented name st for every process state and every name of the simple class),
        independence lemmas, env_all / cgroup / rpname theorems.
tie:    harness/impl_dstruth.c (root) constructs process states in child processes, measures them independently of the
        libc wrappers the data sources use, runs every data source of the snapshot build (ASan+UBSan) through the registry
        with several result-buffer sizes; the extracted model (expected table = Gen table by gen_ok) is evaluated on the
        MEASURED state and compared; the documented table is evaluated as spec on the same state.
partial: the truth of the measured state is the harness's; domain / ipaddr / systemd_unit_name are compared with a
        reference written in this file (no Coq model).
"""
import json, os, re, socket, struct
from vlib.core import hexs, unhex, hexlist, VERIF, CheckError
from vlib.translate import tr_expand
from vlib.tr_ds import tr_ds

AREA = "dstruth"
TABLE = ["uid", "euid", "gid", "egid", "pid", "ppid", "sid", "tid", "tid_kernel", "username", "eusername", "group", "egroup", "cwd", "hostname",
         "env", "tty", "tty_uid", "tty_username", "login", "timestamp", "timestamp_ms", "timestamp_us", "snoopy_version",
         "snoopy_configure_command", "snoopy_literal", "filename", "datetime"]
OWN_MODEL = ["env_all", "cmdline", "cgroup", "rpname"]
CORR_ONLY = ["domain", "ipaddr", "systemd_unit_name"]
NEITHER = ["snoopy_threads", "failure", "noop"]
DEFAULT_FMT = b"%FT%T%z"
# kernel names of root ancestors, including leading / trailing blanks and tabs, only blanks, blank + colon (reported verbatim)
ROOT_NAMES = [b"rootA", b"with space", b"par) (en", b"fifteen_chars_x", b"\xc5\xbe", b" lead", b"trail ", b"\tx", b"x\t", b"   ", b" :", b" my daemon ", b"\t \t", b": "]

UID_WITH = [0, 1, 2, 33, 1000, 65534]
UID_WITHOUT = [1001, 1002, 1003, 54321, 2147483647, 2147483648, 2147483653, 4294967294]
GID_WITH = [0, 1, 5, 100, 1000, 65534]
GID_WITHOUT = [2001, 2002, 2003, 2147483648, 4294967294]
TZS = [b"UTC", b"Europe/Ljubljana", b"America/New_York", b"Asia/Kolkata", b"<+0545>-5:45", b"Pacific/Chatham"]
CONVS = ["%Y", "%m", "%d", "%H", "%M", "%S", "%z", "%Z", "%F", "%T", "%a", "%A", "%b", "%B", "%c", "%D", "%e", "%j", "%n", "%t", "%%", "%s", "%u",
         "%w", "%y", "%G", "%g", "%V", "%p", "%r", "%R", "%x", "%X", "%C", "%h", "%I", "%k", "%l", "%Ey", "%Od", "%5Y", "%_d", "%-m", "%^a", "%10A"]


def dec_list(l):
    return hexlist([str(x).encode() for x in l])


def gen_fmt(rng):
    r = rng.random()
    if r < 0.1:
        return b"%A %B " * rng.choice([3, 6])                 # longer than the 80-byte buffer
    parts = []
    for _ in range(rng.choice([1, 2, 3, 5, 8])):
        parts.append(rng.choice(CONVS).encode() if rng.random() < 0.75 else rng.choice([b"-", b" ", b"T", b"log.", b":", b"/", b"\xc5\xa1", b"%%"]))
    f = b"".join(parts)
    return f if f else b"%Y"


def gen_env(rng):
    r = rng.random()
    if r < 0.08:
        return None
    if r < 0.16:
        return []
    pool = [b"NL=line1\nline2\r", b"CR=\ra\n", b"A=1", b"AB=2", b"A=", b"=x", b"A==b", b"noequals", b"A=3", b"B=two words", b"C=a,b,c", b"D=\xff\xfe\x01", b"EMPTY=", b"LONGNAME_" + b"n" * 40 + b"=v",
            b"", b"=", b"==", b"A"]
    env = [rng.choice(pool) for _ in range(rng.choice([1, 2, 3, 5, 9]))]
    if rng.random() < 0.5:
        rng.shuffle(env)
    r = rng.random()
    if r < 0.15:
        env += [b"V%03d=" % i + b"x" * rng.choice([1, 30, 120]) for i in range(rng.choice([50, 300]))]      # huge
    elif r < 0.25:
        env.insert(rng.randrange(len(env) + 1), b"BIG=" + b"y" * rng.choice([250, 252, 253, 2041, 5000]))
    for nm in (b"SUDO_USER", b"LOGNAME"):
        r = rng.random()
        if r < 0.35:
            env.insert(rng.randrange(len(env) + 1), nm + b"=" + rng.choice([b"alice", b"", b"bob smith", b"u" * 253, b"u" * 254, b"u" * 255, b"u" * 300]))
    return env


def env_names(env):
    names = [b"A", b"AB", b"", b"A=", b"NOPE", b"noequals", b"LOGNAME", b"EMPTY", b"=x", b"B", b"D", b"BIG", b"NL", b"CR"]
    return names


def gen_cgtext(rng):
    lines = []
    ids = list(range(0, 13))
    rng.shuffle(ids)
    ctl = ["cpu", "cpuacct", "cpu,cpuacct", "memory", "name=systemd", "pids", "", "net_cls,net_prio", "cpuset", "devices", "freezer", "blkio", "cpu,"]
    for k in ids[:rng.choice([1, 3, 6, 12])]:
        c = rng.choice(ctl)
        if c == "name=systemd":
            path = rng.choice(["/", "/init.scope", "/system.slice/dbus.service", "/system.slice/cron.service.d", "/system.slice/a.b.service",
                               "/user.slice/user-%d.slice/session-3.scope" % rng.choice([0, 33, 1000, 1001, 54321, 2147483653]), "/weird", "/user.slice/nouser", "/user.slice/user-x"])
        else:
            path = rng.choice(["/", "/a/b", "/docker/" + "f" * 64, "/x:y"])
        lines.append("%d:%s:%s" % (k, c, path))
    r = rng.random()
    if r < 0.15:
        lines.insert(rng.randrange(len(lines) + 1), "garbage without colon")
    elif r < 0.3:
        lines.insert(rng.randrange(len(lines) + 1), "")
    elif r < 0.4:
        lines.insert(rng.randrange(len(lines) + 1), "x1:cpu:/notfirst")
    text = "\n".join(lines)
    if rng.random() < 0.85:
        text += "\n"
    return text.encode()


def gen_procfake(rng):
    """a generated /proc tree: SELF -> ... -> root ancestor (PPid 1 or 0) with odd names / malformed files"""
    depth = rng.choice([1, 2, 3, 5, 9])
    pids = ["SELF"] + [str(rng.randrange(2, 4000000)) for _ in range(depth - 1)]
    names = [rng.choice(["bash", "sshd", "a b", "x)y(z", "n" * 15, "systemd", "ž", "q:r", "tab\\tname", " lead", "trail ", "\tx", "x\t", "   ", " :", " my daemon ", "\t \t", ""]) for _ in range(depth)]
    end = rng.choice(["1", "1", "0"])
    out = []
    broken = rng.random()
    for i, p in enumerate(pids):
        pp = pids[i + 1] if i + 1 < depth else end
        txt = "Name:\t%s\nUmask:\t0022\nState:\tS (sleeping)\nTgid:\t7\nNgid:\t0\nPid:\t7\nPPid:\t%s\nTracerPid:\t0\nUid:\t0\t0\t0\t0\nGroups:\t \n" % (names[i], pp)
        if i == depth - 1 and broken < 0.12:
            txt = "Name:\t%s\nno colon here\nPPid:\t%s\n" % (names[i], pp)        # malformed: search stops
        elif i == depth - 1 and broken < 0.2:
            txt = "Name:\t%s\nPid:\t7\n" % names[i]                               # no PPid at all
        elif i == depth - 1 and broken < 0.28:
            txt = "Name:\t%s\nPPid:\t%s\n" % ("L" * 300, pp)                       # value longer than NAME_MAX
        if not (i == depth - 2 and 0.28 <= broken < 0.36):
            out.append("%s:%s" % (p, hexs(txt.encode())))                          # else: the file of an ancestor is missing
        elif i + 1 < depth:
            pass
    return ",".join(out)


def gen_state(rng, k, tier):
    """one state recipe (a dict of key -> value text)"""
    s = {}
    r = rng.random()
    if r < 0.15:
        pass    # root, all equal
    else:
        pool_u = UID_WITH + UID_WITHOUT
        pool_g = GID_WITH + GID_WITHOUT
        if rng.random() < 0.7:
            us = rng.sample(pool_u, 3)
            gs = rng.sample(pool_g, 3)
        else:
            u, g = rng.choice(pool_u), rng.choice(pool_g)
            us, gs = [u, u, u], [g, g, g]
        s["uids"] = ",".join(map(str, us))
        s["gids"] = ",".join(map(str, gs))
    s["sess"] = rng.choice(["keep", "setsid", "pgrp", "inplace"])
    if rng.random() < 0.5:
        s["pre"] = "1"
    if rng.random() < 0.4:
        s["post"] = rng.choice(["fork", "vfork"])
    s["cwd"] = rng.choice(["keep", "root", "deep:3", "deep:40", "long:3700", "long:4400", "renamed", "deleted", "symlink", "symlink",
                           "dir:" + hexs(rng.choice([b"with space", b"\xc4\x8d\xc5\xa1", b"new\nline", b"tab\there", b"(deleted)", b"x" * 255]))])
    s["stdin"] = rng.choice(["keep", "pipe", "closed", "null", "file"] + ["pty:%d" % rng.choice(UID_WITH + UID_WITHOUT)] * 5)
    if rng.random() < 0.5:
        s["stdout"] = "pty:%d" % rng.choice(UID_WITH + UID_WITHOUT)
    if s["stdin"].startswith("pty:") and rng.random() < 0.6:
        s["utmp"] = rng.choice(["c0a80a07" + "00" * 12, "0a000001" + "00" * 12, "00" * 16, "20010db8" + "00" * 8 + "00000001", "fe80" + "00" * 6 + "0102030405060708",
                                "00000000" + "0000ffff" + "00" * 8, "7f000001" + "00" * 4 + "00000001" + "00" * 4])
    env = gen_env(rng)
    if env is not None and env != [] and rng.random() < 0.8:
        env.insert(rng.randrange(len(env) + 1), b"TZ=" + rng.choice(TZS))
    s["env"] = hexlist(env)
    s["envnames"] = hexlist(env_names(env))
    if rng.random() < 0.5:
        s["chain"] = "%d:%s" % (rng.choice([1, 2, 4]), hexs(rng.choice(ROOT_NAMES)))
    s["thread"] = rng.choice(["main", "main", "other"])
    sec = rng.choice([0, 1, 86399, 951782400, 1790000000, 2147483647, rng.randrange(0, 2 ** 31)])
    s["clock"] = "%d.%d" % (sec, rng.choice([0, 499, 500, 999, 1000, 1499, 1500, 500000, 999499, 999500, 999999, rng.randrange(0, 10 ** 6)]))
    s["fmts"] = hexlist([gen_fmt(rng) for _ in range(4 if tier == "quick" else 8)] + [DEFAULT_FMT])
    s["login"] = rng.choice(["keep", "keep", "uid:%d" % rng.choice(UID_WITH), "uid:%d" % rng.choice(UID_WITHOUT)])
    s["host"] = rng.choice(["keep", hexs(b"h"), hexs(b"verif-host"), hexs(b"a.b.example.org"), hexs(b"H" * 64), hexs(b"h" * 63), hexs(b"MiXed")])
    sizes = [256] + rng.sample([4, 5, 7, 16, 33, 64, 255, 2048], 2)
    s["sizes"] = dec_list(sizes)
    file = rng.choice([b"/bin/ls", b"/usr/bin/a program", b"", b"/" + b"p" * 300])
    argv = rng.choice([None, [], [b"ls"], [b"ls", b"-l", b"a b"], [b"x" * 200, b"", b"y"], [b""], [b"", b""]])
    s["exec"] = hexs(file) + "|" + hexlist(argv)
    s["lits"] = hexlist([b"", b"lit", b"%s%n" + b"z" * 300])
    if rng.random() < 0.6:
        s["cgtext"] = hexs(gen_cgtext(rng))
    s["cgargs"] = hexlist([b"1", b"0", b"9", b"12", b"4", b"name=systemd", b"cpu", b"cpuacct", b"memory", b"nope", b"", b"pids", b"x1", b"net_prio"])
    if rng.random() < 0.45:
        s["procfake"] = gen_procfake(rng)
    if rng.random() < 0.5:
        hn = unhex(s["host"]) if s["host"] != "keep" else b"vm"
        lines = [b"127.0.0.1 localhost", b"# 10.0.0.9 " + hn + b".commented.example",
                 rng.choice([b"10.0.0.1 " + hn + b".example.com " + hn, b"10.0.0.1\t" + hn.upper() + b".Corp.Example\n", b"10.0.0.2 other.example.com", b"10.0.0.3 x" + hn + b".sub.dom # " + hn + b".late"])]
        rng.shuffle(lines)
        s["hosts"] = hexs(b"\n".join(lines) + rng.choice([b"\n", b""]))
    return s


def fixed_states():
    """states every run contains (the distinctions the property text names)"""
    base = {"sizes": dec_list([256, 16]), "fmts": hexlist([b"%Y-%m-%d", DEFAULT_FMT]), "clock": "1790000000.123456",
            "envnames": hexlist([b"A", b"AB", b"", b"NOPE"]), "cgargs": hexlist([b"1", b"name=systemd", b"cpu", b""]), "exec": hexs(b"/bin/ls") + "|" + hexlist([b"ls", b"-l"]),
            "lits": hexlist([b"x"])}
    out = []

    def st(**kw):
        d = dict(base)
        d.update(kw)
        out.append(d)
    st(uids="1001,1002,1003", gids="2001,2002,2003", env=hexlist([b"AB=2", b"A=1", b"TZ=Europe/Ljubljana"]), stdin="pty:1003", stdout="pty:1002", sess="pgrp", thread="other")
    st(uids="33,1,2", gids="5,100,1", env=hexlist([b"LOGNAME=lo", b"SUDO_USER=su"]), stdin="pipe", stdout="pty:33", sess="setsid")
    st(uids="4294967294,2147483653,2147483648", gids="4294967294,2147483648,2003", env="~", stdin="pty:2147483653", cwd="deleted")
    st(uids="2147483648,1000,0", gids="2147483648,0,0", env="[]", stdin="closed", cwd="long:4400", chain="3:" + hexs(b"root anc"))
    st(env=hexlist([b"A=1"] + [b"V%03d=" % i + b"x" * 40 for i in range(100)]), stdin="null", cwd="renamed", login="uid:1", host=hexs(b"H" * 64), sizes=dec_list([256, 4, 64]))
    st(clock="2147483647.999999", env=hexlist([b"TZ=Pacific/Chatham", b"LOGNAME=" + b"n" * 300]), login="uid:1001", stdin="file", cwd="deep:40")
    for us in (0, 499, 500, 999, 999499, 999500, 999999):
        st(clock="1790000000.%d" % us, only="timestamp,timestamp_ms,timestamp_us", sizes=dec_list([256]))
    st(cwd="symlink", env=hexlist([b"A=1"]), uids="1001,1002,1003", only="cwd,env,env_all")
    st(cwd="symlink", only="cwd")
    # just after a second boundary, time() (coarse clock) still reports the previous second: only the timestamp family is evaluated here
    # (datetime reads time() by design and is compared in the states without a lag)
    st(clock="1790000000.500", coarse="4000", only="timestamp,timestamp_ms,timestamp_us", sizes=dec_list([256]))
    st(clock="1790000000.3999", coarse="4000", only="timestamp,timestamp_ms,timestamp_us", sizes=dec_list([256]))
    st(env=hexlist([b"NL=line1\nline2\r", b"SUDO_USER=su", b"LOGNAME=lo"]), envnames=hexlist([b"NL"]), only="env,env_all,login")
    st(exec=hexs(b"/bin/prog") + "|" + hexlist([b""]), only="cmdline,filename")            # one empty argument: the command line is empty, not the path
    st(exec=hexs(b"/bin/prog") + "|" + hexlist([b"", b""]), only="cmdline,filename")
    st(uids="1,1,1", stdin="pty:2", race="20000", only="username,tty_username,uid,tty_uid", sizes=dec_list([256]))
    return out


def recipe_line(s):
    return "state\t" + "\t".join("%s=%s" % (k, v) for k, v in sorted(s.items()))


def corpus_cases():
    d = os.path.join(VERIF, "corpus", "C12")
    out = []
    if os.path.isdir(d):
        for f in sorted(os.listdir(d)):
            for line in open(os.path.join(d, f)):
                line = line.rstrip("\n")
                if line and not line.startswith("#"):
                    out.append(line)
    return out


# ------------------------------------------------------------------------------------------------ references (correspondence only)
def ref_name_of_uid(passwd, uid):
    return passwd.get(uid, b"user-%d" % uid)[:255]


def c_atoi(b):
    m = re.match(rb"[ \t\n\v\f\r]*([+-]?\d+)", b)
    if not m:
        return 0
    v = int(m.group(1))
    v = max(-2 ** 63, min(2 ** 63 - 1, v))
    v &= 0xffffffff
    return v - 2 ** 32 if v >= 2 ** 31 else v


def ref_cgroup_entry(text, arg):
    for l in text.split(b"\n"):
        if l == b"":
            continue
        f = l.split(b":")
        if len(f) >= 3 and f[1] != b"" and arg in f[1].split(b","):
            return l
    return None


def ref_systemd_unit(text, passwd, size):
    e = ref_cgroup_entry(text.split(b"\0")[0], b"name=systemd") if text is not None and len(text) < 10240 else None
    if e is None:
        return (-1, b"Cgroup entry 'name=systemd' not found")
    e = e[:size - 1]
    f = e.split(b":", 2)
    rest = f[2] if len(f) == 3 else None
    unit = None
    if rest is not None and rest.startswith(b"/"):
        m = rest[1:]
        if m == b"":
            unit = b"-"
        elif m.startswith(b"init.scope"):
            unit = b"init"
        elif m.startswith(b"system.slice/"):
            m2 = m[len(b"system.slice/"):]
            d = m2.find(b".")
            unit = m2[:d] if d >= 0 and m2[d:] == b".service" else m2
        elif m.startswith(b"user.slice/"):
            m2 = m[len(b"user.slice/"):]
            if m2.startswith(b"user-") and b"." in m2[5:]:
                uid = c_atoi(m2[5:m2.index(b".", 5)]) & 0xffffffff
                unit = ref_name_of_uid(passwd, uid)
    if unit is None:
        unit = e[len(b"1:name=systemd:/"):]
    return (len(unit), unit)


def ref_domain(host, hosts_text):
    if host == b"" or len(host) > 64 or hosts_text is None:
        return None
    needle = (host + b".").lower()
    for line in hosts_text.split(b"\n"):
        if len(line) > 1000:
            return None
        line = line.split(b"#")[0]
        i = line.lower().find(needle)
        if i >= 0:
            tok = re.split(rb"[ \t\n\r]", line[i:])[0]
            return tok[len(needle):]
    return b"(none)"


# ------------------------------------------------------------------------------------------------ running
def build_impl(run):
    objs = run.build_objs("asan", san=True)
    exe = os.path.join(run.scratch, "impl_dstruth")
    run.link(exe, [os.path.join(VERIF, "harness", "impl_dstruth.c")], objs, san=True, extra=["-I" + os.path.join(VERIF, "harness"), "-lutil"])
    return exe


def kvs(line):
    return dict(f.split("=", 1) for f in line.split("\t")[1:] if "=" in f)


def parse_impl(line):
    """one case -> list of evaluations (pre / main / post), each with the state measured at that moment"""
    if "\x1e" in line:
        return [e for part in line.split("\x1e") for e in parse_impl(part)]
    return [parse_one(line)]


def parse_one(line):
    f = line.split("\t")
    if not f[0].startswith("ok:"):
        return {"status": f[0], "raw": line, "tag": "main"}
    try:
        r = f.index("R")
    except ValueError:
        return {"status": "bad-line", "raw": line}
    res = []
    for x in f[r + 1:]:
        p = x.split("|")
        if len(p) == 5:
            res.append({"name": p[0], "arg": p[1], "size": int(p[2]), "ret": int(p[3]), "buf": p[4]})
    return {"status": "ok", "tag": f[0][3:], "state": f[1:r], "results": res}


def in_flight(line):
    """data source that was running when a worker died: the one after the last complete record"""
    parts = line.split("\t")
    last = [p for p in parts if p.count("|") == 4]
    return (last[-1].split("|")[0] + "+1") if last else "first"


def sanity(recipe, st):
    """the state as constructed (recipe) against the state as measured: a disagreement is a harness failure, never a verdict"""
    k = recipe
    ids = [int(x) for x in st[0].split(",")]
    bad = []
    if k.get("uids", "keep") != "keep" and ids[0:3] != [int(x) for x in k["uids"].split(",")]:
        bad.append("uids")
    if k.get("gids", "keep") != "keep" and ids[3:6] != [int(x) for x in k["gids"].split(",")]:
        bad.append("gids")
    pid, ppid, sid, pgid, ktid = ids[6], ids[7], ids[8], ids[9], ids[11]
    if k.get("sess") in ("setsid", "inplace") and not (sid == pid and pgid == pid):
        bad.append("setsid")
    if k.get("sess") == "pgrp" and not (sid == ppid and pgid == pid):
        bad.append("pgrp")
    if (k.get("thread") == "other") != (ktid != pid):
        bad.append("thread")
    if "env" in k and k["env"] != st[6]:
        alias = k.get("cwd") == "symlink" and k["env"] != "~" and st[6] not in ("~", "[]") and unhex(st[6].split(",")[-1]).startswith(b"PWD=/") \
            and unhex(st[6].split(",")[-1]).endswith(b"/alias") and (",".join(st[6].split(",")[:-1]) or "[]") == k["env"]
        if not alias:
            bad.append("env")
    cw = k.get("cwd", "keep")
    if cw == "deleted" and st[1] != "~":
        bad.append("cwd-deleted")
    if cw.startswith("dir:") and not (st[1] != "~" and unhex(st[1]).endswith(b"/" + unhex(cw[4:]))):
        bad.append("cwd-dir")
    if cw == "symlink" and not (st[1] != "~" and unhex(st[1]).endswith(b"/real dir")):
        bad.append("cwd-symlink")
    if cw == "renamed" and not (st[1] != "~" and unhex(st[1]).endswith(b"/after the move")):
        bad.append("cwd-renamed")
    si = k.get("stdin", "keep")
    t0 = st[3].split(",")[0]
    if si.startswith("pty:") and not (t0.startswith("0:N:") and (":%s" % si[4:]) in st[4]):
        bad.append("stdin-pty")
    if si in ("pipe", "null", "file") and t0 != "0:E:25":
        bad.append("stdin-notty")
    if si == "closed" and t0 != "0:E:9":
        bad.append("stdin-closed")
    if k.get("host", "keep") != "keep" and st[2] != k["host"]:
        bad.append("host")
    if k.get("clock", "real") != "real":
        sec, usec = k["clock"].split(".")
        if ids[12] != int(sec) or ids[13] != int(usec):
            bad.append("clock")
    return bad


def run_states(run, exe, lines, tag):
    d = os.path.join(run.scratch, "corr-" + tag)
    os.makedirs(d, exist_ok=True)
    work = os.path.join(d, "w")
    os.makedirs(work, exist_ok=True)
    os.chmod(run.scratch, 0o755)
    os.chmod(d, 0o755)
    os.chmod(work, 0o777)
    cp = os.path.join(d, "cases.txt")
    open(cp, "w").write("".join(l + "\n" for l in lines))
    out = run.run_impl(exe, cp, os.path.join(d, "impl.out"), args=[work], timeout=3000)
    if len(out) != len(lines):
        raise CheckError("impl driver printed %d lines for %d cases" % (len(out), len(lines)))
    evs = []
    for ci, l in enumerate(out):
        for e in parse_impl(l):
            e["case"] = ci
            evs.append(e)
    return evs


def model_eval(run, parsed, tag):
    """evaluate model (ev) and documented table (doc) for every result of every ok case"""
    d = os.path.join(run.scratch, "corr-" + tag)
    mc = []
    index = []
    for ci, p in enumerate(parsed):
        if p["status"] != "ok":
            continue
        mc.append("st\t" + "\t".join(p["state"]))
        index.append(None)
        for ri, r in enumerate(p["results"]):
            if r["name"] in TABLE or r["name"] in OWN_MODEL:
                mc.append("ev\t%s\t%s\t%d" % (r["name"], r["arg"], r["size"]))
                index.append((ci, ri, "ev"))
                mc.append("doc\t%s\t%s\t%d" % (r["name"], r["arg"], r["size"]))
                index.append((ci, ri, "doc"))
    mp = os.path.join(d, "model.txt")
    open(mp, "w").write("".join(l + "\n" for l in mc))
    mo = run.run_model(AREA, mp, mp + ".out")
    if len(mo) != len(mc):
        raise CheckError("model driver printed %d lines for %d cases" % (len(mo), len(mc)))
    for line, ix in zip(mo, index):
        if line.startswith("driver-error"):
            raise CheckError("model driver: " + line)
        if ix:
            parsed[ix[0]]["results"][ix[1]][ix[2]] = line
    return len(mc)


def agree(r, pred, name):
    """implementation result against a predicted outcome line 'ret<TAB>buf|~' (None when the model has no opinion)"""
    if pred == "none":
        return None
    ret, buf = pred.split("\t")
    if name != "cmdline" and int(ret) != r["ret"]:
        return False
    if buf != "~" and buf != r["buf"]:
        return False
    return True


def compare(run, lines, parsed, stream, stats):
    nv = 0
    for p in parsed:
        ci = p["case"]
        recipe = kvs(lines[ci])
        if p["status"] != "ok":
            st = p["status"]
            if st.startswith("construct-failed") or st in ("bad-line", "driver-error:bad-case"):
                raise CheckError("state construction failed: %s for %s" % (p["raw"][:200], lines[ci][:300]))
            kind = "sanitizer" if st.startswith("san") else ("timeout" if st == "timeout" else "crash")
            run.violation("fault:%s" % st.split("\t")[0], kind, "a data source died in a constructed state (%s, in flight: %s)" % (st, in_flight(p["raw"])),
                          {"stream": stream, "failing_input": lines[ci], "impl_output": p["raw"][-600:], "cases": [lines[ci]]})
            nv += 1
            continue
        bad = sanity(recipe, p["state"]) if p["tag"] == "main" else []
        if bad:
            raise CheckError("constructed and measured state disagree on %s: %s" % (bad, lines[ci][:300]))
        ids = [int(x) for x in p["state"][0].split(",")]
        passwd = {}
        if p["state"][7] != "[]":
            for e in p["state"][7].split(","):
                a, b = e.split(":")
                passwd.setdefault(int(a), unhex(b))
        for r in p["results"]:
            name = r["name"]
            stats["evaluations"] += 1
            key = "%s" % name
            if name == "rpname" and p["tag"] == "main" and "chain" in recipe and "procfake" not in recipe and r["size"] >= 17:
                # ground truth independent of any status parsing: the name given to the root ancestor with prctl(PR_SET_NAME), verbatim;
                # applies when the /proc/<n>/stat walk of the harness ended right above that ancestor (re-parented to pid 1)
                depth, nm = recipe["chain"].split(":")
                if p["state"][10].count(":") == int(depth) + 1 and b"\n" not in unhex(nm) and b"\\" not in unhex(nm):
                    stats["compared"]["rpname-vs-prctl-name"] = stats["compared"].get("rpname-vs-prctl-name", 0) + 1
                    if r["buf"] != hexs(unhex(nm)[:15]):
                        run.violation("spec:rpname", "spec_violation", "rpname returned %s, the root ancestor was named %s with prctl(PR_SET_NAME)" % (r["buf"], nm),
                                      {"stream": stream, "failing_input": lines[ci], "datasource": "rpname", "impl_output": "%d\t%s" % (r["ret"], r["buf"]), "evaluation": p["tag"], "cases": [lines[ci]]})
                        nv += 1
            if name in TABLE or name in OWN_MODEL:
                m, dcm = agree(r, r["ev"], name), agree(r, r["doc"], name)
                if m is None and dcm is None:
                    stats["unmodelled"][key] = stats["unmodelled"].get(key, 0) + 1
                    continue
                stats["compared"][key] = stats["compared"].get(key, 0) + 1
                if dcm is False:
                    sig = "spec:%s" % name
                    if name == "timestamp" and ids[12] >= 2 ** 31:
                        sig = "spec:timestamp:int-cast-2038"
                    run.violation(sig, "spec_violation",
                                  "%s(%s) with a %d-byte buffer returned %d/%s; the documented value in the state measured at that moment is %s (evaluation '%s' of the case: pre = before the "
                                  "state changes, main = in the constructed state, post = in a forked/vforked child)" % (name, r["arg"], r["size"], r["ret"], r["buf"][:80], r["doc"][:100], p["tag"]),
                                  {"stream": stream, "failing_input": lines[ci], "datasource": name, "arg": r["arg"], "size": r["size"], "impl_output": "%d\t%s" % (r["ret"], r["buf"]),
                                   "model_output": r["ev"], "documented": r["doc"], "evaluation": p["tag"], "measured_state": p["state"][:6], "cases": [lines[ci]]})
                    nv += 1
                elif m is False:
                    run.violation("corr:%s" % name, "correspondence",
                                  "%s(%s): model %s, implementation %d/%s (documented value agrees with the implementation)" % (name, r["arg"], r["ev"][:100], r["ret"], r["buf"][:80]),
                                  {"stream": stream, "first_case": lines[ci], "datasource": name, "model_output": r["ev"], "impl_output": "%d\t%s" % (r["ret"], r["buf"]), "cases": [lines[ci]]})
                    nv += 1
            elif name in CORR_ONLY:
                want = None
                if name == "systemd_unit_name":
                    want = ref_systemd_unit(unhex(p["state"][9]), passwd, r["size"])
                elif name == "domain":
                    dom = ref_domain(unhex(p["state"][2]), unhex(recipe["hosts"]) if "hosts" in recipe else None)
                    want = (len(dom), dom) if dom is not None else None
                elif name == "ipaddr":
                    want = (1, b"-")
                    if "utmp" in recipe and recipe.get("stdin", "").startswith("pty:") and p["state"][3].startswith("0:N:"):
                        a = bytes.fromhex(recipe["utmp"])
                        if a != b"\0" * 16:
                            txt = socket.inet_ntop(socket.AF_INET, a[:4]) if a[4:] == b"\0" * 12 else socket.inet_ntop(socket.AF_INET6, a)
                            want = (len(txt), txt.encode()) if r["size"] > len(txt) else None      # inet_ntop leaves a short buffer alone
                if want is None:
                    stats["unmodelled"][key] = stats["unmodelled"].get(key, 0) + 1
                    continue
                stats["compared"][key] = stats["compared"].get(key, 0) + 1
                wbuf = hexs(want[1][:r["size"] - 1])
                if (want[0] >= 0 and r["ret"] != want[0]) or (want[0] < 0 and r["ret"] != -1) or r["buf"] != wbuf:
                    sig = "ref:%s" % name
                    if name == "domain" and len(unhex(p["state"][2])) == 64:
                        sig = "ref:domain:hostname-max-length"
                    run.violation(sig, "spec_violation", "%s returned %d/%s, the reference says %d/%s" % (name, r["ret"], r["buf"][:80], want[0], wbuf[:80]),
                                  {"stream": stream, "failing_input": lines[ci], "datasource": name, "impl_output": "%d\t%s" % (r["ret"], r["buf"]), "cases": [lines[ci]]})
                    nv += 1
    return nv


def dist_add(dist, recipe, st):
    def inc(k, v):
        dist.setdefault(k, {})
        dist[k][v] = dist[k].get(v, 0) + 1
    ids = [int(x) for x in st[0].split(",")]
    inc("uids", "all-equal" if len(set(ids[0:3])) == 1 else ("pairwise-distinct" if len(set(ids[0:3])) == 3 else "two-equal"))
    inc("gids", "all-equal" if len(set(ids[3:6])) == 1 else ("pairwise-distinct" if len(set(ids[3:6])) == 3 else "two-equal"))
    inc("ruid_class", ("ge-2^31" if ids[0] >= 2 ** 31 else "small") + ("+passwd" if ("%d:" % ids[0]) in ("," + st[7]) .replace(",", ",") and re.search(r"(^|,)%d:" % ids[0], st[7]) else "+no-entry"))
    inc("session", recipe.get("sess", "keep"))
    inc("cwd", recipe.get("cwd", "keep").split(":")[0])
    inc("stdin", recipe.get("stdin", "keep").split(":")[0])
    inc("stdout", recipe.get("stdout", "keep").split(":")[0])
    env = recipe.get("env", "inherit")
    inc("env", "NULL" if env == "~" else ("empty" if env == "[]" else ("inherit" if env == "inherit" else ("huge" if env.count(",") > 40 or len(env) > 4000 else "small"))))
    inc("chain", "orphaned-chain" if "chain" in recipe else "as-is")
    inc("race", "two-thread username/tty_username" if "race" in recipe else "none")
    inc("steps", ("pre+" if recipe.get("pre") == "1" else "") + "main" + ("+post-" + recipe["post"] if "post" in recipe else ""))
    inc("thread", recipe.get("thread", "main"))
    inc("login", recipe.get("login", "keep").split(":")[0])
    inc("utmp", "alternate-utmp-entry" if "utmp" in recipe else "none")
    inc("host", "kept" if recipe.get("host", "keep") == "keep" else "private-uts")
    inc("procfs", ("generated-status " if "procfake" in recipe else "real-status ") + ("generated-cgroup" if "cgtext" in recipe else "real-cgroup"))
    inc("coarse_clock", "lags" if "coarse" in recipe else "same as the fine clock")
    inc("clock", "real" if recipe.get("clock", "real") == "real" else ("ge-2^31" if ids[12] >= 2 ** 31 else "constructed"))
    tz = [e for e in (st[6].split(",") if st[6] not in ("~", "[]") else []) if unhex(e).startswith(b"TZ=")]
    inc("tz", unhex(tz[0])[3:].decode() if tz else "unset")


def gen_trees(text):
    return {m.group(1): " ".join(m.group(2).split()) for m in re.finditer(r'de_name := "([^"]*)";.*?de_tree :=\n(.*?) \|\}', text, re.S)}


def diagnose(tsv, gen):
    """what the translator read differently from the reference (the last tree on which every obligation held): names the entry / constant
    and, for a body that was not understood, the statement kind the symbolic executor stopped at"""
    ref = os.path.join(VERIF, "reference")
    out = []
    try:
        rt, gt = gen_trees(open(os.path.join(ref, "gen", "Gen_Ds.v")).read()), gen_trees(gen)
        for n in sorted(set(rt) | set(gt)):
            if rt.get(n) != gt.get(n):
                why = re.findall(r'\((?:TOther|EUnknown) "([^"]*)"\)', gt.get(n, ""))
                unk = sorted(set(re.findall(r'F_other "([^"]*)"', gt.get(n, ""))) - set(re.findall(r'F_other "([^"]*)"', rt.get(n, ""))))
                out.append("tree of '%s' differs from the reference%s%s" % (n, (" (not understood: %s)" % ", ".join(sorted(set(why)))) if why else "",
                                                                           (" (calls outside the modelled set: %s)" % ", ".join(unk)) if unk else ""))
        calls = lambda text: {m.group(1): m.group(2) for m in re.finditer(r'de_name := "([^"]*)";.*?de_calls := \[(.*?)\]', text, re.S)}
        rcl, gcl = calls(open(os.path.join(ref, "gen", "Gen_Ds.v")).read()), calls(gen)
        for n in ("env_all", "cmdline"):
            if rcl.get(n) != gcl.get(n):
                out.append("external calls of '%s' read as [%s] (reference [%s])" % (n, gcl.get(n), rcl.get(n)))
        rc = dict(l.split("\t", 1) for l in open(os.path.join(ref, "consts_dstruth.tsv")).read().splitlines() if "\t" in l)
        for l in tsv.splitlines():
            if "\t" in l:
                k, v = l.split("\t", 1)
                if k in rc and rc[k] != v:
                    out.append("constant %s read as %s (reference %s)" % (k, v[:40], rc[k][:40]))
    except Exception as e:
        out.append("no diagnosis: %s" % e)
    return "; ".join(out[:12]) or "no difference from the reference found"


def add_cmdline_consts(run):
    """the model driver reads the cmdline.c literals (area expand) from the dstruth sidecar; idempotent, also after a fallback to the reference sidecars"""
    p = os.path.join(run.scratch, "consts_dstruth.tsv")
    have = open(p).read()
    t1 = open(os.path.join(run.scratch, "consts_expand.tsv")).read()
    open(p, "a").write("".join(l + "\n" for l in t1.splitlines() if l.startswith("cmdline_") and (l.split("\t")[0] + "\t") not in have))


def check(run):
    if os.geteuid() != 0:
        raise CheckError("C12 constructs process states and needs root")
    run.snapshot()
    tr_expand(run)
    js, entries = tr_ds(run)
    # the model driver reads the constants of both areas
    add_cmdline_consts(run)
    regenerated_tsv = open(os.path.join(run.scratch, "consts_dstruth.tsv")).read()
    regenerated_gen = open(os.path.join(run.gen, "Gen_Ds.v")).read()
    ok, failed, log = run.coq_props(["Properties_C12.v"])
    diagnosis = "" if ok else diagnose(regenerated_tsv, regenerated_gen)
    add_cmdline_consts(run)          # a fallback may have replaced the sidecar
    coqchk = "not run (quick tier)"
    if ok and run.tier == "thorough":
        from vlib.core import sh, THEORIES
        p = sh(["timeout", "900", "coqchk", "-silent", "-o", "-Q", THEORIES, "Snoopy", "-Q", run.gen, "Gen", "-Q", os.path.join(run.scratch, "props"), "Props",
                "Props.Properties_C12"], check=False, timeout=960)
        m = re.search(r"\* Axioms:\s*(.*?)\n\s*\n", p.stdout, re.S)
        coqchk = "exit %d, axioms: %s" % (p.returncode, (m.group(1).strip() if m else "?"))
        if p.returncode != 0 or not m or m.group(1).strip() != "<none>":
            ok, failed, log = False, "coqchk", p.stdout[-2000:]
    exe = build_impl(run)
    rng = run.rng
    n = 34 if run.tier == "quick" else 1500
    corp = corpus_cases()
    gen = [recipe_line(s) for s in fixed_states()] + [recipe_line(gen_state(rng, k, run.tier)) for k in range(n)]
    # the clock past 2038 (interposed): the int cast of timestamp.c
    late = dict(fixed_states()[0]); late.update({"clock": "2147483648.000001", "only": "timestamp,timestamp_ms,timestamp_us,datetime"})
    real = dict(fixed_states()[1]); real.update({"clock": "real"})
    lines = corp + gen + [recipe_line(late)]
    stats = {"evaluations": 0, "compared": {}, "unmodelled": {}}
    parsed = run_states(run, exe, lines, "main")
    nmodel = model_eval(run, parsed, "main")
    nv = compare(run, lines, parsed, "states", stats)
    # real clock: the three timestamp sources must lie between two raw clock readings taken by this check
    import time
    t0 = time.time()
    rp = run_states(run, exe, [recipe_line(real)], "real")
    t1 = time.time()
    if rp[0]["status"] == "ok":
        ts = [r for r in rp[0]["results"] if r["name"] == "timestamp"]
        for r in ts:
            v = int(unhex(r["buf"]) or b"-1")
            stats["evaluations"] += 1
            if not (int(t0) <= v <= int(t1) + 1):
                run.violation("spec:timestamp", "spec_violation", "timestamp %d is outside the window [%d, %d] read from the real clock around the call" % (v, t0, t1),
                              {"stream": "real-clock", "failing_input": recipe_line(real), "cases": [recipe_line(real)]})
                nv += 1
    dist = {}
    for p in parsed:
        if p["status"] == "ok" and p["tag"] == "main":
            dist_add(dist, kvs(lines[p["case"]]), p["state"])
    known = [k for k in run.load_known() if k[0] == run.prop]
    fresh = [v for v in run.violations if not any(re.fullmatch(k[1], v["sig"]) for k in known)]
    if not ok and not fresh:
        run.violation("proof:%s" % failed, "proof", "proof obligation no longer checks: %s; translator diagnosis: %s\n%s" % (failed, diagnosis, log[-1500:]),
                      {"theorem": failed, "diagnosis": diagnosis, "coq_log": log[-3000:]})
    distinct = set()
    for p in parsed:
        if p["status"] == "ok":
            for r in p["results"]:
                distinct.add((r["name"], r["arg"], r["size"], r["ret"], r["buf"]))
    recog = {k: bool(v["recognised"] and k in TABLE) for k, v in js["entries"].items()}      # body turned into a decision tree of the table class
    run.coverage.update({
        "evaluations": stats["evaluations"], "distinct_nontrivial": len(distinct),
        "rule": "process states constructed by a root harness (ids pairwise distinct / with and without passwd and group entries / >= 2^31; setsid and own process group; deep, long, renamed, "
                "deleted, oddly named working directories; stdin on a pty with a chosen owner / pipe / closed / file and a second pty on stdout; environments NULL, empty, huge, names with '=' "
                "in odd places; orphaned ancestor chains and generated /proc status trees; second thread; loginuid; private UTS host names; constructed clock values and zones; generated "
                "strftime formats; generated cgroup text), every data source through the registry with 3 buffer sizes per state; distinct = distinct (source, argument, size, output) tuples observed",
        "samples": [lines[len(corp)][:400], lines[-2][:400]],
        "distribution": {"states": len(lines), "corpus_cases": len(corp), "state_dimensions": dist, "compared_per_source": stats["compared"], "no_model_opinion": stats["unmodelled"],
                         "model_lines": nmodel, "violations_found": nv,
                         "proved_table": TABLE + ["env_all", "cmdline"], "own_model_with_parse_theorems": ["cgroup", "rpname"], "correspondence_only": CORR_ONLY, "neither": NEITHER,
                         "translated_to_table_tree": recog, "coqchk": coqchk},
        "traces_validated_against_impl": sum(stats["compared"].values()),
    })
    return run.finish(level="proof",
                      trusted_base=["Coq 8.16.1 kernel + vm_compute (gen_ok)", "vlib/tr_ds.py (clang -ast-dump=json symbolic execution of the data source bodies, regex cross-check, gcc -E of the registry)",
                                    "harness/impl_dstruth.c: construction and INDEPENDENT MEASUREMENT of the process state (raw syscalls, own /proc and /etc parsing) — the truth of the measured state is the harness's",
                                    "extraction ExtrOcamlBasic + ocaml/drv_dstruth.ml", "glibc strftime/localtime_r as the time-zone oracle; glibc's getlogin_r rule (loginuid, then passwd) replicated by the harness",
                                    "python references for domain / ipaddr / systemd_unit_name (no Coq model)"],
                      assumptions=["printf %u/%d/%lu/%0Nd and snprintf truncation as in DsTruth/Model.v", "passwd/group lookups go to /etc/passwd and /etc/group (nsswitch: files first) and do not fail",
                                   "malloc succeeds (allocation failure paths are C02/C03's)", "uid/gid < 2^32, pid < 2^31, clock below 2^31 s for timestamp (int cast; see known finding)",
                                   "result buffer of at least 4 bytes for env_all (snoopy passes >= 256)"])


def replay(run, path):
    rep = json.load(open(path))
    run.snapshot()
    tr_expand(run)
    tr_ds(run)
    add_cmdline_consts(run)
    exe = build_impl(run)
    cases = rep.get("cases") or []
    if rep.get("datasource") and cases:
        cases = [c + "\tonly=" + rep["datasource"] if "\tonly=" not in c else c for c in cases]
    parsed = run_states(run, exe, cases, "replay")
    model_eval(run, parsed, "replay")
    stats = {"evaluations": 0, "compared": {}, "unmodelled": {}}
    nv = compare(run, cases, parsed, "replay", stats)
    for p in parsed:
        c = cases[p["case"]]
        print("case:", c[:300], "| evaluation:", p.get("tag"))
        if p["status"] != "ok":
            print(" impl:", p["raw"][:300])
            continue
        print(" measured ids (ruid euid suid rgid egid sgid pid ppid sid pgid pthread ktid sec usec):", p["state"][0])
        for r in p["results"]:
            flag = ""
            if r.get("doc") and agree(r, r["doc"], r["name"]) is False:
                flag = "   <-- differs from the documented value"
            print("  %s(%s)[%d] impl=%d/%s model=%s doc=%s%s" % (r["name"], r["arg"], r["size"], r["ret"], r["buf"][:60], r.get("ev", "-")[:70], r.get("doc", "-")[:70], flag))
    for v in run.violations:
        print("VIOLATION-DETAIL:", v["sig"], v["detail"][:300])
    run.cleanup()
    return 1 if nv else 0
