"""C13 — Registered names bind to their own implementation in every build configuration.

proof:  coq/props/Properties_C13.v over Gen_Registry.v: the two guarded arrays of each of the three registries as written
        (lexer-level translator vlib/tr_registry.py), the lookup shape of genericregistry.c, configure.ac's switches.
        General theorems (Registry/Proofs.v) hold for ALL configurations at once (induction over the guarded lists).
tie:    translator validation + behavioural correspondence, per build configuration (all-on, all-off, as-configured, every
        single switch off, every single switch on, random subsets), each realised as ./configure realises it: a config.h
        with exactly these guard macros defined:
          (a) `gcc -E` of the three registry files must give exactly the arrays the model selects;
          (b) the three registry files + genericregistry.c of the snapshot, compiled (ASan+UBSan) and linked against
              generated stubs (every implementation symbol records its own name), must answer callByName / callById /
              getName / getCount / doesNameExist / getIdFromName like the extracted model, and every answer must satisfy
              the extracted spec_C13_ok (own implementation; feature switch off => unknown; enabled => not unknown);
          (c) snoopy_genericregistry_* on generated arrays (duplicates, prefixes, early sentinels) vs the model.
        The extracted model is built per run and CONTAINS the regenerated tables (the very terms the theorems are about).
"""
import json, os, re, shutil, subprocess, threading
from concurrent.futures import ThreadPoolExecutor
from vlib.core import VERIF, THEORIES, CheckError, sh, hexs, hexlist, diff_results
from vlib.tr_registry import tr_registry, guard_universe, impl_of, KINDS, py_select

KEYS = [k for k, _, _ in KINDS]
KIND_OF = {k: kind for k, _, kind in KINDS}
SIG = {"datasource": "char * const resultBuf, size_t resultBufSize, char const * const arg",
       "filter": "char const * const arg",
       "output": "char const * const logMessage, char const * const arg"}
WORKERS = int(os.environ.get("VERIF_WORKERS", "6"))


# ------------------------------------------------------------------------------------ model (per-run extraction)
def build_model(run):
    """Per-run extraction.  The tables come from run.gen_models: the Gen_Registry.v of this run, or - after a broken obligation -
    the reference one (reference/gen, saved from the last tree on which every obligation held), so that the search below
    measures the implementation against the VERIFIED model and never against a translation the proofs rejected."""
    def attempt(gen, tag):
        d = os.path.join(run.scratch, "model-" + tag)
        os.makedirs(d, exist_ok=True)
        if not os.path.exists(os.path.join(gen, "Gen_Registry.vo")):
            p = sh(["timeout", "300", "coqc", "-q", "-Q", THEORIES, "Snoopy", "-Q", gen, "Gen", os.path.join(gen, "Gen_Registry.v")], check=False)
            if p.returncode != 0:
                return None, "Gen_Registry.v (%s) does not compile: %s" % (tag, p.stdout[-600:])
        shutil.copy(os.path.join(VERIF, "coq", "extract", "run", "Extract_registry_run.v"), os.path.join(d, "Extract_registry_run.v"))
        p = sh(["timeout", "300", "coqc", "-q", "-Q", THEORIES, "Snoopy", "-Q", gen, "Gen", "Extract_registry_run.v"], cwd=d, check=False)
        if p.returncode != 0:
            return None, "extraction (%s) failed: %s" % (tag, p.stdout[-600:])
        with open(os.path.join(d, "main.ml"), "w") as f:
            f.write("open Model_registry\n" + open(os.path.join(VERIF, "ocaml", "drv_registry.ml")).read())
        exe = os.path.join(d, "drv_registry")
        p = sh(["ocamlfind", "ocamlopt", "-w", "-a", "-package", "str", "-linkpkg", "model_registry.mli", "model_registry.ml", "main.ml", "-o", exe], cwd=d, timeout=600, check=False)
        if p.returncode != 0:
            return None, "model driver (%s) does not build: %s" % (tag, p.stdout[-600:])
        return exe, None
    gm = getattr(run, "gen_models", run.gen)
    if gm != run.gen and os.path.exists(os.path.join(gm, "Gen_Registry.v")):
        exe, err = attempt(gm, "reference")
        if exe:
            return exe
        run.notes.append("reference Gen_Registry.v unusable (%s): the model is instantiated with the regenerated tables" % err)
    exe, err = attempt(run.gen, "run")
    if not exe:
        raise CheckError(err)
    return exe


def run_model(run, exe, lines):
    p = subprocess.run(["bash", "-c", "ulimit -s unlimited 2>/dev/null || ulimit -s 1000000; exec \"$0\"", exe],
                       input="".join(l + "\n" for l in lines), stdout=subprocess.PIPE, stderr=subprocess.PIPE, text=True, timeout=1800)
    if p.returncode != 0:
        raise CheckError("model driver failed: " + p.stderr[-2000:])
    out = p.stdout.split("\n")[:-1]
    if len(out) != len(lines):
        raise CheckError("model driver: %d answers for %d cases" % (len(out), len(lines)))
    bad = [o for o in out if o.startswith("driver-error")]
    if bad:
        raise CheckError("model driver error: " + bad[0])
    return out


# ------------------------------------------------------------------------------------ implementation side
def glist(defined):
    return ",".join(defined) if defined else "[]"


def synth_config(base, universe, defined):
    """config.h as ./configure would have written it with exactly `defined` of the registry switches on"""
    u = set(universe)
    keep = []
    for l in base.split("\n"):
        m = re.match(r"\s*#\s*(?:define|undef)\s+(\w+)", l)
        if m and m.group(1) in u:
            continue
        keep.append(l)
    return "\n".join(keep) + "\n/* synthetic: registry switches of this configuration */\n" + "".join("#define %s 1\n" % g for g in defined)


class Impl:
    """per-run build context: common objects once, one small build per configuration"""

    def __init__(self, run, js):
        self.run, self.js = run, js
        self.universe = guard_universe(js)
        self.base_cfg = run.src("config.h")
        self.dir = os.path.join(run.scratch, "impl")
        os.makedirs(self.dir, exist_ok=True)
        self.flags = run.cflags(san=True)
        self.common = None
        self.n = 0
        self.lock = threading.Lock()

    def cfgdir(self, defined):
        with self.lock:
            self.n += 1
            d = os.path.join(self.dir, "c%d" % self.n)
        os.makedirs(d)
        open(os.path.join(d, "config.h"), "w").write(synth_config(self.base_cfg, self.universe, defined))
        return d

    def stubs_source(self, extra):
        syms = {}
        for k in KEYS:
            r = self.js["registries"][k]
            for _, n in r["names"]:
                syms.setdefault(impl_of(r["kind"], n), r["kind"])
            for _, p in r["ptrs"]:
                if re.fullmatch(r"[A-Za-z_]\w*", p):
                    syms.setdefault(p, r["kind"])
        out = ["#include <stddef.h>\n#include <stdio.h>\n#include <stdlib.h>\n#include <string.h>\n"
               "const char *verif_last_called; int verif_calls; char verif_last_msg[512], verif_last_outarg[512];\n"
               "char verif_log[8192]; int verif_stub_ret; int verif_threads_mode;\n"
               "__thread const char *verif_tl_last; __thread char verif_tl_arg[64];\n"
               "static void verif_note(const char *s, const char *arg) {\n"
               "  verif_tl_last = s; snprintf(verif_tl_arg, sizeof verif_tl_arg, \"%s\", arg ? arg : \"\");\n"
               "  if (verif_threads_mode) return;\n"
               "  verif_last_called = s; verif_calls++;\n"
               "  if (strlen(verif_log) + strlen(s) + 2 < sizeof verif_log) { if (verif_log[0]) strcat(verif_log, \",\"); strcat(verif_log, s); } }\n"]
        for s, kind in sorted(syms.items()):
            if kind == "datasource":
                # a data source writes its own identity into the result buffer and reports its length
                out.append("int %s(%s) { verif_note(\"%s\", arg); if (resultBufSize) snprintf(resultBuf, resultBufSize, \"%%s\", \"%s\"); "
                           "return (int)strlen(\"%s\") < (int)resultBufSize ? (int)strlen(\"%s\") : (resultBufSize ? (int)resultBufSize - 1 : 0); }\n" % (s, SIG[kind], s, s, s, s))
            else:
                rec = (" if (!verif_threads_mode) { snprintf(verif_last_msg, sizeof verif_last_msg, \"%s\", logMessage); snprintf(verif_last_outarg, sizeof verif_last_outarg, \"%s\", arg); }"
                       if kind == "output" else "")
                out.append("int %s(%s) { verif_note(\"%s\", arg);%s return verif_stub_ret; }\n" % (s, SIG[kind], s, rec))
        for s in sorted(extra):
            if s not in syms:
                out.append("void %s(void) { abort(); }\n" % s)
        self.stub_syms = set(syms)
        return "".join(out)

    def compile_regs(self, d):
        """the three registry files under d/config.h -> ([objs], error text or None)"""
        objs = []
        for k in KEYS:
            src = os.path.join(self.run.tree, "src", "%sregistry.c" % KIND_OF[k])
            o = os.path.join(d, "%sregistry.o" % KIND_OF[k])
            p = subprocess.run(["gcc", "-I" + d] + self.flags + ["-c", src, "-o", o], stdout=subprocess.PIPE, stderr=subprocess.STDOUT, text=True)
            if p.returncode != 0:
                return None, "%sregistry.c: %s" % (KIND_OF[k], p.stdout[-1500:])
            objs.append(o)
        return objs, None

    def prepare(self, defined_all_on):
        """objects shared by all configurations; needs one configuration that compiles to learn the undefined symbols"""
        run = self.run
        d = self.cfgdir(defined_all_on)
        objs, err = self.compile_regs(d)
        if err:
            raise CheckError("the registries do not compile with every switch on: " + err)
        g = os.path.join(self.dir, "genericregistry.o")
        sh(["gcc"] + self.flags + ["-c", os.path.join(run.tree, "src", "genericregistry.c"), "-o", g])
        dr = os.path.join(self.dir, "impl_registry.o")
        sh(["gcc"] + self.flags + ["-I" + os.path.join(VERIF, "harness"), "-c", os.path.join(VERIF, "harness", "impl_registry.c"), "-o", dr])
        # the one caller of the filter registry that walks several names: filtering.c, from the snapshot
        fo = os.path.join(self.dir, "filtering.o")
        sh(["gcc"] + self.flags + ["-c", os.path.join(run.tree, "src", "filtering.c"), "-o", fo])
        # ... and the rest of the logging path, so that every registered name is used THROUGH its real caller
        callers = [fo]
        self.cfg_callers = []          # callers whose compiled code depends on the registry switches: built per configuration
        d_off = self.cfgdir([])
        extra_objs = []
        for rel in ("src/filtering.c", "src/message.c", "src/util/string.c", "src/action/log-syscall-exec.c", "src/action/log-message-dispatch.c"):
            srcp = os.path.join(run.tree, rel)
            if self.preprocessed(srcp, d) != self.preprocessed(srcp, d_off):
                self.cfg_callers.append(rel)
                for dd, tag in ((d, "on"), (d_off, "off")):
                    oo = os.path.join(dd, rel.replace("/", "__")[:-2] + ".o")
                    p_ = subprocess.run(["gcc", "-I" + dd] + self.flags + ["-c", srcp, "-o", oo], stdout=subprocess.PIPE, stderr=subprocess.STDOUT, text=True)
                    if p_.returncode == 0:
                        extra_objs.append(oo)
                continue
            if rel == "src/filtering.c":
                continue               # already compiled above
            oo = os.path.join(self.dir, rel.replace("/", "__")[:-2] + ".o")
            sh(["gcc"] + self.flags + ["-c", srcp, "-o", oo])
            callers.append(oo)
        if "src/filtering.c" in self.cfg_callers:
            callers.remove(fo)
        und, dfn = set(), set()
        for o in objs + [g, dr] + callers + extra_objs:
            for line in sh(["nm", o]).stdout.split("\n"):
                f = line.split()
                if len(f) == 2 and f[0] == "U":
                    und.add(f[1])
                elif len(f) == 3 and f[1] in "TDBRC":
                    dfn.add(f[2])
        extra = [s for s in und - dfn if s.startswith("snoopy_")]
        st = os.path.join(self.dir, "stubs.c")
        open(st, "w").write(self.stubs_source(extra))
        so = os.path.join(self.dir, "stubs.o")
        sh(["gcc"] + self.flags + ["-c", st, "-o", so])
        self.common = [g, so, dr] + callers

    def preprocessed(self, src, d):
        p = subprocess.run(["gcc", "-E", "-P", "-I" + d] + [f for f in self.flags if f.startswith(("-I", "-D", "-std"))] + [src],
                           stdout=subprocess.PIPE, stderr=subprocess.PIPE, text=True)
        return p.stdout if p.returncode == 0 else "error: " + p.stderr[-300:]

    def arrays(self, d):
        """gcc -E of the three registry files under d/config.h -> {key: (names, ptrs)} or error text"""
        res = {}
        for k in KEYS:
            kind = KIND_OF.get(k, "")
            src = os.path.join(self.run.tree, "src", "%sregistry.c" % kind)
            p = subprocess.run(["gcc", "-E", "-P", "-I" + d] + [f for f in self.flags if f.startswith(("-I", "-D", "-std"))] + [src],
                               stdout=subprocess.PIPE, stderr=subprocess.PIPE, text=True)
            if p.returncode != 0:
                return "gcc -E %sregistry.c: %s" % (kind, p.stderr[-800:])
            t = p.stdout
            mn = re.search(r"snoopy_%sregistry_names\s*\[\s*\]\s*=\s*\{(.*?)\}\s*;" % kind, t, re.S)
            mp = re.search(r"snoopy_%sregistry_ptrs\s*\[\s*\]\s*(?:\)\s*\([^)]*\))?\s*=\s*\{(.*?)\}\s*;" % kind, t, re.S)
            if not mn or not mp:
                return "gcc -E %sregistry.c: arrays not found in the preprocessed text" % kind
            names = []
            for tok in mn.group(1).split(","):
                tok = tok.strip()
                if tok:
                    m = re.fullmatch(r'"([^"]*)"', tok)
                    names.append(m.group(1) if m else "?" + tok)
            ptrs = [tok.strip() for tok in mp.group(1).split(",") if tok.strip()]
            res[k] = (names, ptrs)
        return res

    def binary(self, d):
        objs, err = self.compile_regs(d)
        if err:
            return None, err
        for rel in getattr(self, "cfg_callers", []):
            oo = os.path.join(d, rel.replace("/", "__")[:-2] + ".o")
            p = subprocess.run(["gcc", "-I" + d] + self.flags + ["-c", os.path.join(self.run.tree, rel), "-o", oo], stdout=subprocess.PIPE, stderr=subprocess.STDOUT, text=True)
            if p.returncode != 0:
                return None, "%s: %s" % (rel, p.stdout[-1500:])
            objs = objs + [oo]
        exe = os.path.join(d, "impl_registry")
        p = subprocess.run(["gcc"] + self.flags + objs + self.common + ["-o", exe, "-lpthread"], stdout=subprocess.PIPE, stderr=subprocess.STDOUT, text=True)
        if p.returncode != 0:
            return None, "link: " + p.stdout[-1500:]
        return exe, None

    def run_cases(self, exe, lines):
        e = dict(os.environ)
        e.update({"ASAN_OPTIONS": "detect_leaks=0:exitcode=77:abort_on_error=0", "UBSAN_OPTIONS": "halt_on_error=1:exitcode=78"})
        e.pop("LD_PRELOAD", None)
        p = subprocess.run([exe], input="".join(l + "\n" for l in lines), stdout=subprocess.PIPE, stderr=subprocess.PIPE, text=True, env=e, timeout=600)
        out = p.stdout.split("\n")[:-1]
        if p.returncode != 0 or len(out) != len(lines):
            raise CheckError("implementation driver failed (%d, %d answers for %d cases): %s" % (p.returncode, len(out), len(lines), p.stderr[-1500:]))
        return out


def plain_list(l):
    return ",".join(x if x != "" else "-" for x in l) if l else "[]"


# ------------------------------------------------------------------------------------ cases
def probes(js):
    """names asked of every registry: every name of every table, near misses, the sentinel"""
    allnames = []
    for k in KEYS:
        for _, n in js["registries"][k]["names"]:
            if n not in allnames:
                allnames.append(n)
    near = []
    for n in allnames[:]:
        if n:
            for v in (n[:-1], n + "x", n.upper(), n + "output"):
                if v not in allnames and v not in near:
                    near.append(v)
    step = max(1, len(near) // 24)
    return allnames + near[::step] + ["nosuch", " ", "snoopy_datasource_uid"]


def config_cases(js, defined, prb, threads=False):
    """model-format case lines for one configuration"""
    g = glist(defined)
    out = []
    for k in KEYS:
        out.append("arrays\t%s\t%s" % (k, g))
    for k in KEYS:
        for n in prb:
            out.append("byname\t%s\t%s\t%s" % (k, hexs(n.encode()), g))
    for n in prb:
        out.append("dispatch\tout\t%s\t%s" % (hexs(n.encode()), g))      # snoopy_outputregistry_dispatch with CFG->output = n
    outn = [n for _, n in js["registries"]["out"]["names"] if n]
    for n in outn + ["nosuch"] + outn[::-1] + [x for x in prb if x not in outn][:4]:
        out.append("dispatchs\tout\t%s\t%s" % (hexs(n.encode()), g))     # the same, CFG->output at one address, content changing
    # the same name asked of the three registries in a row (a lookup must not remember anything across registries)
    tabn = []
    for k in KEYS:
        for _, n in js["registries"][k]["names"]:
            if n and n not in tabn:
                tabn.append(n)
    per = [[n for _, n in js["registries"][k]["names"] if n] for k in KEYS]
    shared = [n for n in tabn if sum(n in p_ for p_ in per) > 1]
    some = shared + [n for p_ in per for n in (p_[:3] + p_[-3:]) if n not in shared]
    for n in some:
        for k in KEYS:
            out.append("byname\t%s\t%s\t%s" % (k, hexs(n.encode()), g))
    # filter chains walked by filtering.c: enabled elements run in order, switched-off / unknown ones are skipped
    fn = [n for _, n in js["registries"]["flt"]["names"] if n]
    chains = [fn, fn[::-1], ["nosuch"] + fn, fn + ["nosuch", fn[0]] if fn else ["nosuch"], []]
    for i in range(len(fn)):
        chains.append([fn[(i + j) % len(fn)] for j in range(min(3, len(fn)))])
        chains.append([fn[i], fn[i]] + fn[:2])
    if len(fn) >= 2:
        chains.append([fn[0], "-", fn[1]])        # ";:noop;" - an element with the EMPTY name (and a registered name as argument) is unknown
        chains.append(["nosuch", "-"])
    if len(fn) >= 3:
        chains.append([fn[0], "x" * 70, fn[1], "y" * 300, fn[2]])          # long unknown names (with an argument) are skipped like any other
    for ch in chains:
        out.append("chain\tflt\t%s\t%s" % (",".join(ch) if ch else "[]", g))
    # the whole logging path through snoopy_action_log_syscall_exec: every registered name of every registry in its real role
    dn = [n for _, n in js["registries"]["ds"]["names"] if n]
    if fn and dn and outn:
        for i in range(max(len(fn), len(dn), len(outn))):
            out.append("exec\t%s\t%s\t%s\t%s" % (",".join([fn[i % len(fn)], fn[(i + 1) % len(fn)]]), ",".join([dn[i % len(dn)], dn[(i + 7) % len(dn)]]),
                                                  hexs(outn[i % len(outn)].encode()), g))
        out.append("exec\t%s\t%s\t%s\t%s" % (",".join(["nosuch", fn[0]]), ",".join([dn[0], "nosuch", dn[1]]), hexs(b"nosuch"), g))
        out.append("exec\t[]\t%s\t%s\t%s" % (dn[-1], hexs(outn[-1].encode()), g))
        # the empty name in every role: "%{:noop}" ends the expansion like any unknown tag, ":noop" in a chain is skipped, output "" is unknown
        out.append("exec\t%s\t%s\t%s\t%s" % (",".join([fn[0], "-", fn[-1]]), ",".join([dn[0], "-", dn[1]]), hexs(b""), g))
    if threads and dn:
        av = py_select([r for r in js["registries"]["ds"]["names"] if r[1]], defined)
        pick = av[:2] + av[-2:] if len(av) >= 4 else av
        if len(pick) >= 2:
            out.append("threads\tds\t%s\t%s" % (",".join("%s=%s" % (n, impl_of("datasource", n)) for n in pick), g))
    for k in KEYS:
        nrows = len(js["registries"][k]["names"])
        out.append("count\t%s\t%s" % (k, g))
        for i in list(range(-2, nrows + 2)) + [1000, -2147483648, 2147483647]:
            out.append("byid\t%s\t%d\t%s" % (k, i, g))
    return out


def configurations(run, js, universe):
    """[(label, defined guards)] : all-on, all-off, as-configured, each single switch off, each single switch on, random subsets"""
    cfgs = [("all-on", list(universe)), ("all-off", [])]
    cur = []
    base = run.src("config.h")
    for g in universe:
        if re.search(r"^\s*#\s*define\s+%s\b" % re.escape(g), base, re.M):
            cur.append(g)
    cfgs.append(("as-configured", cur))
    for g in universe:
        cfgs.append(("off:" + g, [x for x in universe if x != g]))
    # one feature alone in its registry, everything else on (a registry reduced to a single switchable entry)
    kinds = ("FILTER", "OUTPUT") if run.tier == "quick" else ("FILTER", "OUTPUT", "DATASOURCE")
    for K in kinds:
        grp = [g for g in universe if g.startswith("SNOOPY_CONF_%s_ENABLED_" % K)]
        for g in grp:
            cfgs.append(("alone:" + g, [x for x in universe if x == g or x not in grp]))
    singles_on = [("on:" + g, [g]) for g in universe]
    nrand = 50 if run.tier == "quick" else 500
    if run.tier != "quick":
        cfgs += singles_on
        for a, b in zip(universe, universe[1:]):
            cfgs.append(("off2:%s+%s" % (a, b), [x for x in universe if x not in (a, b)]))
    else:
        cfgs += [singles_on[i] for i in sorted(run.rng.sample(range(len(singles_on)), min(8, len(singles_on))))]
    for i in range(nrand):
        p = run.rng.choice([0.5, 0.5, 0.85, 0.15, 0.97])
        cfgs.append(("random-%d" % i, [g for g in universe if run.rng.random() < p]))
    return cfgs


def generic_cases(rng, sentinel, n):
    alpha = ["a", "ab", "abc", "b", "uid", "uid2", "UID", "noop", " ", "x" * 40]
    out = []
    for _ in range(n):
        ln = rng.choice([0, 1, 2, 3, 5, 8])
        arr = [rng.choice(alpha) for _ in range(ln)]
        arr.append(sentinel)                       # the C loops need one
        if rng.random() < 0.4:
            arr += [rng.choice(alpha + [sentinel]) for _ in range(rng.choice([1, 2, 3]))]
        if rng.random() < 0.15 and arr:
            arr.insert(rng.randrange(len(arr)), sentinel)   # early sentinel hides what follows
        name = rng.choice(alpha + [sentinel, "zz"] + arr)
        a = hexlist([x.encode() for x in arr])
        r = rng.random()
        if r < 0.4:
            out.append("gid\t%s\t%s" % (a, hexs(name.encode())))
        elif r < 0.55:
            out.append("gcount\t%s" % a)
        elif r < 0.75:
            out.append("gname\t%s\t%d" % (a, rng.choice([-1, 0, 1, 2, ln - 1, ln, ln + 1, 99])))
        elif r < 0.85:
            out.append("gidexist\t%s\t%d" % (a, rng.choice([-1, 0, 1, ln - 1, ln, ln + 1])))
        else:
            out.append("gnameexist\t%s\t%s" % (a, hexs(name.encode())))
    return out


# ------------------------------------------------------------------------------------ one configuration, both sides
def impl_answers(impl, js, defined, lines):
    """answers of the implementation for the model-format lines of one configuration; (answers, build_error)"""
    d = impl.cfgdir(defined)
    arr = impl.arrays(d)
    exe, err = impl.binary(d)
    ans = []
    rest_idx, rest = [], []
    for i, l in enumerate(lines):
        f = l.split("\t")
        if f[0] == "arrays":
            if isinstance(arr, str):
                ans.append("nobuild")
            else:
                ans.append("ok\t%s\t%s" % (plain_list(arr[f[1]][0]), plain_list(arr[f[1]][1])))
        else:
            ans.append(None)
            rest_idx.append(i)
            rest.append(l)
    if exe is None:
        for i in rest_idx:
            ans[i] = "nobuild"
        return ans, (err if not isinstance(arr, str) else arr)
    out = impl.run_cases(exe, rest)
    for i, o in zip(rest_idx, out):
        ans[i] = o
    shutil.rmtree(d, ignore_errors=True)
    return ans, None


def spec_lines(lines, answers):
    idx, out = [], []
    for i, (l, a) in enumerate(zip(lines, answers)):
        f = l.split("\t")
        if f[0] == "exec" and a.startswith("ok\t"):
            idx.append(i)
            out.append("execspec\t%s\t%s\t%s\t%s\t%s" % (f[1], f[2], f[3], f[4], a.split("\t")[1]))
        elif f[0] == "chain" and a.startswith("ok\t"):
            idx.append(i)
            out.append("chainspec\t%s\t%s\t%s\t%s" % (f[1], f[2], f[3], a.split("\t")[1]))
        elif f[0] in ("byname", "dispatch", "dispatchs") and a.startswith("ok\t"):
            o = a.split("\t")[1]
            if o.startswith("fault") or (f[0] != "byname" and o.startswith("called:") and a.split("\t")[2:3] == ["0"]):
                o = "fault"     # the output ran, but not with the message / the configured argument it was to receive
            idx.append(i)
            out.append("spec\t%s\t%s\t%s\t%s" % (f[1], f[2], f[3], o))
        elif f[0] == "byid" and a.startswith("ok\tcalled:"):
            # id i is the id of the name getName(i) reports: what ran must be that name's own implementation
            af = a.split("\t")
            nm = af[2] if len(af) > 2 else "~"
            idx.append(i)
            out.append("spec\t%s\t%s\t%s\t%s" % (f[1], hexs(b"" if nm in ("-", "~") else nm.encode()), f[3], af[1] if nm != "~" else "fault"))
    return idx, out


def describe(universe, defined):
    off = [g for g in universe if g not in defined]
    if len(off) <= len(defined):
        return "all switches on except: " + (", ".join(off) if off else "(none)")
    return "only these switches on: " + (", ".join(defined) if defined else "(none)")


def classify_case(js, line, model, ans):
    """signature + text for an implementation answer rejected by spec_C13_ok / a fault"""
    f = line.split("\t")
    k = f[1]
    kind = KIND_OF.get(k, "")
    a = ans.split("\t")
    if f[0] == "exec":
        outn = bytes.fromhex(f[3]).decode() if f[3] != "-" else ""
        if not ans.startswith("ok"):
            return "fault:" + a[0].split(":")[0], "snoopy_action_log_syscall_exec (filter chain [%s], format of [%s], output '%s') ended in %s" % (f[1][:200], f[2][:200], outn, ans)
        return "spec:exec-path", ("snoopy_action_log_syscall_exec with filter chain [%s], message format of data sources [%s] and output '%s' ran %s; "
                                  "the enabled elements' own implementations are %s" % (f[1][:200], f[2][:200], outn, a[1], model.split("\t")[1] if "\t" in model else model))
    if f[0] == "threads":
        if not ans.startswith("ok"):
            return "fault:" + a[0].split(":")[0], "concurrent format expansion [%s] ended in %s" % (f[2], ans)
        return "spec:thread-crosstalk", "threads expanding their own %%{name} concurrently: %s" % (a[2] if len(a) > 2 else ans)
    if f[0] == "chain":
        if not ans.startswith("ok"):
            return "fault:" + a[0].split(":")[0], "walking the filter chain [%s] ended in %s" % (f[2], ans)
        return "spec:chain", ("filter chain [%s]: the filters that ran are %s, the enabled elements in order are %s "
                              "(a switched-off or unknown element must be skipped without affecting the others)" % (f[2], a[1], model.split("\t")[1] if "\t" in model else model))
    if f[0] in ("dispatch", "dispatchs"):
        name = bytes.fromhex(f[2]).decode() if f[2] != "-" else ""
        if not ans.startswith("ok"):
            return "fault:" + a[0].split(":")[0], "snoopy_outputregistry_dispatch with the configured output '%s' ended in %s" % (name, ans)
        o = a[1]
        if o.startswith("called:") and a[2:3] == ["0"]:
            return "spec:dispatch-args", "snoopy_outputregistry_dispatch runs %s for the configured output '%s', but not with the message and the configured output argument (as text) it was given" % (o[7:], name)
        if o.startswith("called:"):
            sym = o[7:]
            if sym != impl_of(kind, name):
                return "spec:dispatch-misbinding", "snoopy_outputregistry_dispatch with the configured output '%s' runs %s, which is not the implementation of '%s' (an unknown or switched-off name must run nothing)" % (name, sym, name)
            return "spec:dispatch-off-feature-callable", "snoopy_outputregistry_dispatch runs output '%s' although its enable switch is off" % name
        if o == "unknown":
            return "spec:dispatch-enabled-unknown", "output '%s' is enabled but snoopy_outputregistry_dispatch does not reach it" % name
        return "fault:lookup", "snoopy_outputregistry_dispatch('%s') misbehaved: %s" % (name, o)
    if f[0] != "byname":
        what = "callById(%s)" % f[2] if f[0] == "byid" else f[0]
        if not ans.startswith("ok"):
            return "fault:" + a[0].split(":")[0], "%s registry: %s ended in %s (model: %s)" % (kind, what, ans, model)
        if f[0] == "byid" and a[1].startswith("called:"):
            nm = a[2] if len(a) > 2 else "~"
            return "spec:misbinding-by-id", "%s registry: id %s is named '%s' by getName but callById runs %s" % (kind, f[2], nm, a[1][7:])
        return "fault:lookup", "%s registry: %s misbehaved: %s (model: %s)" % (kind, what, ans, model)
    name = bytes.fromhex(f[2]).decode() if f[2] != "-" else ""
    o = a[1] if len(a) > 1 else ans
    if not ans.startswith("ok"):
        return "fault:" + ans.split("\t")[0].split(":")[0], "lookup of %s '%s' ended in %s" % (kind, name, ans)
    if o.startswith("called:"):
        sym = o[7:]
        if sym != impl_of(kind, name):
            return "spec:misbinding", "%s name '%s' invokes %s instead of its own implementation %s" % (kind, name, sym, impl_of(kind, name))
        return "spec:off-feature-callable", "%s '%s' is callable although its enable switch is off" % (kind, name)
    if o == "unknown":
        return "spec:enabled-unknown", "%s '%s' is enabled in this configuration but the registry does not know the name" % (kind, name)
    return "fault:lookup", "lookup of %s '%s' misbehaved: %s" % (kind, name, o)


def minimise(impl, js, defined, lines, i, bad_answer):
    """smallest order-preserving prefix context under which case i still gets `bad_answer` from a fresh process:
    the case alone, with its predecessor, with the last 40, with everything before it"""
    for cand in ([lines[i]], lines[max(0, i - 1):i + 1], lines[max(0, i - 40):i + 1], lines[:i + 1]):
        if cand and cand[0].startswith("arrays"):
            cand = [c for c in cand if not c.startswith("arrays")] or cand
        try:
            ans, err = impl_answers(impl, js, defined, cand)
        except CheckError:
            continue
        if not err and ans and ans[-1] == bad_answer:
            return cand
    return lines[:i + 1]


def diagnose(js):
    """plain-text reasons why registry_consts_ok is false (for the message only; the verdict is Coq's)"""
    why = []
    if not js["lookup_ok"]:
        why.append("lookup functions not of the modelled shape")
    if not js.get("entries_ok", True):
        why.append("an entry point of the registries is not one of the modelled ones")
    allowed = {("src/message.c", "snoopy_datasourceregistry_doesNameExist"), ("src/message.c", "snoopy_datasourceregistry_callByName"),
               ("src/filtering.c", "snoopy_filterregistry_doesNameExist"), ("src/filtering.c", "snoopy_filterregistry_callByName"),
               ("src/configfile.c", "snoopy_outputregistry_doesNameExist"), ("src/action/log-message-dispatch.c", "snoopy_outputregistry_dispatch")}
    for f, fn in js.get("callers", []):
        if (f, fn) not in allowed:
            why.append("%s uses %s: not one of the known name-based uses of the registries (message.c, filtering.c, configfile.c: doesNameExist/callByName; log-message-dispatch.c: dispatch)" % (f, fn))
    for rel, gs in js.get("guard_mentions", []):
        why.append("%s tests feature switch(es) outside the registries: %s" % (rel, ", ".join(gs)[:160]))
    if not js.get("dispatch_ok", True):
        why.append("snoopy_outputregistry_dispatch does not simply call callByName(CFG->output, ...)")
    for k in KEYS:
        r = js["registries"][k]
        kind = r["kind"]
        ns, ps = r["names"], r["ptrs"]
        if not r["lex_ok"]:
            why.append("%s registry: unrecognised construct in the arrays" % kind)
        if not ns or (list(ns[-1][0]), ns[-1][1]) != ([], js["sentinel"] or ""):
            why.append("%s registry: names array does not end with the unguarded sentinel" % kind)
        body = ns[:-1]
        if len(body) != len(ps):
            why.append("%s registry: %d name rows but %d pointer rows" % (kind, len(body), len(ps)))
        for i, ((gn, n), (gp, p_)) in enumerate(zip(body, ps)):
            if list(gn) != list(gp):
                why.append("%s registry row %d: name '%s' under %s but pointer %s under %s" % (kind, i, n, gn or "no guard", p_, gp or "no guard"))
                break
            if p_ != impl_of(kind, n):
                why.append("%s registry row %d: name '%s' paired with %s" % (kind, i, n, p_))
                break
        seen = set()
        for _, n in body:
            if n in seen:
                why.append("%s registry: name '%s' twice" % (kind, n))
            seen.add(n)
        for gs, n in body:
            if gs and ("SNOOPY_CONF_%s_ENABLED_%s" % (kind.upper(), n)) not in gs:
                why.append("%s registry: '%s' is not switched by its own feature guard but by %s" % (kind, n, gs))
    used = set(g for k in KEYS for a in ("names", "ptrs") for gs, _ in js["registries"][k][a] for g in gs)
    feat = set(g for g in used if re.match(r"SNOOPY_CONF_(DATASOURCE|FILTER|OUTPUT)_ENABLED_", g))
    cf, hin = set(js["configure_features"]), set(js["confighin"])
    if feat - cf:
        why.append("guards no configure switch defines: %s" % sorted(feat - cf))
    if cf - feat:
        why.append("configure switches no registry row tests: %s" % sorted(cf - feat))
    if cf != hin:
        why.append("configure.ac and config.h.in disagree: %s" % sorted(cf ^ hin))
    if (used - feat) - set(js["configure_generic"]):
        why.append("other guards configure.ac never defines: %s" % sorted((used - feat) - set(js["configure_generic"])))
    return why


# ------------------------------------------------------------------------------------ EXTENSION: option registry of configfile.c
def options_stream(run, js, model, impl):
    """-> dict(evaluations, mismatches [(case, model, impl)], spec_bad [(case, impl)], nobuild [(defined, err)], configs)"""
    opts = js["options"]
    gs = []
    for g_, _ in opts["rows"]:
        for g in g_:
            if g not in gs:
                gs.append(g)
    if len(gs) <= 4:
        subsets = [[g for i, g in enumerate(gs) if (m >> i) & 1] for m in range(1 << len(gs))]
    else:
        subsets = [list(gs), []] + [[x for x in gs if x != g] for g in gs] + [[g] for g in gs]
    names = [it[0] for _, it in opts["rows"]]
    prb = []
    for n in names + [n[:-1] for n in names if n] + [n + "x" for n in names if n] + ["nosuch", "OUTPUT"]:
        if n not in prb:
            prb.append(n)
    base = run.src("config.h")
    d0 = os.path.join(impl.dir, "opt")
    os.makedirs(d0, exist_ok=True)
    drv = os.path.join(d0, "impl_optreg.o")
    sh(["gcc"] + impl.flags + ["-I" + os.path.join(VERIF, "harness"), "-c", os.path.join(VERIF, "harness", "impl_optreg.c"), "-o", drv])
    res = {"evaluations": 0, "mismatches": [], "spec_bad": [], "nobuild": [], "configs": len(subsets)}
    all_cases, all_impl = [], []
    for ci, defined in enumerate(subsets):
        d = os.path.join(d0, "c%d" % ci)
        os.makedirs(d)
        open(os.path.join(d, "config.h"), "w").write(synth_config(base, gs, defined))
        o = os.path.join(d, "configfile.o")
        p = subprocess.run(["gcc", "-I" + d] + impl.flags + ["-c", os.path.join(run.tree, "src", "configfile.c"), "-o", o], stdout=subprocess.PIPE, stderr=subprocess.STDOUT, text=True)
        if p.returncode != 0:
            res["nobuild"].append((defined, p.stdout[-800:]))
            continue
        und = set()
        for line in sh(["nm", "-u", o]).stdout.split("\n"):
            f = line.split()
            if len(f) == 2 and (f[1].startswith("snoopy_") or f[1].startswith("ini_")):
                und.add(f[1])
        st = os.path.join(d, "stubs.c")
        open(st, "w").write("#include <stdlib.h>\n" + "".join("void %s(void) { abort(); }\n" % s for s in sorted(und)))
        exe = os.path.join(d, "impl_optreg")
        p = subprocess.run(["gcc"] + impl.flags + ["-rdynamic", o, drv, st, "-o", exe, "-ldl"], stdout=subprocess.PIPE, stderr=subprocess.STDOUT, text=True)
        if p.returncode != 0:
            res["nobuild"].append((defined, "link: " + p.stdout[-800:]))
            continue
        g = glist(defined)
        cases = ["optall\t%s" % g] + ["optid\t%s\t%s" % (hexs(n.encode()), g) for n in prb]
        # the implementation driver takes the same lines without the configuration field
        out = impl.run_cases(exe, ["\t".join(c.split("\t")[:-1]) for c in cases])
        all_cases += cases
        all_impl += out
    if not all_cases:
        return res
    mo = run_model(run, model, all_cases)
    spec = []
    for c, a in zip(all_cases, all_impl):
        f, af = c.split("\t"), a.split("\t")
        if not a.startswith("ok"):
            res["spec_bad"].append((c, a, "fault"))
        elif f[0] == "optall" and af[1] != "[]":
            for ent in af[1].split(","):
                n, _, pg = ent.partition("=")
                p_, _, g_ = pg.partition("/")
                spec.append((c, a, "optspec\t%s\t%s\t%s" % (hexs(n.encode()), p_, g_)))
        elif f[0] == "optid" and af[1] != "-1":
            spec.append((c, a, "optspec\t%s\t%s\t%s" % (f[1], af[2], af[3])))
    so = run_model(run, model, [x[2] for x in spec]) if spec else []
    for (c, a, sl), r in zip(spec, so):
        if r != "ok":
            res["spec_bad"].append((c, a, sl))
    res["spec_bad"].sort(key=lambda x: 0 if x[0].startswith("optid") else 1)     # the single-name case is the smaller failing input
    res["mismatches"] = [(c, m, a) for c, m, a in zip(all_cases, mo, all_impl) if m != a]
    res["evaluations"] = len(all_cases)
    return res


# ------------------------------------------------------------------------------------ code outside the registries that depends on a feature switch
def codedep_stream(run, js, impl, universe, only=None):
    """For every non-registry source file that tests feature switches: preprocess it with the switches it tests set every way
    (everything else on).  More than one distinct text = the code a name runs there depends on a feature's enable switch.
    -> [dict(file, guards, cfg_a, cfg_b, used_by, own_only)]"""
    out = []
    for rel, gs in js.get("guard_mentions", []):
        if not rel.endswith(".c") or (only and rel != only):
            continue
        srcp = os.path.join(run.tree, rel)
        gs = [g for g in gs if g in universe]
        if len(gs) <= 4:
            subsets = [[g for i, g in enumerate(gs) if (m >> i) & 1] for m in range((1 << len(gs)) - 1, -1, -1)]
        else:
            subsets = [list(gs), []] + [[x for x in gs if x != g] for g in gs] + [[g] for g in gs]
        seen = {}
        for sub in subsets:
            defined = [x for x in universe if x not in gs or x in sub]
            d = impl.cfgdir(defined)
            t = impl.preprocessed(srcp, d)
            shutil.rmtree(d, ignore_errors=True)
            seen.setdefault(t, defined)
            if len(seen) > 1:
                break
        if len(seen) > 1:
            (ta, ca), (tb, cb) = list(seen.items())[:2]
            text = open(srcp, encoding="utf-8", errors="replace").read()
            syms = set(re.findall(r"^[A-Za-z_][\w \t\*]*?\b(snoopy_\w+)\s*\([^;{}]*\)\s*\{", text, re.M))
            used_by = []
            import glob as _g
            for f in sorted(_g.glob(os.path.join(run.tree, "src", "**", "*.c"), recursive=True)):
                if f == srcp:
                    continue
                tt = open(f, encoding="utf-8", errors="replace").read()
                for sy in sorted(syms):
                    if re.search(r"\b%s\s*\(" % re.escape(sy), tt):
                        used_by.append("%s calls %s" % (os.path.relpath(f, run.tree), sy))
            stem = os.path.basename(rel)[:-2]
            own = [g for g in gs if g.split("_ENABLED_")[1] in (stem, stem[:-6] if stem.endswith("output") else stem)]
            la, lb = ta.split("\n"), tb.split("\n")
            diff = [l for l in la if l.strip() and l not in lb][:3] + [l for l in lb if l.strip() and l not in la][:3]
            out.append({"file": rel, "guards": gs, "cfg_a": ca, "cfg_b": cb, "used_by": used_by, "own_only": own == gs and not used_by, "diff": diff})
    return out


def corpus_jobs(universe):
    """corpus/C13/*.txt -> [(label, defined, [case lines])], grouped by configuration"""
    d = os.path.join(VERIF, "corpus", "C13")
    groups = {}
    if os.path.isdir(d):
        for fn in sorted(os.listdir(d)):
            for line in open(os.path.join(d, fn)):
                line = line.rstrip("\n")
                if not line or line.startswith("#"):
                    continue
                f = line.split("\t")
                c = f[-1]
                if c == "@all" or c.startswith("@all-"):
                    off = c[5:].split("-") if c.startswith("@all-") else []
                    defined = [g for g in universe if g not in off]
                elif c == "[]":
                    defined = []
                else:
                    defined = c.split(",")
                groups.setdefault(tuple(defined), []).append("\t".join(f[:-1] + [glist(defined)]))
    return [("corpus-%d" % i, list(k), v) for i, (k, v) in enumerate(groups.items())]


def check(run):
    run.snapshot()
    js = tr_registry(run)
    ok, failed, log = run.coq_props(["Properties_C13.v"])
    model = build_model(run)
    chk = None
    if run.tier == "thorough" and ok:
        # independent re-check of the compiled property file (and everything it depends on) by coqchk
        chk = subprocess.Popen(["timeout", "900", "coqchk", "-silent", "-o", "-Q", THEORIES, "Snoopy", "-Q", run.gen, "Gen",
                                "-Q", os.path.join(run.scratch, "props"), "Props", "Props.Properties_C13"],
                               stdout=subprocess.PIPE, stderr=subprocess.STDOUT, text=True)
    universe = guard_universe(js)
    impl = Impl(run, js)
    impl.prepare(list(universe))
    prb = probes(js)
    cfgs = configurations(run, js, universe)
    sentinel = js["sentinel"] if js["sentinel"] is not None else ""

    corp = corpus_jobs(universe)
    jobs = corp + [(label, defined, config_cases(js, defined, prb, threads=label in ("all-on", "as-configured"))) for label, defined in cfgs]
    cfgs = [(l, d) for l, d, _ in corp] + cfgs

    def one(job):
        label, defined, lines = job
        ans, err = impl_answers(impl, js, defined, lines)
        return ans, err
    with ThreadPoolExecutor(WORKERS) as ex:
        results = list(ex.map(one, jobs))
    # model side: one process for everything
    all_lines = [l for _, _, lines in jobs for l in lines]
    gen_lines = generic_cases(run.rng, sentinel, 600 if run.tier == "quick" else 20000)
    mo = run_model(run, model, all_lines + gen_lines)
    # generic stream on the all-on binary
    d0 = impl.cfgdir(list(universe))
    exe0, err0 = impl.binary(d0)
    if exe0 is None:
        raise CheckError("all-on configuration does not build: %s" % err0)
    gen_ans = impl.run_cases(exe0, gen_lines)

    nv = 0
    seen_sig = set()
    n_eval = 0
    n_called = set()
    mism_arrays, mism_calls, nobuild = [], [], []
    spec_idx_all, spec_lines_all = [], []
    pos = 0
    per_cfg = []
    for (label, defined, lines), (ans, err) in zip(jobs, results):
        m = mo[pos:pos + len(lines)]
        per_cfg.append((label, defined, lines, ans, m, err))
        if err:
            nobuild.append((label, defined, err))
        si, sl = spec_lines(lines, ans)
        spec_idx_all += [(len(per_cfg) - 1, i) for i in si]
        spec_lines_all += sl
        pos += len(lines)
    so = run_model(run, model, spec_lines_all) if spec_lines_all else []
    spec_bad = {}
    for (ci, i), r in zip(spec_idx_all, so):
        if r != "ok":
            spec_bad.setdefault(ci, []).append(i)
    for ci, (label, defined, lines, ans, m, err) in enumerate(per_cfg):
        for i, (l, a, mm) in enumerate(zip(lines, ans, m)):
            n_eval += 1
            f = l.split("\t")
            if a == "nobuild":
                continue
            if (f[0] in ("byname", "byid", "dispatch", "dispatchs") and "\tcalled:" in a) or (f[0] in ("chain", "exec") and a.startswith("ok\tsnoopy")):
                n_called.add((label, f[1], f[0], f[2]))
            faulted = not a.startswith("ok") or "\tfault" in a or (f[0] == "threads" and a != mm)
            if faulted or i in spec_bad.get(ci, []):
                sig, text = classify_case(js, l, mm, a)
                if sig not in seen_sig:
                    seen_sig.add(sig)
                    seq = minimise(impl, js, defined, lines, i, a)
                    run.violation(sig, "sanitizer" if sig.startswith("fault") else "spec_violation",
                                  "%s [%s: %s]%s" % (text, label, describe(universe, defined),
                                                     "" if len(seq) == 1 else " (after %d earlier lookups in the same process, see cases)" % (len(seq) - 1)),
                                  {"stream": "config", "failing_input": {"configuration": describe(universe, defined), "defined": defined, "case": l,
                                                                         "implementation": a, "model": mm, "lookup_sequence": seq},
                                   "cases": seq})
                nv += 1
            elif a != mm:
                (mism_arrays if f[0] == "arrays" else mism_calls).append((label, defined, l, mm, a))
    # genericregistry stream
    gm = mo[pos:]
    gen_bad = [(l, m_, a) for l, m_, a in zip(gen_lines, gm, gen_ans) if m_ != a]
    n_eval += len(gen_lines)
    gen_fault = [(l, m_, a) for l, m_, a in gen_bad if not a.startswith("ok")]
    for l, m_, a in gen_fault[:1]:
        # every generated array contains the sentinel, so the C loops have a defined behaviour on it: a crash / sanitizer report is concrete
        run.violation("fault:generic", "sanitizer",
                      "snoopy_genericregistry_%s faulted on an array that contains the sentinel: case %s, implementation %s, model %s" % (l.split("\t")[0], l, a, m_),
                      {"stream": "generic", "failing_input": {"case": l, "implementation": a, "model": m_}, "cases": [l]})
        nv += 1
    # a configuration that cannot be built at all
    if nobuild and nv == 0 and not ok:
        label, defined, err = nobuild[0]
        run.violation("nobuild", "spec_violation",
                      "the registries do not compile in %d of %d configurations; first: %s (%s): %s" % (len(nobuild), len(cfgs), label, describe(universe, defined), err[-600:]),
                      {"stream": "config", "failing_input": {"configuration": describe(universe, defined), "defined": defined, "compiler": err[-1500:]},
                       "cases": ["arrays\tds\t" + glist(defined)]})
        nv += 1
    # code outside the registries whose text depends on a feature switch
    for cd in codedep_stream(run, js, impl, universe):
        n_eval += 1
        if cd["own_only"]:
            continue       # an implementation file testing only its own switch and used by nobody else: dead when off; the obligation reports it
        off = [g for g in universe if g not in cd["cfg_b"]]
        run.violation("spec:code-depends-on-switch", "spec_violation",
                      "%s compiles to different code depending on the feature switch(es) %s (e.g. with %s off: %s)%s: what the names served by this code run "
                      "changes with another feature's switch" % (cd["file"], ", ".join(cd["guards"])[:200], ", ".join(off)[:200] or "(none)", " / ".join(x.strip()[:80] for x in cd["diff"])[:300],
                                                                 ("; " + "; ".join(cd["used_by"][:3])) if cd["used_by"] else ""),
                      {"stream": "codedep", "failing_input": {"file": cd["file"], "switches": cd["guards"], "configuration_a": describe(universe, cd["cfg_a"]),
                                                               "configuration_b": describe(universe, cd["cfg_b"]), "differing_lines": cd["diff"], "used_by": cd["used_by"]},
                       "cases": ["codedep\t%s" % cd["file"]]})
        nv += 1
    # EXTENSION stream (option registry of configfile.c)
    ext = options_stream(run, js, model, impl)
    n_eval += ext["evaluations"]
    for c, a, sl in ext["spec_bad"][:1]:
        run.violation("ext:option-misbinding", "spec_violation" if a.startswith("ok") else "sanitizer",
                      "option registry of configfile.c: an option name does not select its own parser/getter: case %s -> %s" % (c, a),
                      {"stream": "options", "failing_input": {"case": c, "implementation": a}, "cases": [c]})
        nv += 1
    if ext["mismatches"] and not ext["spec_bad"] and nv == 0:
        c, m_, a = ext["mismatches"][0]
        run.violation("corr:options", "correspondence", "option registry: model and implementation differ on %d cases; first %s: model %s, implementation %s" % (len(ext["mismatches"]), c, m_, a),
                      {"stream": "options", "correspondence": "registry.options", "first_case": c, "model_output": m_, "impl_output": a, "cases": [c]})
    if ext["nobuild"]:
        run.notes.append("extension: configfile.c does not compile in %d of %d configurations of its guards (first: %s)" % (len(ext["nobuild"]), ext["configs"], ext["nobuild"][0][1][-200:]))
    if chk is not None:
        cout = chk.communicate()[0]
        axioms = re.search(r"\* Axioms:\s*(.*?)\n\s*\n", cout, re.S)
        if chk.returncode != 0:
            ok, failed = False, "coqchk"
            log += "\ncoqchk: " + cout[-1500:]
        else:
            run.notes.append("coqchk -o Props.Properties_C13: ok, axioms: %s" % (axioms.group(1).strip() if axioms else "?"))
    if nobuild and ok:
        run.notes.append("%d of %d configurations do not compile (first: %s: %s); the tables are aligned, so no configuration that builds can misbind: not a C13 verdict"
                         % (len(nobuild), len(cfgs), nobuild[0][0], nobuild[0][2][-300:]))
    if not ok and nv == 0:
        why = diagnose(js)
        run.violation("proof:%s" % failed, "proof", "proof obligation no longer checks: %s; %s\n%s" % (failed, "; ".join(why + run.notes)[:1500], log[-800:]),
                      {"theorem": failed, "coq_log": log[-3000:], "translator_notes": run.notes, "diagnosis": why})
    if gen_bad and not gen_fault and nv == 0:
        # e.g. "last match wins": differs from the model on arrays with duplicates, which the (duplicate-free) registries never are
        l, m_, a = gen_bad[0]
        run.violation("corr:generic", "correspondence",
                      "snoopy_genericregistry_* differs from the model (first match before the sentinel wins) on %d of %d generated arrays, while every lookup in the "
                      "real registries satisfied spec_C13_ok; first: %s -> implementation %s, model %s" % (len(gen_bad), len(gen_lines), l, a, m_),
                      {"stream": "generic", "correspondence": "registry.generic", "first_case": l, "model_output": m_, "impl_output": a, "cases": [l]})
    if (mism_arrays or mism_calls) and nv == 0:
        label, defined, l, mm, a = (mism_arrays or mism_calls)[0]
        stream = "arrays" if mism_arrays else "calls"
        run.violation("corr:" + stream, "correspondence",
                      "model and implementation differ on %d array / %d call cases although spec_C13_ok holds on the answers; first (%s): %s" % (len(mism_arrays), len(mism_calls), label, l),
                      {"stream": stream, "correspondence": "registry." + stream, "first_case": l, "model_output": mm, "impl_output": a, "cases": [l]})
    labels = {}
    for label, _ in cfgs:
        fam = "random" if label.startswith("random") else "corpus" if label.startswith("corpus") else label.split(":")[0]
        labels[fam] = labels.get(fam, 0) + 1
    sizes = sorted(len(d) for _, d in cfgs)
    run.coverage.update({
        "evaluations": n_eval, "distinct_nontrivial": len(n_called),
        "rule": "per build configuration (a config.h with exactly the chosen guard macros defined): gcc -E arrays of the three registry files, and the registries "
                "+ genericregistry.c linked against identity stubs, asked getCount, callById/getName for every id in [-2, rows+2) and INT_MIN/INT_MAX, "
                "callByName/doesNameExist/getIdFromName for every name of every table plus near misses, snoopy_outputregistry_dispatch with CFG->output set to each of these names (fresh pointer, and one fixed address with changing content), every table name asked of the three registries in a row, filter chains (all, reversed, rotations, repeats, unknown elements) walked by the snapshot's filtering.c with PASS-answering stubs, and snoopy_action_log_syscall_exec (log-syscall-exec.c + filtering.c + message.c + log-message-dispatch.c of the snapshot) with every registered filter / data source / output name in its real role; threads expanding their own %{name} concurrently (all-on, as-configured); configurations = all-on, all-off, as-configured, "
                "every single switch off, single switch on, seeded random subsets (densities 0.15/0.5/0.85/0.97); plus snoopy_genericregistry_* on generated arrays "
                "with duplicates/prefixes/early sentinels; non-trivial = distinct (configuration, registry, lookup) whose answer actually called an implementation",
        "samples": [per_cfg[i][2][j][:200] for i, j in ((0, 4), (1, 60), (min(5, len(per_cfg) - 1), 80), (len(per_cfg) - 1, 100)) if j < len(per_cfg[i][2])] + gen_lines[:1],
        "distribution": {"configurations": len(cfgs), "corpus_cases": sum(len(v) for _, _, v in corp), "by_family": labels, "switches": len(universe),
                         "defined_switches_min_median_max": [sizes[0], sizes[len(sizes) // 2], sizes[-1]],
                         "rows": {k: [len(js["registries"][k]["names"]), len(js["registries"][k]["ptrs"])] for k in KEYS},
                         "probe_names": len(prb), "generic_cases": len(gen_lines), "generic_mismatches": len(gen_bad),
                         "array_mismatches": len(mism_arrays), "call_mismatches": len(mism_calls),
                         "spec_failures": sum(len(v) for v in spec_bad.values()), "configurations_not_building": len(nobuild),
                         "extension_option_registry": {"configurations": ext["configs"], "cases": ext["evaluations"], "mismatches": len(ext["mismatches"]), "spec_failures": len(ext["spec_bad"])}},
        "traces_validated_against_impl": n_eval - len(mism_arrays) - len(mism_calls) - len(gen_bad) - len(ext["mismatches"]),
    })
    return run.finish(
        level="proof",
        trusted_base=["Coq 8.16.1 kernel + vm_compute (gen_ok)", "vlib/tr_registry.py (lexer-level reading of the three registry files, genericregistry.c, configure.ac, build/snoopy.m4, config.h.in), "
                      "validated per configuration against gcc -E and against the compiled registries",
                      "extraction: ExtrOcamlBasic only, per run, containing the regenerated tables; ocaml/drv_registry.ml; harness/impl_registry.c + generated identity stubs",
                      "gcc preprocessor/compiler as the meaning of #ifdef"],
        assumptions=["a build configuration is an assignment of defined/undefined to the guard macros, realised through config.h as ./configure does; macros defined on the compiler command line or by other headers are outside the model "
                     "(the gcc -E comparison would show them for the configurations tried)",
                     "the implementation symbol is the identity of an implementation (what the symbol's body does is C12's subject)"])


def replay(run, path):
    rep = json.load(open(path))
    cases = rep.get("cases") or []
    if not cases:
        print("replay file has no cases (proof-only violation): re-run ./check C13 quick")
        return 1
    run.snapshot()
    js = tr_registry(run)
    # same instantiation of the model as in the run that wrote the replay: if the obligations do not hold on this tree the
    # verified reference tables are used (vlib/core.py fallback_to_reference), otherwise the regenerated ones
    ok, failed, _ = run.coq_props(["Properties_C13.v"])
    if not ok:
        print("note: %s does not hold on this tree; the model is instantiated with the reference tables" % failed)
    model = build_model(run)
    universe = guard_universe(js)
    impl = Impl(run, js)
    impl.prepare(list(universe))
    bad = 0
    for l in [l for l in cases if l.startswith("codedep")]:
        rel = l.split("\t")[1]
        res = codedep_stream(run, js, impl, universe, only=rel)
        print("case: ", l)
        if res and not res[0]["own_only"]:
            print(" %s: different code for %s vs %s: %s" % (rel, describe(universe, res[0]["cfg_a"]), describe(universe, res[0]["cfg_b"]), " / ".join(x.strip()[:80] for x in res[0]["diff"])))
            print(" -> SPEC-VIOLATION (code depends on a feature switch)")
            bad += 1
        else:
            print(" -> ok")
    cases = [l for l in cases if not l.startswith("codedep")]
    if any(l.startswith("opt") for l in cases):
        ext = options_stream(run, js, model, impl)
        for c, a, sl in ext["spec_bad"]:
            print("case: ", c[:300])
            print(" impl: ", a[:600])
            print(" -> SPEC-VIOLATION (own parser/getter)")
            bad += 1
        for c, m_, a in ext["mismatches"]:
            if not any(c == x[0] for x in ext["spec_bad"]):
                print("case: ", c[:300]); print(" model:", m_[:300]); print(" impl: ", a[:300]); print(" -> DIFFERS")
                bad += 1
        if not ext["spec_bad"] and not ext["mismatches"]:
            print("option registry: %d cases in %d configurations -> ok" % (ext["evaluations"], ext["configs"]))
        cases = [l for l in cases if not l.startswith("opt")]
    # consecutive cases of one configuration are run in ONE process, in the stored order (lookup sequences matter for
    # anything that remembers an earlier lookup)
    groups = []
    for l in cases:
        f = l.split("\t")
        key = "generic" if f[0].startswith("g") else f[-1]
        if groups and groups[-1][0] == key:
            groups[-1][1].append(l)
        else:
            groups.append((key, [l]))
    for key, lines in groups:
        ms = run_model(run, model, lines)
        if key == "generic":
            d = impl.cfgdir(list(universe))
            exe, err = impl.binary(d)
            answers = impl.run_cases(exe, lines) if exe else ["nobuild"] * len(lines)
            err = None
        else:
            defined = [] if key == "[]" else key.split(",")
            answers, err = impl_answers(impl, js, defined, lines)
            print("configuration:", describe(universe, defined))
        si, sl = spec_lines(lines, answers)
        so = dict(zip(si, run_model(run, model, sl))) if sl else {}
        for i, (l, m, a) in enumerate(zip(lines, ms, answers)):
            f = l.split("\t")
            verdict = "ok"
            if a == "nobuild" or err:
                verdict = "DOES-NOT-BUILD: " + (err or "")[-400:].replace("\n", " ")
            elif not a.startswith("ok") or "\tfault" in a:
                verdict = "FAULT"
            elif so.get(i, "ok") != "ok" or (f[0] == "threads" and a != m):
                verdict = "SPEC-VIOLATION"
            elif a != m:
                verdict = "DIFFERS"
            print("case: ", l[:300])
            print(" model:", m[:300])
            print(" impl: ", a[:300])
            print(" ->", verdict)
            if verdict != "ok":
                bad += 1
    run.cleanup()
    return 1 if bad else 0
