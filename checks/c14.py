"""C14 — UID filters decide by exact membership of the real uid.

proof:  coq/props/Properties_C14.v over Gen_Filter.v (T1 + clang AST: csv delimiter, id query, conversion function and the
        chain of C casts of only_uid.c / exclude_uid.c / only_root.c, sizeof(long), sizeof(uid_t)).
tie:    T3 differential run of the extracted model against snoopy_filter_only_uid / exclude_uid / only_root /
        snoopy_filtering_check_chain / csvToArgList built from the snapshot (ASan+UBSan), each case in a worker that has
        setresuid()'d to the wanted REAL uid with an unrelated EFFECTIVE uid; the extracted spec (membership of the real
        uid, complement, independence of the effective uid) is evaluated on every implementation verdict.
"""
import json, os
from vlib.core import hexs, hexlist, unhex, corr_stream, VERIF, CheckError
from vlib.tr_filter import tr_filter
from vlib.filt import AREA, UIDS, build_impl, probe, uid_list, malformed_list, near_misses, numeral, shrink_list, FAST_ASAN

EUIDS = [0, 7, 1000, 65534, 2 ** 32 - 2]
HIGH_UIDS = [2 ** 32 - 10, 2 ** 32 - 6, 2 ** 32 - 3]      # the top of the uid range (2^32-1 is not a uid), fewer lists each
NEUTRAL = b"exclude_spawns_of:nosuchproc9,nosuchproc8;"      # passes in every process tree of the harness
ERRNOS = [34, 22]                                        # ERANGE, EINVAL: what the host program may have left in errno


def corpus_cases():
    d = os.path.join(VERIF, "corpus", "C14")
    out = []
    if os.path.isdir(d):
        for f in sorted(os.listdir(d)):
            for line in open(os.path.join(d, f)):
                line = line.rstrip("\n")
                if line and not line.startswith("#"):
                    out.append(line)
    return out


def other_euid(rng, r):
    return rng.choice([e for e in EUIDS if e != r])


def gen_cases(rng, tier):
    """returns (cases, meta); meta[i] = dict(kind, uid, n, include)"""
    per_uid_full = 250 if tier == "quick" else 2200
    cases, meta = [], []

    def add(line, **m):
        cases.append(line)
        meta.append(m)
    for r in UIDS + HIGH_UIDS:
        per_uid = per_uid_full if r in UIDS else max(10, per_uid_full // 6)
        e1 = other_euid(rng, r)
        add("uidf\troot\t%d\t%d\t%s" % (r, r, hexs(b"ignored")), kind="root", uid=r)
        # every effective uid in turn: only_root, and the list that names exactly the EFFECTIVE uid
        for e in EUIDS:
            add("uidf\troot\t%d\t%d\t-" % (r, e), kind="root", uid=r)
            if e != r:
                for w in ("only", "exclude"):
                    add("uidf\t%s\t%d\t%d\t%s" % (w, r, e, hexs(b"%d" % e)), kind="wf", uid=r, n=1, include=False)
                    add("uidf\t%s\t%d\t%d\t%s" % (w, r, e, hexs(b"%d,%d" % (e, r))), kind="wf", uid=r, n=2, include=True)
        add("full\t%d\t%d\t0\t%s" % (r, e1, hexs(b"only_root")), kind="chain", uid=r)
        # the list changed between two evaluations in one address space (the argument sits at the same address inside the chain copy)
        for w in (b"only_uid:", b"exclude_uid:"):
            for A, B in ((b"%d,7" % r, b"%d,7" % (r ^ 1)), (b"%d" % (r ^ 1), b"%d" % r), (b"5,%d,6" % r, b"5,%d,6" % (r ^ 2))):
                add("full\t%d\t%d\t0\t%s" % (r, e1, hexs(w + A)), kind="chain", uid=r)
                add("full\t%d\t%d\t0\t%s" % (r, e1, hexs(w + B)), kind="chain", uid=r)
        # single numerals, near misses one by one (prefixes / suffixes / +-1 / 2^31 apart)
        for v in [r] + near_misses(r):
            for w in ("only", "exclude"):
                add("uidf\t%s\t%d\t%d\t%s" % (w, r, e1, hexs(b"%d" % v)), kind="wf", uid=r, n=1, include=(v == r))
        # the same decisions with a stale errno of the host program
        for v in [r, r + 1 if r + 1 < 2 ** 32 else r - 1]:
            for w in ("only", "exclude"):
                for en in ERRNOS:
                    add("uidf\t%s\t%d\t%d\t%s\t%d" % (w, r, e1, hexs(b"%d" % v), en), kind="wf", uid=r, n=1, include=(v == r))
        for k in range(per_uid):
            n = rng.choice([1, 1, 2, 3, 5, 10, 50, 127, 128, 129, 199, 200, 255, 256, 257, 300, 520]) if k % 4 else rng.randrange(1, 201)
            inc = rng.random() < 0.5
            L = uid_list(rng, r, n, inc)
            e = other_euid(rng, r) if rng.random() < 0.8 else r
            for w in ("only", "exclude"):
                add("uidf\t%s\t%d\t%d\t%s" % (w, r, e, hexs(L)), kind="wf", uid=r, n=L.count(b",") + 1, include=inc)
            if k % 5 == 1:
                for w in ("only", "exclude"):
                    add("uidf\t%s\t%d\t%d\t%s\t%d" % (w, r, e, hexs(L), ERRNOS[k % 2]), kind="wf", uid=r, n=L.count(b",") + 1, include=inc)
            if k % 4 == 0:
                # the same decision under another effective uid, and through the chain
                e2 = rng.choice([x for x in EUIDS if x not in (r, e)])
                for w in ("only", "exclude"):
                    add("uidf\t%s\t%d\t%d\t%s" % (w, r, e2, hexs(L)), kind="wf", uid=r, n=L.count(b",") + 1, include=inc)
                if len(L) < 850:
                    # ... also behind a passing filter with a longer name and an argument (the uid filter must still be found)
                    add("full\t%d\t%d\t0\t%s" % (r, e, hexs(NEUTRAL + b"only_uid:" + L)), kind="chain", uid=r)
                    add("full\t%d\t%d\t0\t%s" % (r, e, hexs(NEUTRAL + b"exclude_uid:" + L)), kind="chain", uid=r)
                if len(L) < 900:
                    add("full\t%d\t%d\t0\t%s" % (r, e, hexs(b"only_uid:" + L)), kind="chain", uid=r)
                    add("full\t%d\t%d\t0\t%s" % (r, e, hexs(b"exclude_uid:" + L)), kind="chain", uid=r)
        for k in range(max(8, per_uid // 6)):
            M = malformed_list(rng, r)
            if b"\x00" in M:
                continue
            e = other_euid(rng, r)
            for w in ("only", "exclude"):
                add("uidf\t%s\t%d\t%d\t%s" % (w, r, e, hexs(M)), kind="malformed", uid=r)
                if k % 3 == 0:
                    add("uidf\t%s\t%d\t%d\t%s\t%d" % (w, r, e, hexs(M), ERRNOS[0]), kind="malformed", uid=r)
            add("csv\t%s" % hexs(M), kind="csv", uid=r)
    # entries spread over the whole uid range, in every order (a sort / search by subtraction, a truncating comparison ...)
    import itertools
    pool = [0, 1000, 2 ** 31 - 1, 2 ** 31, 2 ** 31 + 1000, 2 ** 32 - 2]
    for r in (0, 1000, 2 ** 31, 2 ** 32 - 2):
        e = other_euid(rng, r)
        for perm in itertools.permutations(pool, 3):
            L = b",".join(b"%d" % v for v in perm)
            for w in ("only", "exclude"):
                add("uidf\t%s\t%d\t%d\t%s" % (w, r, e, hexs(L)), kind="wf", uid=r, n=3, include=(r in perm))
        for k in range(12 if tier == "quick" else 200):
            perm = list(pool) + [rng.randrange(0, 2 ** 32) for _ in range(rng.choice([0, 2, 9]))]
            rng.shuffle(perm)
            L = b",".join(b"%d" % v for v in perm)
            for w in ("only", "exclude"):
                add("uidf\t%s\t%d\t%d\t%s" % (w, r, e, hexs(L)), kind="wf", uid=r, n=len(perm), include=(r in perm))
    # one and the same list under every real uid in turn (a decision must not survive from the previous call)
    for k in range(6 if tier == "quick" else 60):
        members = rng.sample(UIDS, rng.choice([1, 2, 4]))
        L = b",".join(numeral(rng, v) for v in members + [rng.randrange(0, 2 ** 32) for _ in range(rng.choice([0, 3, 30]))])
        for w in ("only", "exclude"):
            for r in UIDS + UIDS[::-1]:
                add("uidf\t%s\t%d\t%d\t%s" % (w, r, other_euid(rng, r), hexs(L)), kind="wf", uid=r, n=L.count(b",") + 1, include=(r in members))
    for k in range(60 if tier == "quick" else 2000):
        raw = bytes(rng.choice(b"01a,,, ") for _ in range(rng.choice([0, 1, 2, 3, 7, 30, 300])))
        add("csv\t%s" % hexs(raw), kind="csv", uid=0)
    return cases, meta


def spec_line(cf, rf):
    if cf[0] == "uidf" and len(rf) > 1 and rf[1] in ("P", "D"):
        return "\t".join(["spec14", cf[1], cf[2], cf[4], rf[1]])
    if cf[0] == "full" and len(rf) > 1 and rf[1] in ("P", "D"):
        # a chain that consists of one uid filter decides as that filter
        ch = unhex(cf[4]) or b""
        if ch.startswith(NEUTRAL):
            ch = ch[len(NEUTRAL):]
        for w, pre in (("only", b"only_uid:"), ("exclude", b"exclude_uid:")):
            if ch.startswith(pre) and b";" not in ch:
                return "\t".join(["spec14", w, cf[1], hexs(ch[len(pre):]), rf[1]])
        if ch == b"only_root":
            return "\t".join(["spec14", "root", cf[1], "-", rf[1]])
    return None


def fails(run, exe, case):
    seq = case if isinstance(case, list) else [case]
    r = corr_stream(run, AREA, exe, seq, spec_line=spec_line, stream="shrink", impl_env=FAST_ASAN)
    return bool(r["spec_bad"] or r["faults"])


def reproduce(run, exe, cases, i):
    """the case alone (minimised) when it fails alone; otherwise the shortest run of preceding cases of the same stream that
    makes it fail again in one process (a decision that depends on earlier calls)"""
    if exe is None:
        return [cases[i]]
    if fails(run, exe, cases[i]):
        return [minimise(run, exe, cases[i])]
    for k in (1, 2, 4, 8, 16, 64, 256, i):
        seq = cases[max(0, i - k): i + 1]
        if fails(run, exe, seq):
            return seq
        if k >= i:
            break
    return [cases[i]]


def minimise(run, exe, case):
    """fewest list entries (and shortest numerals) on which the implementation still breaks the specification"""
    f = case.split("\t")
    if f[0] != "uidf" or f[1] == "root" or exe is None:
        return case
    items = (unhex(f[4]) or b"").split(b",")
    mk = lambda its: "\t".join(f[:4] + [hexs(b",".join(its))] + f[5:])
    items = shrink_list(items, lambda its: fails(run, exe, mk(its)))
    stripped = [it.lstrip(b"0") or b"0" for it in items]
    if stripped != items and fails(run, exe, mk(stripped)):
        items = stripped
    return mk(items)


def classify(run, res, cases, stream, exe=None):
    nv = 0
    shrunk = set()
    for (i, c, impl, sp) in res["spec_bad"]:
        f = c.split("\t")
        if f[0] == "full":
            seq = [c]
            if "chain" not in shrunk:
                shrunk.add("chain")
                seq = reproduce(run, exe, cases, i)
            run.violation("spec:chain-of-one-uid-filter", "spec_violation", "the chain %r under real uid %s (effective %s) decided %s: not the membership of the real uid%s"
                          % ((unhex(f[4]) or b"")[:120], f[1], f[2], impl.split("\t")[1],
                             " (as the last of %d calls in one process; the one before: %r)" % (len(seq), (unhex(seq[-2].split("\t")[4]) or b"")[:80]) if len(seq) > 1 else ""),
                          {"stream": stream, "failing_input": c, "impl_output": impl, "model_output": res["model"][i], "cases": seq})
            nv += 1
            continue
        sig = "spec:%s-membership" % f[1]
        seq = [c]
        if sig not in shrunk and len(shrunk) < 4:
            shrunk.add(sig)
            seq = reproduce(run, exe, cases, i)
            c = seq[-1]
            f = c.split("\t")
        arg = unhex(f[4]) or b""
        run.violation("spec:%s-membership" % f[1], "spec_violation",
                      "%s under real uid %s (effective %s) answered %s for the list %r: not the membership of the real uid"
                      % ({"only": "only_uid", "exclude": "exclude_uid", "root": "only_root"}[f[1]], f[2], f[3], impl.split("\t")[1], arg[:120])
                      + (" (as the last of %d calls in one process)" % len(seq) if len(seq) > 1 else ""),
                      {"stream": stream, "failing_input": c, "impl_output": impl, "model_output": res["model"][i], "cases": seq})
        nv += 1
    for (i, c, impl) in res["faults"]:
        sig = "fault:%s" % impl.split("\t")[0]
        seq = [c]
        if sig not in shrunk and len(shrunk) < 4:
            shrunk.add(sig)
            seq = reproduce(run, exe, cases, i)
            c = seq[-1]
        run.violation(sig, "sanitizer", "implementation faulted (%s) on %s" % (impl, "\t".join(c.split("\t")[:4]) + "\t" + repr((unhex(c.split("\t")[4] if len(c.split("\t")) > 4 else c.split("\t")[-1]) or b"")[:80]))
                      + (" (as the last of %d calls in one process)" % len(seq) if len(seq) > 1 else ""),
                      {"stream": stream, "failing_input": c, "impl_output": impl, "model_output": res["model"][i], "cases": seq})
        nv += 1
    # complement and independence of the effective uid, on the implementation's verdicts
    by, by_errno = {}, {}
    for c, o in zip(cases, res["impl"]):
        f = c.split("\t")
        if f[0] == "uidf" and o.startswith("ok\t"):
            if len(f) == 5:
                by.setdefault((f[2], f[4]), {}).setdefault(f[1], {})[f[3]] = o.split("\t")[1]
            by_errno.setdefault((f[1], f[2], f[3], f[4]), {})[f[5] if len(f) > 5 else "0"] = o.split("\t")[1]
    # the host program's errno must not influence a decision (any argument, well formed or not)
    nerr = 0
    for (w, r, e, arg), d in by_errno.items():
        if len(set(d.values())) > 1 and nerr < 3:
            nerr += 1
            en = sorted(d, key=lambda x: (x == "0", x))
            cs = ["uidf\t%s\t%s\t%s\t%s%s" % (w, r, e, arg, "" if x == "0" else "\t" + x) for x in (en[-1], en[0])]
            run.violation("spec:errno-dependence", "spec_violation", "%s under real uid %s decides %s on the argument %r depending on the value errno had before the call"
                          % ({"only": "only_uid", "exclude": "exclude_uid", "root": "only_root"}[w], r, sorted(d.items()), (unhex(arg) or b"")[:120]),
                          {"stream": stream, "failing_input": cs[1], "cases": cs})
            nv += 1
    pairs, idx = [], []
    for (r, arg), d in by.items():
        for w, per_e in d.items():
            if len(set(per_e.values())) > 1:
                e_a, e_b = sorted(per_e)[:2]
                cs = ["uidf\t%s\t%s\t%s\t%s" % (w, r, e, arg) for e in (e_a, e_b)]
                run.violation("spec:effective-uid", "spec_violation", "%s under real uid %s decides differently for effective uids %s" % (w, r, sorted(per_e.items())),
                              {"stream": stream, "failing_input": cs[0], "cases": cs})
                nv += 1
        if "only" in d and "exclude" in d:
            for e in d["only"]:
                if e in d["exclude"]:
                    pairs.append("compl\t%s\t%s" % (d["only"][e], d["exclude"][e]))
                    idx.append((r, e, arg))
    if pairs:
        pp = os.path.join(run.scratch, "c14-compl-%s.txt" % stream)
        open(pp, "w").write("".join(p + "\n" for p in pairs))
        so = run.run_model(AREA, pp, pp + ".out")
        for k, o in enumerate(so):
            if o != "ok":
                r, e, arg = idx[k]
                cs = ["uidf\t%s\t%s\t%s\t%s" % (w, r, e, arg) for w in ("only", "exclude")]
                run.violation("spec:complement", "spec_violation", "only_uid and exclude_uid agree (%s) under real uid %s on the argument %r" % (pairs[k].split("\t")[1], r, (unhex(arg) or b"")[:120]),
                              {"stream": stream, "failing_input": cs[0], "cases": cs})
                nv += 1
    return nv, len(pairs)


def check(run):
    run.snapshot()
    tr_filter(run)
    ok, failed, log = run.coq_props(["Properties_C14.v"])
    exe = build_impl(run)
    probe(run, exe)
    corp = corpus_cases()
    cases, meta = gen_cases(run.rng, run.tier)
    # a smoke stage first: when the implementation faults on a large share of it the full stream is pointless (and slow)
    smoke = corp + cases[:: max(1, len(cases) // 300)]
    res = corr_stream(run, AREA, exe, smoke, spec_line=spec_line, stream="smoke", impl_env=FAST_ASAN)
    if len(res["faults"]) > 20:
        allcases = smoke
        run.notes.append("the implementation faulted on %d of %d smoke cases; the full stream was skipped" % (len(res["faults"]), len(smoke)))
    else:
        allcases = corp + cases
        res = corr_stream(run, AREA, exe, allcases, spec_line=spec_line, stream="uid", impl_env=FAST_ASAN)
    nv, npairs = classify(run, res, allcases, "uid", exe)
    # concurrent callers (impl only): each thread evaluates its own one-filter chain over and over; every decision must equal the
    # one the same chain gets alone (C14_real_uid: a function of the real uid and the list, nothing else)
    mt = {"cases": 0}
    if len(res["faults"]) <= 20:
        rng2 = run.rng
        iters = 600 if run.tier == "quick" else 5000
        mtc = []
        for r in (0, 1000, 2 ** 32 - 2):
            A = uid_list(rng2, r, 200, False) + b",%d" % r            # the uid is the last of 201 entries
            B = uid_list(rng2, r, 150, False)
            C = b",".join(b"%d" % (r + 1 if r < 2 ** 32 - 2 else 7) for _ in range(80)) + b",%d,12" % r
            mtc.append("mt\t%d\t7\t0\t%d\t%s" % (r, iters, hexlist([b"only_uid:" + A[:900].rsplit(b",", 1)[0] + b",%d" % r, b"exclude_uid:" + B[:900].rsplit(b",", 1)[0]])))
            mtc.append("mt\t%d\t7\t0\t%d\t%s" % (r, iters, hexlist([b"exclude_uid:" + C, b"only_uid:" + B[:900].rsplit(b",", 1)[0], b"only_uid:" + C, b"only_root"])))
        d = os.path.join(run.scratch, "mt")
        os.makedirs(d, exist_ok=True)
        cp = os.path.join(d, "cases.txt")
        open(cp, "w").write("".join(c + "\n" for c in mtc))
        outs = run.run_impl(exe, cp, os.path.join(d, "impl.out"), env=FAST_ASAN)
        for c, o in zip(mtc, outs):
            f = c.split("\t")
            chains = [unhex(x) or b"" for x in f[5].split(",")]
            if not o.startswith("ok\t"):
                run.violation("fault:%s" % o.split("\t")[0], "sanitizer", "implementation faulted (%s) with %d threads evaluating uid filters concurrently under real uid %s" % (o, len(chains), f[1]),
                              {"stream": "mt", "failing_input": c, "impl_output": o, "cases": [c]})
                nv += 1
                continue
            bad = [(chains[i], x) for i, x in enumerate(o.split("\t")[1].split(",")) if x[1:] != "0"]
            if bad:
                ch, x = bad[0]
                run.violation("mt:decision-changes-under-concurrency", "spec_violation",
                              "%r decides %s alone under real uid %s, but %s of %d evaluations decided otherwise while %d other thread(s) evaluated other lists"
                              % (ch[:100], "pass" if x[0] == "P" else "drop", f[1], x[1:], iters, len(chains) - 1),
                              {"stream": "mt", "failing_input": c, "impl_output": o, "cases": [c]})
                nv += 1
        mt = {"cases": len(mtc), "iterations": iters}
    if not ok and nv == 0:
        run.violation("proof:%s" % failed, "proof", "proof obligation no longer checks: %s; %s\n%s" % (failed, "; ".join(n for n in run.notes if n.startswith("translator") or n.startswith("skeleton")) or "the translator recognised every statement (the regenerated constants themselves violate the side condition)", log[-1500:]),
                      {"theorem": failed, "coq_log": log[-3000:], "translator_notes": [n for n in run.notes if n.startswith("translator") or n.startswith("skeleton")]})
    # one-filter chains go through C07's chain model: where that model has no valid constants for this tree only the specification judges them
    cp = os.path.join(run.scratch, "c14-chainok.txt")
    open(cp, "w").write("chainok\n")
    if run.run_model(AREA, cp, cp + ".out") != ["ok\t1"]:
        run.notes.append("chain constants not recognised on this tree (C07's subject): one-filter chains judged by the specification only")
        res["mismatch"] = [x for x in res["mismatch"] if not x[1].startswith("full\t")]
    if res["mismatch"] and nv == 0:
        i, c, m, im = res["mismatch"][0]
        run.violation("corr:uid", "correspondence", "model and implementation differ on %d of %d cases although the specification holds on the implementation's verdicts" % (len(res["mismatch"]), len(allcases)),
                      {"stream": "uid", "correspondence": "filter.uid", "first_case": c, "model_output": m, "impl_output": im, "cases": [c]})
    wf = [(c, m) for c, m in zip(cases, meta) if m["kind"] == "wf"]
    distinct = len(set(c for c, m in wf if m["n"] >= 2))
    run.coverage.update({
        "evaluations": len(allcases), "distinct_nontrivial": distinct,
        "rule": "per real uid in %s and (fewer lists) 2^32-10, 2^32-6, 2^32-3 (effective uid unrelated; a share of the cases with errno preset to ERANGE / EINVAL): the uid itself and each near miss (uid+-1, decimal prefixes and suffixes, x10, +2^31) as one-element lists; "
                "well-formed lists of 1..520 numerals (leading zeros, duplicates, any order) with and without the uid; the same list under a second effective uid and inside a chain; "
                "malformed lists for complement / crash freedom; csvToArgList on random strings; non-trivial = distinct well-formed case with >= 2 entries" % UIDS,
        "samples": [c[:300] for c in allcases[:: max(1, len(allcases) // 5)]][:5],
        "distribution": {"uids": UIDS, "corpus_cases": len(corp), "kinds": {k: sum(1 for m in meta if m["kind"] == k) for k in ("wf", "malformed", "root", "chain", "csv")},
                         "listed": sum(1 for c, m in wf if m["include"]), "not_listed": sum(1 for c, m in wf if not m["include"]), "max_entries": max([m["n"] for c, m in wf] or [0]),
                         "complement_pairs": npairs, "concurrent": mt, "mismatches": len(res["mismatch"]), "spec_failures": len(res["spec_bad"]), "impl_faults": len(res["faults"])},
        "traces_validated_against_impl": len(allcases) - len(res["mismatch"]),
    })
    return run.finish(
        level="proof",
        trusted_base=["Coq 8.16.1 kernel + vm_compute (gen_ok)", "vlib/tr_filter.py (regex over filtering.c/parser.c, gcc -E over filterregistry.c, clang AST of the uid filters)",
                      "extraction: ExtrOcamlBasic only; ocaml/common.ml + drv_filter.ml; harness/impl_filter.c (setresuid per case)"],
        assumptions=["strtol/atol semantics as in Filter/Model.v (C locale isspace, optional sign, digit run, saturation at LONG_MAX/LONG_MIN)",
                     "conversion of an out-of-range long to a 32-bit integer type reduces modulo 2^32 (gcc, implementation-defined in ISO C)",
                     "getuid() returns the real uid of the process"])


def replay(run, path):
    rep = json.load(open(path))
    run.snapshot()
    tr_filter(run)
    exe = build_impl(run)
    cases = rep.get("cases") or []
    if not cases:
        print("proof-only violation (%s): re-run ./check C14 quick" % rep.get("theorem"))
        run.cleanup()
        return 1
    mtc = [c for c in cases if c.startswith("mt\t")]
    cases = [c for c in cases if not c.startswith("mt\t")]
    mt_bad = 0
    if mtc:
        p = os.path.join(run.scratch, "replay-mt.txt")
        open(p, "w").write("".join(c + "\n" for c in mtc))
        for attempt in range(3):          # a race: a few attempts
            outs = run.run_impl(exe, p, p + ".out", env=FAST_ASAN)
            for c, o in zip(mtc, outs):
                print("case:", "\t".join(c.split("\t")[:5]), [(unhex(x) or b"")[:60] for x in c.split("\t")[5].split(",")], "\n impl: ", o)
            if any((not o.startswith("ok\t")) or any(x[1:] != "0" for x in o.split("\t")[1].split(",")) for o in outs):
                mt_bad = 1
                break
        if not cases:
            run.cleanup()
            return mt_bad
    res = corr_stream(run, AREA, exe, cases, spec_line=spec_line, stream="replay", impl_env=FAST_ASAN)
    for i, c in enumerate(cases):
        f = c.split("\t")
        print("case:", "\t".join(f[:4]), (unhex(f[4]) or b"")[:200] if len(f) > 4 and f[0] != "csv" else "")
        print(" model:", res["model"][i][:200])
        print(" impl: ", res["impl"][i][:200])
    nv, _ = classify(run, res, cases, "replay")
    print("spec failures: %d, faults: %d, mismatches: %d" % (len(res["spec_bad"]), len(res["faults"]), len(res["mismatch"])))
    run.cleanup()
    return 1 if nv or res["mismatch"] or mt_bad else 0
