"""C15 — exclude_spawns_of drops exactly descendants of listed programs.

proof:   coq/props/Properties_C15.v over Gen_Spawns.v regenerated from src/filter/exclude_spawns_of.c (T1: buffer sizes,
         fread length, length window, format strings, delimiter, parentheses and the searches that find them, start pid
         query, loop condition, comparison, verdict mapping).
tie:     T3 two ways.
         (a) function level, synthetic /proc: snoopy_filter_exclude_spawns_of from the snapshot's objects (ASan+UBSan)
             with fopen/open/getppid/getpid wrapped at link time, generated process tables (kernel-form stat texts,
             error injection at every level, window/boundary texts, wild texts), lists of 0..50 names with duplicates,
             empty items, prefixes/extensions; compared with the extracted model (verdict + sequence of pids opened);
             the extracted spec_C15_ok is evaluated on the implementation's verdict against the generator's abstract
             process table (no parsing involved).
         (b) real chains: fork chains of depth 1..12 named with prctl(PR_SET_NAME), the filter run at the bottom on the
             real /proc; the bytes the harness itself read from /proc/<pid>/stat go to the model (verdict compared),
             the names/parents it read from /proc/<pid>/comm and /proc/<pid>/status go to spec_C15_ok, and the stat
             bytes are checked against render_stat (the rendering assumption of C15_stat_roundtrip) and parse_stat.
"""
import os, json, re
from vlib.core import hexs, hexlist, unhex, corr_stream, VERIF, CheckError
from vlib.tr_spawns import tr_spawns

AREA = "spawns"
WRAP = ["-Wl,--wrap=fopen", "-Wl,--wrap=fopen64", "-Wl,--wrap=open", "-Wl,--wrap=open64", "-Wl,--wrap=getppid", "-Wl,--wrap=getpid"]


# ------------------------------------------------------------------------------------------------ names
def name_pool(rng, cm):
    fixed = [b"cron", b"crond", b"cro", b"sh", b"bash", b"a", b"ab", b"abc", b"a b", b" a", b"a ", b"(sd-pam)", b"x) S 1 (", b")", b"(",
             b"))((", b") R 0 (z)", b"123456789012345", b"(2345 789) 1234", b"aaaaaaaaaaaaaaa", b"aaaaaaaaaaaaaa", b"kworker/0:1-eve",
             b"\xff\xfe\x80", b"nl\nx", b"t\tb", b"a,b", b"x;y", b"%{x}", b"sshd: user@pts/", b"1", b"0", b"S", b"S 1", b") S 0"]
    fixed += [b" ", b"  ", b" cron", b"cron ", b"  sh", b"my shell", b"my"]             # blanks: leading, trailing, only
    fixed += [b"a%%b", b"%s%s%s", b"100%d", b"%n", b"50%", b"%5$s"]                    # printf directives are ordinary bytes
    for L in range(1, 16):                                                             # every length the kernel can hand out
        fixed.append(bytes(rng.choice(b"abcdefghijklmnopqrstuvwxyz_-") for _ in range(L)))
    for L in (cm - 2, cm - 1):
        if L > 0:
            fixed.append(bytes(rng.choice(b"abcdefgh ()") for _ in range(L)))
    return fixed


def tail(rng):
    nums = [rng.randrange(0, 40000) for _ in range(3)] + [-1, 4194304] + [rng.randrange(0, 10 ** rng.choice([1, 3, 6, 10])) for _ in range(rng.choice([3, 20, 30]))]
    return b" " + b" ".join(str(x).encode() for x in nums) + b"\n"


def render(pid, comm, st, ppid, rest):
    return str(pid).encode() + b" (" + comm + b") " + st + b" " + str(ppid).encode() + rest


def make_list(rng, want, decoys, nmax=50):
    """items (bytes) of an argument: `want` names that must be present, decoys, empty items, duplicates"""
    k = rng.choice([0, 1, 1, 2, 3, 3, 5, 8, 20, nmax])
    items = list(want)
    while len(items) < k:
        r = rng.random()
        if r < 0.15:
            items.append(b"")
        elif r < 0.35 and items:
            items.append(rng.choice(items))
        else:
            items.append(rng.choice(decoys))
    rng.shuffle(items)
    return items[:max(nmax, len(want))]


def long_list(rng, want, decoys, straddle=None):
    """more than 511 bytes of list in front of the names that matter (fixed-size copies of the argument lose or cut them);
    straddle = (name, keep): `name` is placed so that a copy of 511 bytes keeps exactly its first `keep` bytes"""
    plain = [x for x in decoys if x and b"," not in x] or [b"zz"]
    pre = []
    target = rng.choice([480, 500, 505, 509, 510, 511, 512, 515, 600, 1000, 2000])
    if straddle:
        target = 511 - straddle[1]
    while len(b",".join(pre)) + 1 < target - 20:
        pre.append(rng.choice(plain))
    if straddle:
        pad = target - (len(b",".join(pre)) + 1) - 1
        if pad > 0:
            pre.append(b"q" * pad)
        return pre + [straddle[0]] + list(want)
    return pre + list(want) + [rng.choice(plain) for _ in range(rng.choice([0, 2]))]


def near_misses(comm):
    out = [comm + b"x", comm + b" ", b" " + comm, b"  " + comm, comm.strip(b" "), b" ", b"   "]
    if len(comm) > 1:
        out += [comm[:-1], comm[1:], comm[:len(comm) // 2]]
    return [x for x in out if x and b"," not in x]


# ------------------------------------------------------------------------------------------------ synthetic stream
ERR_KINDS = ["missing", "empty", "short", "noleft", "noright", "longcomm", "noppid", "alpha_ppid", "nostate", "reversed"]


def gen_synth_case(rng, consts, pool):
    cm, bs = consts["sp_comm_max"], consts["sp_buf_size"]
    d = rng.choice([0, 1, 1, 2, 2, 3, 3, 4, 5, 6, 8, 10, 11, 12, 15, 24, 40])
    used = set()

    def newpid():
        while True:
            p = rng.choice([rng.randrange(3, 400), rng.randrange(3, 4194304), rng.randrange(3, 2 ** 31 - 1)])
            if p not in used:
                used.add(p)
                return p
    self_pid = newpid()
    chain = [newpid() for _ in range(d)]
    if d and rng.random() < 0.3:
        chain.append(1)          # init on top
    elif d and rng.random() < 0.1:
        chain.append(2)          # kthreadd on top
    sub = [rng.choice(pool) for _ in range(rng.choice([2, 3, 5]))]
    if rng.random() < 0.4:
        b = rng.choice(sub)
        sub += [x for x in near_misses(b)[:3] if len(x) < cm]
    comms = []
    for i in range(len(chain)):
        c = rng.choice(sub)
        if rng.random() < 0.06:
            c = b""
        comms.append(c)
    self_comm = rng.choice(sub + pool[:4])
    n = len(chain)
    parents = [chain[i + 1] if i + 1 < n else 0 for i in range(n)]
    err_at, err_kind = None, None
    if n and rng.random() < 0.35:
        err_at, err_kind = rng.randrange(n), rng.choice(ERR_KINDS)
    wild = rng.random() < 0.15
    tree, atab = {}, {}
    tree[self_pid] = render(self_pid, self_comm, b"R", chain[0] if n else 0, tail(rng))
    atab[self_pid] = (self_comm, chain[0] if n else 0)
    readable = True
    for i, p in enumerate(chain):
        st = rng.choice([b"S", b"R", b"D", b"Z", b"T", b"t", b"I", b"X"])
        txt = render(p, comms[i], st, parents[i], tail(rng))
        entry_ok = len(comms[i]) < cm
        if i == err_at:
            entry_ok = False
            k = err_kind
            if k == "missing":
                txt = None
            elif k == "empty":
                txt = b""
            elif k == "short":
                txt = render(p % 10, b"", st, 0, b"")[:rng.choice([1, 5, 7])]
            elif k == "noleft":
                txt = txt.replace(b"(", b"[")
            elif k == "noright":
                txt = txt.replace(b")", b"]")
            elif k == "longcomm":
                txt = render(p, bytes(rng.choice(b"abc ()") for _ in range(rng.choice([cm, cm + 1, cm + 20]))), st, parents[i], tail(rng))
            elif k == "noppid":
                txt = str(p).encode() + b" (" + comms[i] + b") " + st
                txt = txt if len(txt) >= 8 else txt + b"   "
            elif k == "alpha_ppid":
                txt = str(p).encode() + b" (" + comms[i] + b") " + st + b" x" + str(parents[i]).encode() + tail(rng)
            elif k == "nostate":
                txt = str(p).encode() + b" (" + comms[i] + b")      "
            elif k == "reversed":
                txt = str(p).encode() + b" )" + comms[i].replace(b"(", b"").replace(b")", b"") + b"( " + st + b" " + str(parents[i]).encode() + tail(rng)
        if txt is not None:
            tree[p] = txt
        if entry_ok:
            atab[p] = (comms[i], parents[i])
    if wild:
        # texts outside the kernel's format: only model = implementation is demanded
        for p in list(tree):
            if p == self_pid or rng.random() < 0.5:
                continue
            t = bytearray(tree[p])
            k = rng.choice(["nul", "spaces", "sign", "huge", "rparen_rest", "longpid", "flip", "cut"])
            if k == "nul" and t:
                t[rng.randrange(len(t))] = 0
            elif k == "spaces":
                t = bytearray(bytes(t).replace(b") ", b")  \t ", 1).replace(b" ", b"   ", rng.choice([1, 3])))
            elif k == "sign":
                m = re.match(rb"(.*\) . )(\d+)(.*)$", bytes(t), re.S)
                if m:
                    t = bytearray(m.group(1) + rng.choice([b"+", b"-", b"+-", b"-0", b"00"]) + m.group(2) + m.group(3))
            elif k == "huge":
                m = re.match(rb"(.*\) . )(\d+)(.*)$", bytes(t), re.S)
                if m:
                    t = bytearray(m.group(1) + rng.choice([b"2147483648", b"4294967296", b"4294967297", b"9223372036854775807", b"9223372036854775808", b"99999999999999999999999", b"-2147483649", b"-9223372036854775809"]) + m.group(3))
            elif k == "rparen_rest":
                pos = rng.choice([bs - 3, bs - 2, bs - 1, bs, bs + 5, 40, 50])
                if pos < len(t):
                    t[pos] = 0x29
            elif k == "longpid":
                # push the head across the read window
                want = bs - 1 + rng.choice([-3, -2, -1, 0, 1, 2, 5])
                mm = re.match(rb"\d+ \((.*)\) (.) (\d+)", bytes(t), re.S)
                if mm:
                    t = bytearray(b"9" * max(0, want - len(mm.group(0))) + bytes(t))
            elif k == "flip" and t:
                t[rng.randrange(min(len(t), bs))] = rng.choice(b"() \x00,S0")
            elif k == "cut":
                t = t[:rng.choice([0, 7, 8, 9, 12, bs - 2, bs - 1, bs])]
            tree[p] = bytes(t)
    # the list
    names_chain = [c for i, c in enumerate(comms)]
    decoys = [x for x in pool if x not in names_chain and x != self_comm and b"," not in x] or [b"zz"]
    mode = rng.choice(["none", "match", "match", "match", "match", "self", "near"])
    want = []
    if mode == "match" and n:
        want = [comms[rng.randrange(n)]]
    elif mode == "self":
        want = [self_comm]
    elif mode == "near" and n:
        want = near_misses(rng.choice(comms) or b"q")[:2]
    items = make_list(rng, want, decoys + ([x for c in comms for x in near_misses(c)] if rng.random() < 0.3 else []))
    longl = rng.random() < 0.08
    if longl:
        cut = [c for c in comms if c and b"," not in c]
        if mode in ("none", "near") and cut and rng.random() < 0.5:
            c0 = rng.choice(cut)                      # an extension of an ancestor's name whose 511-byte cut is that name
            items = long_list(rng, [], decoys, straddle=(c0 + b"zz", len(c0)))
        else:
            items = long_list(rng, want, decoys)
    arg = b",".join(items)
    if rng.random() < 0.1:
        arg = b"," + arg
    if rng.random() < 0.1:
        arg = arg + b","
    arg = arg.replace(b"\x00", b"")
    ppid = chain[0] if n else 0
    tree_s = ";".join("%d=%s" % (p, hexs(t)) for p, t in tree.items()) or "[]"
    atab_s = "?" if wild else (";".join("%d:%s:%d" % (p, hexs(c), pp) for p, (c, pp) in atab.items()) or "[]")
    via_chain = b";" not in arg and len(arg) < 3000 and rng.random() < 0.3       # the same call made by the filter chain walker
    kind, argf = ("cfilter" if via_chain else "filter"), hexs(arg)
    r = rng.random()
    if r < 0.06:
        kind += "0"                                                            # descriptor 0 closed during the call
    elif r > 0.95:
        kind += "E"                                                            # the caller's errno is ERANGE (stale) when the call is made
    elif r < 0.11 and b";" not in arg and len(arg) < 1500 and len(items) >= 2:
        h = rng.randrange(1, len(items))                                        # two chain elements: exclude_spawns_of:<a>;exclude_spawns_of:<b>
        kind, argf, via_chain = "cfilter2", hexs(b",".join(items[:h])) + "+" + hexs(b",".join(items[h:])), True
    elif r < 0.125 and len(items) >= 2 and not wild:
        parts = [b",".join(items[i::3]) for i in range(3)]                     # three threads, one list each, at the same time
        parts = [x.replace(b";", b":") for x in parts if x] or [arg]
        kind, argf = "tfilter", ";".join(hexs(x) for x in parts)
    line = "\t".join([kind, argf, str(self_pid), str(ppid), tree_s, atab_s])
    meta = {"depth": n, "items": len(items), "mode": mode, "err": err_kind if err_at is not None else None, "wild": wild,
            "empty_comm": any(c == b"" for c in comms), "nontrivial": n >= 1 and any(items), "via_chain": via_chain, "kind": kind, "long": longl}
    return line, meta


def gen_synth(rng, consts, n):
    pool = name_pool(rng, consts["sp_comm_max"])
    cases, metas = [], []
    for _ in range(n):
        c, m = gen_synth_case(rng, consts, pool)
        cases.append(c)
        metas.append(m)
    return cases, metas


def drop_cyclic(run, cases, meta):
    """Texts outside the kernel format can close a cycle in the parent relation (a 'parent' field that wraps to a pid of the
    table); the C loop then never ends and the model runs out of fuel.  Such tables are outside the property (the kernel's
    parent relation is acyclic): they are recognised with the model and left out of the stream."""
    d = os.path.join(run.scratch, "pre-cyclic")
    os.makedirs(d, exist_ok=True)
    cp = os.path.join(d, "cases.txt")
    open(cp, "w").write("".join(c + "\n" for c in cases))
    mo = run.run_model(AREA, cp, os.path.join(d, "model.out"))
    keep = [i for i in range(len(cases)) if mo[i] != "fault:fuel"]
    return [cases[i] for i in keep], [meta[i] for i in keep], len(cases) - len(keep)


def spec_line(cf, rf):
    if len(cf) < 6 or cf[5] == "?" or len(rf) < 2:
        return None
    if cf[0] == "tfilter":
        return "\t".join(["specm", cf[1], cf[3], cf[5], rf[1]])
    if rf[1] not in ("drop", "pass"):
        return None
    if cf[0] in ("filter", "cfilter", "filter0", "cfilter0", "filterE", "cfilterE"):
        return "\t".join(["spec", cf[1], cf[3], cf[5], rf[1]])
    if cf[0] == "cfilter2":                               # the names listed by two chain elements are the names of "a,b"
        a1, a2 = cf[1].split("+")
        j = ("" if a1 == "-" else a1) + "2c" + ("" if a2 == "-" else a2)
        return "\t".join(["spec", j, cf[3], cf[5], rf[1]])
    return None


# ------------------------------------------------------------------------------------------------ real chains
def settable(rng, pool):
    return [x for x in pool if b"\x00" not in x]


def gen_chain_case(rng, consts, pool, k, cid):
    d = 1 + (k % 12) if k % 15 != 14 else rng.choice([13, 20, 30, 40])
    sub = [rng.choice(pool) for _ in range(rng.choice([2, 3, 4]))]
    if rng.random() < 0.5:
        sub += near_misses(rng.choice(sub))[:2]
    names = []
    for _ in range(d):
        nm = rng.choice(sub)
        if rng.random() < 0.05:
            nm = b""
        names.append(nm)
    selfname = rng.choice(sub + [b"caller"])
    mode = "orphan" if rng.random() < 0.1 else "plain"
    eff = [nm[:15] for nm in names]
    decoys = [x[:15] for x in pool if x[:15] not in eff and x[:15] != selfname[:15] and b"," not in x] or [b"zz"]
    args = []
    positions = list(range(d)) if d <= 4 else sorted(set([0, d - 1] + [rng.randrange(d) for _ in range(3)]))
    for m in positions:
        args.append(b",".join(make_list(rng, [eff[m]], decoys)))
    args.append(b",".join(make_list(rng, [], decoys)))                                  # no listed ancestor
    args.append(b",".join(make_list(rng, [selfname[:15]], decoys)))                      # only the caller's own name
    args.append(b",".join(make_list(rng, near_misses(rng.choice(eff) or b"q")[:3], decoys)))
    args.append(b",".join(make_list(rng, [eff[-1], eff[0]], decoys, nmax=50) + [b""] * 3))
    args.append(rng.choice([b",", b",,,", b"", b"nosuchname"]))
    if mode == "orphan":
        args.append(b"@P")
        args.append(b"x,,@P,y")
    args = [a.replace(b";", b":") for a in args]
    line = "\t".join(["chain", cid, mode, hexlist(names), hexs(selfname), ";".join(hexs(a) for a in args)])
    return line, {"depth": d, "mode": mode, "nargs": len(args), "empty_name": any(x == b"" for x in names)}


def gen_chains(rng, consts, n):
    pool = settable(rng, name_pool(rng, consts["sp_comm_max"]))
    cases, metas = [], []
    for k in range(n):
        c, m = gen_chain_case(rng, consts, pool, k, "g%d" % k)
        cases.append(c)
        metas.append(m)
    for k in range(max(10, n // 3)):
        c, m = gen_hist_case(rng, consts, pool, k, "h%d" % k)
        cases.append(c)
        metas.append(m)
    return cases, metas


def gen_hist_case(rng, consts, pool, k, cid):
    """histories along one line of descent: call - fork - call with the same argument (the verdict of a child must not be its
    parent's), several arguments in one process, the caller itself listed (no fork), and - in a fresh pid namespace - chosen
    pids of 6/7 digits with 14/15-byte names (the head of the stat line at its longest)."""
    sub = [x for x in (rng.choice(pool) for _ in range(4)) if x and b"," not in x] or [b"cron"]
    a = rng.choice(sub)[:15]
    other = rng.choice([x for x in pool if x[:15] != a and x and b"," not in x])[:15]
    ns = k % 5 in (1, 3)
    steps = []
    kind = k % 5
    listed = b",".join([b"zz", b"", a, b"qq", a])
    if kind in (0, 2, 4):
        steps += ["n:" + hexs(a), "c:" + hexs(listed), "f"]
        if k % 3 == 0:
            steps += ["e"]                                  # errno of the caller left at ERANGE by something earlier
        if k % 2:
            steps += ["z"]                                  # the child runs without descriptor 0 (daemons, closed stdin)
        if kind == 2:
            steps += ["n:" + hexs(other), "c:" + hexs(listed), "c:" + hexs(other), "f", "c:" + hexs(other), "c:" + hexs(listed)]
        elif kind == 4:
            steps += ["c:" + hexs(b"nomatch," + other), "c:" + hexs(listed), "n:" + hexs(other), "f", "c:" + hexs(b"nomatch," + other), "c:" + hexs(listed)]
        else:
            steps += ["c:" + hexs(listed)]
    else:
        long = bytes(rng.choice(b"abcdefgh ()") for _ in range(rng.choice([13, 14, 15])))
        used = set()

        def pid():
            while True:
                p = rng.choice([rng.randrange(1000000, 4194304), rng.randrange(100000, 1000000), 4194303, 1000000, 999999, 1234567])
                if p not in used:
                    used.add(p)
                    return p
        steps += ["n:" + hexs(b"ns-init"), "F:%d" % pid(), "n:" + hexs(a)]
        for _ in range(rng.choice([1, 2, 3])):
            steps += ["F:%d" % pid(), "n:" + hexs(long if rng.random() < 0.8 else other)]
        steps += ["F:%d" % pid() if rng.random() < 0.7 else "f", "n:" + hexs(b"caller"), "c:" + hexs(listed), "c:" + hexs(long), "c:" + hexs(b"nomatch"), "c:" + hexs(b"caller"), "c:" + hexs(b"x,ns-init")]
    line = "\t".join(["hist", cid, "ns" if ns else "plain", ";".join(steps)])
    return line, {"depth": sum(1 for x in steps if x[0] in "fF"), "mode": "hist-ns" if ns else "hist", "nargs": sum(1 for x in steps if x.startswith("c:")), "empty_name": False}


def run_chains(run, exe, cases, stream):
    """Returns dict: results per case [{case, args, impl, model, spec_bad, render_bad, parse_bad, fault}]"""
    d = os.path.join(run.scratch, "chain-" + stream)
    os.makedirs(d, exist_ok=True)
    cp, side = os.path.join(d, "cases.txt"), os.path.join(d, "side.txt")
    open(cp, "w").write("".join(c + "\n" for c in cases))
    open(side, "w").close()
    io = run.run_impl(exe, cp, os.path.join(d, "impl.out"), env={"VERIF_SPAWN_SIDE": side})
    if len(io) != len(cases):
        raise CheckError("chain driver output length mismatch")
    sides = {}
    for l in open(side):
        f = l.rstrip("\n").split("\t")
        if len(f) == 6:
            sides[f[0]] = f
    out = []
    mlines, owners = [], []
    for i, c in enumerate(cases):
        cf = c.split("\t")
        r = {"case": c, "impl": io[i], "fault": None, "verdicts": [], "items": []}
        out.append(r)
        if not io[i].startswith("ok\t"):
            r["fault"] = io[i]
            continue
        if io[i] == "ok\tskip":
            r["skipped"] = True
            continue
        verd_all = io[i].split("\t")[1].split(",") if io[i].split("\t")[1] != "-" else []
        if cf[0] == "hist":
            ncalls = sum(1 for st in cf[3].split(";") if st.startswith("c:"))
            keys = ["%s#%d" % (cf[1], k) for k in range(ncalls)]
        else:
            keys = [cf[1]]
        r["verdicts"], r["args"], truths = [], [], []
        vpos = 0
        for key in keys:
            s = sides.get(key)
            if not s:
                raise CheckError("chain driver: no side record for case %s" % key)
            _, selfp, ppid, tree, truth, effargs = s
            args = effargs.split(";")
            verd = verd_all[vpos:vpos + len(args)]
            vpos += len(args)
            if len(verd) != len(args):
                raise CheckError("chain driver: %d verdicts for %d arguments" % (len(verd), len(args)))
            base = len(r["args"])
            r["verdicts"] += verd
            r["args"] += args
            truths.append(truth)
            r["ppid"], r["self"], r["tree"] = ppid, selfp, tree
            atab = ";".join("%s:%s:%s" % (e.split(":")[0], e.split(":")[1], e.split(":")[3]) for e in truth.split(";")) if truth != "[]" else "[]"
            tmap = dict(e.split("=", 1) for e in tree.split(";")) if tree != "[]" else {}
            for j, a in enumerate(args):
                mlines.append("\t".join(["filter", a, selfp, ppid, tree, "?"])); owners.append((i, "model", (base + j, truth)))
                if verd[j] in ("drop", "pass"):
                    mlines.append("\t".join(["spec", a, ppid, atab, verd[j]])); owners.append((i, "spec", base + j))
                else:
                    r["chain_differs"] = (a, verd[j])
                    mlines.append("\t".join(["spec", a, ppid, atab, verd[j].split("/")[0]])); owners.append((i, "spec", base + j))
            if truth != "[]":
                for e in truth.split(";"):
                    pid, commh, sth, pp = e.split(":")
                    content = tmap.get(pid)
                    if content is None:
                        continue
                    comm = unhex(commh)
                    raw = unhex(content)
                    pos = len(pid) + 2 + len(comm) + 2
                    stb = raw[pos:pos + 1]
                    mlines.append("\t".join(["render", pid, commh, hexs(stb) if stb else "-", pp, content])); owners.append((i, "render", e))
                    mlines.append("\t".join(["parse", content])); owners.append((i, "parse", (commh, pp, pid)))
        r["truth"] = " || ".join(truths)
    mp = os.path.join(d, "model.txt")
    open(mp, "w").write("".join(l + "\n" for l in mlines))
    mo = run.run_model(AREA, mp, os.path.join(d, "model.out"))
    bad = [m for m in mo if m.startswith("driver-error")]
    if bad:
        raise CheckError("model driver error: %s" % bad[0])
    reject_empty = run.consts["spawns"].get("sp_reject_empty")
    for (i, kind, x), res, ml in zip(owners, mo, mlines):
        r = out[i]
        if kind == "model":
            mv = res.split("\t")[1] if res.startswith("ok\t") else res
            r["items"].append({"arg": r["args"][x[0]], "impl": r["verdicts"][x[0]], "model": mv, "spec": None, "truth": x[1], "k": x[0]})
        elif kind == "spec":
            r["items"][-1]["spec"] = res
        elif kind == "render" and res != "ok":
            r.setdefault("render_bad", []).append(ml[:400])
        elif kind == "parse":
            commh, pp, pid = x
            want = "ok\t%s\t%s" % (commh, pp)
            if res != want and not (commh == "-" and reject_empty and res == "none"):
                r.setdefault("parse_bad", []).append({"pid_entry": "%s:%s:%s" % (pid, commh, pp), "model_parse": res})
    return out


def classify_chains(run, results, stream):
    nv = 0
    mism = []
    for r in results:
        c = r["case"]
        cf = c.split("\t")
        if r["fault"]:
            run.violation("fault:%s" % r["fault"].split("\t")[0], "sanitizer", "the filter faulted at the bottom of a real process chain: %s" % r["fault"],
                          {"stream": stream, "failing_input": c, "impl_output": r["impl"], "cases": [c]})
            nv += 1
            continue
        if r.get("chain_differs"):
            a, vd = r["chain_differs"]
            one = c if cf[0] == "hist" else "\t".join(cf[:5] + [a if cf[2] != "orphan" else cf[5]])
            run.violation("spec:chain-walker-changes-the-verdict", "spec_violation",
                          "real process tree, argument %s: snoopy_filter_exclude_spawns_of(arg) and snoopy_filtering_check_chain(\"exclude_spawns_of:\" arg) answer differently (%s); process table: %s"
                          % (a, vd, r["truth"][:500]),
                          {"stream": stream, "failing_input": one, "impl_output": vd, "cases": [one]})
            nv += 1
            continue
        if r.get("render_bad"):
            raise CheckError("rendering assumption refuted by the running kernel (render_stat is not a prefix of /proc/<pid>/stat): %s" % r["render_bad"][0])
        for it in r["items"]:
            if it["spec"] == "bad":
                label = "dropped-without-listed-ancestor" if it["impl"] == "drop" else "passed-with-listed-ancestor"
                if cf[0] == "hist":
                    one = c
                    what = "history %s (mode %s), call #%d" % (cf[3], cf[2], it["k"])
                else:
                    one = "\t".join(cf[:5] + [it["arg"] if cf[2] != "orphan" else cf[5]])
                    what = "real chain (names top..bottom %s, caller %s, mode %s)" % (cf[3], cf[4], cf[2])
                run.violation("spec:%s" % label, "spec_violation",
                              "%s, argument %s: the filter answered %s; process table read from /proc/<pid>/comm+status at that call: %s"
                              % (what, it["arg"], it["impl"], it["truth"][:600]),
                              {"stream": stream, "failing_input": one, "impl_output": it["impl"], "model_output": it["model"], "cases": [one]})
                nv += 1
                break
            if it["model"] != it["impl"]:
                mism.append((c, it))
    return nv, mism


# ------------------------------------------------------------------------------------------------ plumbing
def corpus_cases():
    d = os.path.join(VERIF, "corpus", "C15")
    synth, chains = [], []
    if os.path.isdir(d):
        for f in sorted(os.listdir(d)):
            for line in open(os.path.join(d, f)):
                line = line.rstrip("\n")
                if line and not line.startswith("#"):
                    (chains if line.startswith(("chain\t", "hist\t")) else synth).append(line)
    return synth, chains


def build_impl(run):
    objs = run.build_objs("asan", san=True)
    inc = ["-I" + os.path.join(VERIF, "harness")]
    exe = os.path.join(run.scratch, "impl_spawns")
    run.link(exe, [os.path.join(VERIF, "harness", "impl_spawns.c")], objs, san=True, extra=inc + WRAP)
    exe2 = os.path.join(run.scratch, "impl_spawnchain")
    run.link(exe2, [os.path.join(VERIF, "harness", "impl_spawnchain.c")], objs, san=True, extra=inc)
    return exe, exe2


def impl_only(run, exe, cases, tag):
    d = os.path.join(run.scratch, "re-" + tag)
    os.makedirs(d, exist_ok=True)
    cp = os.path.join(d, "cases.txt")
    open(cp, "w").write("".join(c + "\n" for c in cases))
    return run.run_impl(exe, cp, os.path.join(d, "impl.out"))


def history_of(run, exe, cases, i, impl):
    """The function-level stream runs its cases one after the other in ONE process.  When the answer to case i is not the answer
    the same case gets in a fresh process, the implementation keeps state between calls: find an earlier case that, run just before
    it, reproduces the answer, so that the replay is the (two-call) history."""
    if exe is None:
        return [], impl
    alone = impl_only(run, exe, [cases[i]], "alone")[0]
    if alone == impl:
        return [], alone
    arg = cases[i].split("\t")[1]
    prev = [j for j in range(i - 1, max(-1, i - 400), -1)]
    prev.sort(key=lambda j: (cases[j].split("\t")[1] != arg, i - j))
    for n, j in enumerate(prev[:60]):
        if impl_only(run, exe, [cases[j], cases[i]], "pair")[1] == impl:
            return [cases[j]], alone
    return cases[max(0, i - 400):i], alone


def classify_synth(run, res, cases, stream, exe=None):
    nv = 0
    for n, (i, c, impl, sp) in enumerate(res["spec_bad"]):
        v = impl.split("\t")[1] if "\t" in impl else "?"
        label = "dropped-without-listed-ancestor" if v == "drop" else "passed-with-listed-ancestor"
        f = c.split("\t")
        if f[0] == "tfilter" and (exe is None or n >= 12):
            continue                                     # not analysed further (the first dozen failures are)
        if f[0] == "tfilter":
            # is it the concurrency?  the same calls one after the other, each in a fresh process
            singles = ["\t".join(["filter", a, f[2], f[3], f[4], f[5]]) for a in f[1].split(";")]
            alone = [x.split("\t")[1] if x.startswith("ok\t") else x for x in (impl_only(run, exe, [sc], "single")[0] for sc in singles)]
            if ",".join(alone) == v:
                d = os.path.join(run.scratch, "re-single-spec")
                os.makedirs(d, exist_ok=True)
                sp = os.path.join(d, "spec.txt")
                open(sp, "w").write("".join("\t".join(["spec", sc.split("\t")[1], f[3], f[5], al]) + "\n" for sc, al in zip(singles, alone)))
                so = run.run_model(AREA, sp, os.path.join(d, "spec.out"))
                for sc, al, ok1 in zip(singles, alone, so):
                    if ok1 != "ok":
                        run.violation("spec:%s" % ("dropped-without-listed-ancestor" if al == "drop" else "passed-with-listed-ancestor"), "spec_violation",
                                      "synthetic /proc: argument %s, parent %s, process table %s: the filter answered %s" % (sc.split("\t")[1], f[3], f[5][:500], al),
                                      {"stream": stream, "failing_input": sc, "impl_output": al, "cases": [sc]})
                        nv += 1
                        break
                continue
        if f[0] == "tfilter":
            run.violation("spec:concurrent-calls-disturb-each-other", "spec_violation",
                          "synthetic /proc, one thread per list (%s) calling the filter at the same time on the same process table %s (parent %s): verdicts %s (mixed = a thread saw both answers); "
                          "each call alone: %s" % (f[1], f[5][:300], f[3], v, res["model"][i].replace("\t", " ")),
                          {"stream": stream, "failing_input": c, "impl_output": impl, "model_output": res["model"][i], "cases": [c]})
            nv += 1
            continue
        hist, alone = history_of(run, exe, cases, i, impl) if n < 3 else ([], impl)
        if hist:
            run.violation("spec:verdict-depends-on-earlier-call", "spec_violation",
                          "synthetic /proc, %d call(s) in one process: the last call (argument %s, parent %s, process table %s) answered %s, in a fresh process the same call answers %s; "
                          "the verdict of a call must depend on the process tree at that call only"
                          % (len(hist) + 1, f[1], f[3], f[5][:400], v, alone.replace("\t", " ")),
                          {"stream": stream, "failing_input": c, "history": len(hist), "impl_output": impl, "model_output": res["model"][i], "cases": hist + [c]})
            nv += 1
            continue
        run.violation("spec:%s" % label, "spec_violation",
                      "synthetic /proc%s: argument %s, parent %s, process table %s: the filter answered %s (files opened: %s), model: %s"
                      % (" (call made through snoopy_filtering_check_chain(\"exclude_spawns_of:<arg>\"))" if f[0] == "cfilter" else "", f[1], f[3], f[5][:500], v, impl.split("\t")[2] if impl.count("\t") >= 2 else "?", res["model"][i]),
                      {"stream": stream, "failing_input": c, "impl_output": impl, "model_output": res["model"][i], "cases": [c]})
        nv += 1
    for (i, c, impl) in res["faults"]:
        run.violation("fault:%s" % impl.split("\t")[0], "sanitizer", "implementation faulted on a synthetic /proc the property covers: %s" % impl,
                      {"stream": stream, "failing_input": c, "impl_output": impl, "model_output": res["model"][i], "cases": [c]})
        nv += 1
    return nv


def check(run):
    run.snapshot()
    consts = tr_spawns(run)
    ok, failed, log = run.coq_props(["Properties_C15.v"])
    exe, exe_chain = build_impl(run)
    quick = run.tier == "quick"
    csynth, cchain = corpus_cases()
    cases, meta = gen_synth(run.rng, consts, 3000 if quick else 200000)
    cases, meta, ncyclic = drop_cyclic(run, cases, meta)
    allcases = csynth + cases
    res = corr_stream(run, AREA, exe, allcases, spec_line=spec_line, stream="synthetic")
    nv = classify_synth(run, res, allcases, "synthetic", exe)
    chains, cmeta = gen_chains(run.rng, consts, 60 if quick else 3000)
    allchains = cchain + chains
    cres = run_chains(run, exe_chain, allchains, "chains")
    nvc, cmism = classify_chains(run, cres, "chains")
    nv += nvc
    if not ok and nv == 0:
        diag = [n for n in run.notes if n.startswith("translator:")]
        run.violation("proof:%s" % failed, "proof", "proof obligation no longer checks: %s; %s; both correspondence streams (model instantiated with the %s constants) found no deviation of the implementation\n%s"
                      % (failed, " | ".join(diag) if diag else "no translator diagnosis", "reference" if getattr(run, "using_reference", False) else "regenerated", log[-800:]),
                      {"theorem": failed, "coq_log": log[-3000:], "translator_notes": run.notes})
    if res["mismatch"] and nv == 0:
        i, c, m, im = res["mismatch"][0]
        run.violation("corr:synthetic", "correspondence",
                      "model and implementation differ on %d of %d synthetic cases although spec_C15_ok holds where it applies" % (len(res["mismatch"]), len(allcases)),
                      {"stream": "synthetic", "correspondence": "spawns.synthetic", "first_case": c, "model_output": m, "impl_output": im, "cases": [c]})
        nv += 1
    if cmism and nv == 0:
        c, it = cmism[0]
        run.violation("corr:chains", "correspondence",
                      "model (fed the bytes read from /proc) and implementation differ on %d (chain, argument) pairs" % len(cmism),
                      {"stream": "chains", "correspondence": "spawns.chains", "first_case": c, "argument": it["arg"], "model_output": it["model"], "impl_output": it["impl"], "cases": [c]})
    # coverage
    pairs = sum(len(r["items"]) for r in cres)
    drops = sum(1 for r in cres for it in r["items"] if it["impl"] == "drop")
    sdrops = sum(1 for x in res["impl"] if x.startswith("ok\tdrop"))
    parse_bad = [pb for r in cres for pb in r.get("parse_bad", [])]
    if parse_bad and not run.violations:
        run.notes.append("parse_stat on kernel bytes differs from /proc/<pid>/comm+status for %d ancestors, first: %s" % (len(parse_bad), parse_bad[0]))
    kver = os.uname().release
    distinct = len(set(c for c, m in zip(cases, meta) if m["nontrivial"])) + len(set((r["case"].split("\t", 2)[2], it["arg"]) for r in cres for it in r["items"]))
    depth_hist = {}
    for m in cmeta:
        if not m["mode"].startswith("hist"):
            depth_hist[str(m["depth"])] = depth_hist.get(str(m["depth"]), 0) + 1
    run.coverage.update({
        "evaluations": len(allcases) + pairs, "distinct_nontrivial": distinct,
        "rule": "synthetic: generated process tables of depth 0..12(+init/kthreadd) in the kernel's stat format with names from a pool of awkward names "
                "(spaces, parentheses, 15-byte and window-boundary lengths taken from the regenerated constants, mutual prefixes, empty), error injection at every level, "
                "15% texts outside the kernel format; lists of 0..50 items with duplicates, empty items, prefixes/extensions, all positions of the match; "
                "real: fork chains of depth 1..12 with prctl names, 8-12 lists per chain. non-trivial = distinct synthetic case with depth >= 1 and a non-empty name in the list, "
                "or distinct (chain, argument) pair",
        "samples": [allcases[i][:300] for i in range(0, len(allcases), max(1, len(allcases) // 3))][:3] + [c[:300] for c in allchains[:2]],
        "distribution": {"synthetic_cases": len(allcases), "synthetic_drops": sdrops, "synthetic_error_injected": sum(1 for m in meta if m["err"]),
                         "synthetic_wild": sum(1 for m in meta if m["wild"]), "synthetic_through_chain_walker": sum(1 for m in meta if m.get("via_chain")),
                         "synthetic_kinds": {k: sum(1 for m in meta if m.get("kind") == k) for k in sorted(set(m.get("kind") for m in meta))},
                         "synthetic_lists_over_511_bytes": sum(1 for m in meta if m.get("long")),
                         "synthetic_depth_11_to_40": sum(1 for m in meta if m["depth"] >= 11), "synthetic_cyclic_tables_left_out": ncyclic, "synthetic_empty_comm": sum(1 for m in meta if m["empty_comm"]),
                         "chains": len(allchains), "chain_depths": depth_hist, "chain_argument_pairs": pairs, "chain_drops": drops,
                         "orphan_chains": sum(1 for m in cmeta if m["mode"] == "orphan"), "histories_call_fork_call": sum(1 for m in cmeta if m["mode"] == "hist"),
                         "histories_in_pid_namespace_with_chosen_pids": sum(1 for m in cmeta if m["mode"] == "hist-ns"), "chains_skipped": sum(1 for r in cres if r.get("skipped")), "chains_with_empty_name": sum(1 for m in cmeta if m["empty_name"]),
                         "kernel_stat_entries_checked_against_render_stat": sum(1 for r in cres if "truth" in r for _ in r["truth"].split(";")),
                         "parse_vs_comm_status_disagreements": len(parse_bad), "kernel": kver,
                         "corpus_cases": len(csynth) + len(cchain), "mismatches": len(res["mismatch"]) + len(cmism),
                         "spec_failures": len(res["spec_bad"]), "impl_faults": len(res["faults"])},
        "traces_validated_against_impl": len(allcases) - len(res["mismatch"]) + pairs - len(cmism),
    })
    return run.finish(
        level="proof",
        trusted_base=["Coq 8.16.1 kernel + vm_compute (gen_ok)", "vlib/tr_spawns.py (regex over src/filter/exclude_spawns_of.c; gcc for macro values)",
                      "extraction: ExtrOcamlBasic only; ocaml/common.ml + drv_spawns.ml", "harness/impl_spawns.c (link-time --wrap of fopen/open/getppid/getpid), harness/impl_spawnchain.c",
                      "procfs: /proc/<pid>/stat begins with render_stat pid comm state ppid (checked on every ancestor of every chain against /proc/<pid>/comm and status on kernel %s)" % kver],
        assumptions=["strtok_r/strchr/strrchr/sscanf(\" %c %d\")/fread semantics as modelled in Spawns/Model.v (glibc: %d stores (int) of the saturated long)",
                     "kernel process names are at most 15 bytes for user processes (TASK_COMM_LEN); names of kernel workers can be longer and are covered by the model up to ST_COMM_SIZE_MAX-1 bytes",
                     "the process tree does not change while the filter walks it"])


def replay(run, path):
    rep = json.load(open(path))
    run.snapshot()
    tr_spawns(run)
    exe, exe_chain = build_impl(run)
    cases = rep.get("cases") or []
    synth = [c for c in cases if not c.startswith(("chain\t", "hist\t"))]
    chains = [c for c in cases if c.startswith(("chain\t", "hist\t"))]
    nv = 0
    if synth:
        res = corr_stream(run, AREA, exe, synth, spec_line=spec_line, stream="replay")
        for i, c in enumerate(synth):
            print("case:", c[:300])
            print(" model:", res["model"][i][:200])
            print(" impl: ", res["impl"][i][:200])
        nv += classify_synth(run, res, synth, "replay")
        print("spec failures: %d, faults: %d, mismatches: %d" % (len(res["spec_bad"]), len(res["faults"]), len(res["mismatch"])))
    if chains:
        cres = run_chains(run, exe_chain, chains, "replay")
        for r in cres:
            print("case:", r["case"][:300])
            print(" process table (comm/status):", r.get("truth", "")[:600])
            for it in r["items"]:
                print("  arg %s: impl %s model %s spec %s" % (it["arg"][:80], it["impl"], it["model"], it["spec"]))
        n, mism = classify_chains(run, cres, "replay")
        nv += n
        print("chain spec failures/faults: %d, mismatches: %d" % (n, len(mism)))
    run.cleanup()
    return 1 if nv else 0
