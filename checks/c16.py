"""C16 — The wrapper leaves no residue in the calling process.

proof:  props/Properties_C16.v over Gen_Resid.v (clang AST of EVERY library function: complete callee lists; skeletons of all functions
        that reach an acquisition / release function), Gen_Calls.v (nm -u call set, indirect call sites), Gen_Wrapper.v, Gen_CfgLife.v:
        C16_no_state_calls, C16_balanced (every path of every such function, run by the collecting semantics of Lib/ResFlow.v against the
        summaries of its callees), C16_indirect_targets_neutral, C16_holders, C16_thread_record_paired, C16_n_calls, C16_at_real_exec.
tie:    system level: production libsnoopy.so (thread-safe and non-thread-safe) preloaded into the scripted caller behind liballoc.so
        (live blocks by call site) with librecorder.so as the real exec; /proc/self/fd, environ checksum, cwd, umask, signal mask and
        handler table sampled before the call, at real-exec entry and after return; runs of 2..200 calls after a warm-up call under
        generated configurations (every output, data source and filter of the registries, valid / invalid / duplicate options) and under
        single injected I/O faults (libfaultlite.so: k-th fopen/open/socket/connect/send/write/fread/fgets/getline/... made by the library).
partial: memory retained by glibc itself after first use (nss, locale, tz, stdio) is excluded by the warm-up call, as the property allows.
"""
import errno, glob, json, os
from concurrent.futures import ThreadPoolExecutor
from vlib.core import hexs, unhex, VERIF, CheckError
from vlib.tr_life import tr_cfglife, tr_resid
from vlib.tr_wrapper import tr_wrapper, tr_calls
from vlib.syslevel import call_line, run_many
from vlib.lifelib import build_both, run_life, run_life_as, run_lifemt, phases, addr2line, site_functions, gen_config, coq_query, SINKS, ENVLINE, FILTERS, OUTPUTS

STATE_KEYS = ("fds", "cwd", "umask", "sigmask", "handlers", "env")
DS_ARGS = {"env": "HOME", "cgroup": "name=systemd", "snoopy_literal": "lit", "datetime": "%Y-%m-%d"}
FAULT_ERRNO = {"fopen": errno.EACCES, "open": errno.EACCES, "socket": errno.EMFILE, "connect": errno.ECONNREFUSED, "send": errno.EAGAIN, "write": errno.ENOSPC,
               "fread": errno.EIO, "fgets": errno.EIO, "getline": errno.EIO, "read": errno.EIO, "access": errno.EACCES, "getcwd": errno.ENOENT,
               "ttyname_r": errno.ENOTTY, "gethostname": errno.ENAMETOOLONG, "getpwuid_r": errno.EIO, "getgrgid_r": errno.EIO, "getlogin_r": errno.ENXIO, "stat": errno.ENOENT}


def registry_names(info):
    ds = sorted(n[len("snoopy_datasource_"):] for n in info["address_taken"] if n.startswith("snoopy_datasource_"))
    fl = sorted(n[len("snoopy_filter_"):] for n in info["address_taken"] if n.startswith("snoopy_filter_"))
    out = sorted(n[len("snoopy_output_"):-len("output")] for n in info["address_taken"] if n.startswith("snoopy_output_") and n.endswith("output"))
    return ds, fl, out


def systematic_configs(info):
    """one configuration per data source (with and without argument), per filter, per output (with / without argument)"""
    ds, fl, out = registry_names(info)
    cfgs = []
    base = "[snoopy]\noutput = file:@D@/a.log\n"
    for d in ds:
        forms = ["%{" + d + "}"] + (["%{" + d + ":" + DS_ARGS[d] + "}"] if d in DS_ARGS else ["%{" + d + ":unexpected}"])
        cfgs.append(("ds:" + d, base + 'message_format = "%s|%s"\n' % (forms[0], forms[-1])))
    for f in fl:
        for arg in ("", ":", ":0", ":0,1,sh,python3", ":nosuch"):
            cfgs.append(("filter:%s%s" % (f, arg), base + 'filter_chain = "%s%s"\n' % (f, arg)))
    for o in out:
        for arg in ("", ":@D@/a.log", ":@D@/s.sock", ":/nonexistent/dir/x"):
            cfgs.append(("output:%s%s" % (o, arg), "[snoopy]\noutput = %s%s\nerror_logging = yes\n" % (o, arg)))
    for (nm, fmt) in (("unterminated-tag", "%{cmdline} %{cmdline"), ("unknown-source", "%{cmdline} %{nosuch} tail"), ("unknown-source-arg", "%{nosuch:arg}%{cmdline}"), ("empty-tag", "%{}%{:}")):
        cfgs.append(("format:" + nm, base + 'message_format = "%s"\nerror_logging = yes\n' % fmt))
    cfgs.append(("ident-template", "[snoopy]\noutput = devlog\nsyslog_ident = \"id-%{username}-%{nosuch}\"\nsyslog_facility = LOCAL1\nsyslog_level = DEBUG\n"))
    cfgs.append(("file-template", "[snoopy]\noutput = file:@D@/%{username}.log\n"))
    cfgs.append(("small-limits", "[snoopy]\noutput = file:@D@/a.log\nlog_message_max_length = 255\ndatasource_message_max_length = 255\nerror_logging = yes\nmessage_format = \"%{cmdline} %{env_all}\"\n"))
    return [(l, c.encode()) for (l, c) in cfgs]


def script_for(ini, ncalls, rng, stdin_closed=False):
    """stdin_closed: the caller runs without descriptor 0 (daemons): the first descriptor the library opens IS 0"""
    lines = list(SINKS) + [ENVLINE, "ini\t" + hexs(ini)] + (["stdin\tclosed"] if stdin_closed else [])
    for k in range(ncalls + 1):           # call 0 is the warm-up
        argv = [b"prog", b"arg%d" % k] + ([b"x" * 700] if k % 3 == 2 else [])
        api = "execve" if k % 2 == 0 else "execv"
        mode, ret, err = (1, 0, 0) if (k % 7 == 5) else (0, -1, (errno.ENOENT, errno.EACCES, errno.E2BIG)[k % 3])
        lines.append(call_line(api, b"/bin/prog", argv, [b"K=1"], mode, ret, err))
    return lines


def nocaller(d):
    return {o: c for o, (c, _) in d.items() if "tool_caller" not in o}


def judge(run, lib, r, first_checked, label, ini, fault):
    """-> list of (sig, detail, extra)"""
    finds = []
    calls, errs, faults, _ = phases(r["records"])
    where = "configuration %r%s" % (label, " with injected fault %s" % fault if fault else "")
    if r["status"] != 0:
        finds.append(("died", "the calling process ended with status %s under %s: %s" % (r["status"], where, r["stderr"][-300:]), {}))
        return finds, 0
    for f in r["records"]:
        if f[0] == "cloexec" and len(f) > 3 and f[3] == "0":
            finds.append(("fd:inheritable", "the socket the library connects during call %s is not close-on-exec under %s: an exec by another thread or a forked child at that moment inherits it" % (f[1], where),
                          {"call_index": int(f[1]), "what": "FD_CLOEXEC missing on the library's socket at connect()"}))
            break
    for (kind, site) in errs:
        finds.append(("heap:" + kind, "%s at %s under %s" % (kind, addr2line(lib, site), where), {"site": addr2line(lib, site)}))
    n = 0
    for k in sorted(calls):
        b = calls[k].get("before")
        if not b:
            continue
        for ph in ("at-exec", "after"):
            e = calls[k].get(ph)
            if not e:
                continue
            n += 1
            at = "at real-exec entry" if ph == "at-exec" else "after return"
            for key in STATE_KEYS:
                if e["state"].get(key) != b["state"].get(key):
                    finds.append(("state:" + key, "%s differs %s of call %d under %s: before %s, then %s" % (key, at, k, where, str(b["state"].get(key))[:300], str(e["state"].get(key))[:300]),
                                  {"call_index": k, "phase": ph, "what": key}))
            if k < first_checked:
                pass            # heap: glibc's own first-use retention is excluded by the warm-up call(s); the process state is compared from the first call on
            elif e.get("lib"):
                site, (cnt, byt) = sorted(e["lib"].items(), key=lambda kv: -kv[1][0])[0]
                finds.append(("heap:library-block-live", "%d block(s) (%d bytes) allocated at %s are live %s of call %d under %s" % (cnt, byt, addr2line(lib, site), at, k, where),
                              {"call_index": k, "phase": ph, "site": addr2line(lib, site)}))
            elif nocaller(e.get("other", {})) != nocaller(b.get("other", {})):
                finds.append(("heap:growth", "live blocks outside the caller differ %s of call %d under %s: before %s, then %s" % (at, k, where, nocaller(b["other"]), nocaller(e["other"])),
                              {"call_index": k, "phase": ph}))
            if finds:
                return finds, n
    return finds, n


def observed_sites(r):
    """(kind, call site) of every allocation made from the library and (when traced) every libc-boundary call of the library"""
    out = set()
    for f in r["records"]:
        if f[0] == "allocsites" and len(f) > 1:
            out |= set(("alloc", s) for s in f[1].split(",") if s)
        elif f[0] == "ftrace" and len(f) > 4:
            out.add((f[2], f[4]))
    return out


def corpus_cases():
    out = []
    for p in sorted(glob.glob(os.path.join(VERIF, "corpus", "C16", "*.json"))):
        d = json.load(open(p))
        out.append((os.path.basename(p), d["ini"].encode("latin-1"), d.get("fault"), d.get("variants", ["ts", "nts"]), d.get("calls", 4)))
    return out


def check(run):
    run.snapshot()
    tr_cfglife(run)
    info = tr_resid(run)
    tr_wrapper(run)
    libs = build_both(run)
    ext, ind = tr_calls(run, sorted(glob.glob(os.path.join(run.scratch, "obj-prod-ts", "*.o"))))
    pool = ThreadPoolExecutor(1)
    fp = pool.submit(run.coq_props, ["Properties_C16.v"])
    rng = run.rng
    quick = run.tier == "quick"
    jobs = []           # (label, ini, variant, ncalls, fault)
    for (name, ini, fault, variants, ncalls) in corpus_cases():
        for v in variants:
            jobs.append(("corpus:" + name, ini, v, ncalls, fault))
    syscfg = systematic_configs(info)
    for i, (label, ini) in enumerate(syscfg):
        jobs.append((label, ini, "ts", 3 if quick else 8, None))
        if i % (4 if quick else 1) == 0:
            jobs.append((label, ini, "nts", 3, None))
    for (label, ini) in syscfg:     # the same without descriptor 0 in the caller, for everything that opens a descriptor
        if label.startswith("output:") or label.startswith("filter:exclude_spawns_of") or label in ("file-template", "ident-template", "ds:cgroup", "ds:rpname", "ds:domain"):
            jobs.append(("nofd0:" + label, ini, "ts", 3, None))
    gencfg = []
    for i in range(40 if quick else 3000):
        ini, kind = gen_config(rng, volatile=True)
        if ini is None:
            ini = b"[snoopy]\n" + gen_config(rng, volatile=True, force=["message_format", "output"])[0]
        gencfg.append(("gen-%d:%s" % (i, kind), ini))
        jobs.append(("gen-%d:%s" % (i, kind), ini, "ts" if i % 3 else "nts", rng.choice([2, 3, 5] if quick else [2, 5, 20, 60]), None))
    # long runs: 200 calls (quick: two configurations), 50 calls
    longs = [syscfg[0], gencfg[0], gencfg[1]] + ([] if quick else gencfg[2:40] + syscfg[::3])
    for j, (label, ini) in enumerate(longs):
        jobs.append(("long:" + label, ini, "ts" if j % 2 == 0 else "nts", 200 if j < (2 if quick else 20) else 50, None))

    # ---- other identities of the caller: a uid without passwd entry, a terminal on stdin that has no utmp record
    ident_fmt = b"[snoopy]\noutput = file:@D@/a.log\nmessage_format = \"%{username}:%{eusername}:%{group}:%{egroup}:%{tty}:%{tty_uid}:%{tty_username}:%{login}:%{ipaddr}|%{cmdline}\"\n"
    for (uid, tty) in ((54321, 0), (0, 1), (54321, 1)):
        jobs.append(("as:%d:%d:identity data sources" % (uid, tty), ident_fmt, "ts", 4, None))
        jobs.append(("as:%d:%d:identity data sources" % (uid, tty), ident_fmt + b"filter_chain = \"only_tty;only_uid:0,54321\"\n", "nts", 3, None))

    def job(a):
        idx, (label, ini, v, ncalls, fault) = a
        script = script_for(ini, ncalls, rng, stdin_closed=label.startswith("nofd0:"))
        if label.startswith("as:"):
            _, uid, tty, _ = label.split(":", 3)
            r = run_life_as(run, libs[v], script, "c16-%d" % idx, int(uid), tty == "1", fault=fault, timeout=300)
        else:
            r = run_life(run, libs[v], script, "c16-%d" % idx, fault=fault, timeout=300)
        finds, n = judge(run, libs[v], r, 2 if fault else 1, label, ini, fault)
        return (label, ini, v, ncalls, fault, script, finds, n, set(x for x in observed_sites(r)))
    results = run_many(job, list(enumerate(jobs)), workers=8)

    # ---- single injected faults: trace the library's libc-boundary calls of one call, then fail each position
    fault_cfgs = [c for c in syscfg if c[0].startswith("output:") or c[0] in ("ds:cgroup", "ds:rpname", "ds:domain", "ds:username", "ds:tty_username", "ds:cwd", "ds:hostname",
                                                                            "filter:exclude_spawns_of:0,1,sh,python3", "ident-template", "file-template")]
    if not quick:
        fault_cfgs = syscfg + gencfg[:80]
    if quick:
        fault_cfgs = [c for i, c in enumerate(fault_cfgs) if i % 3 == 0 or c[0] in ("output:socket:@D@/s.sock", "output:file:@D@/a.log", "output:devlog", "ds:rpname", "ds:cgroup")]

    def trace_job(a):
        i, (label, ini) = a
        script = script_for(ini, 1, rng)
        r = run_life(run, libs["ts"], script, "c16-tr-%d" % i, trace=True, timeout=120)
        _, _, _, tr = phases(r["records"])
        return (label, ini, tr.get(1, []), observed_sites(r))
    traces = run_many(trace_job, list(enumerate(fault_cfgs)), workers=8)
    fjobs = []
    tsites = set()
    for (label, ini, tr, st) in traces:
        tsites |= st
        seen = set()
        for (fn, k) in tr:
            if fn in FAULT_ERRNO and (fn, k) not in seen and (not quick or k <= 2):
                seen.add((fn, k))
                fjobs.append((label, ini, "ts", 4, "%s:%d:%d:1-" % (fn, k, FAULT_ERRNO[fn])))
    if quick and len(fjobs) > 60:
        keep = [j for j in fjobs if j[4].split(":")[0] in ("connect", "socket", "open", "send", "write")]
        rest = [j for j in fjobs if j not in keep]
        fjobs = keep + rng.sample(rest, max(0, 60 - len(keep)))
    base = len(jobs)
    fresults = run_many(job, [(base + i, j) for i, j in enumerate(fjobs)], workers=8)

    # ---- three overlapping calls (thread-safe build): entries of the thread repository are created first / middle / last and leave in every order
    mt_orders = ["102", "012", "210", "120", "201", "021", "all"]
    mt_extra = [b"", b"filter_chain = \"only_uid:0;exclude_spawns_of:\"\nmessage_format = \"%{snoopy_threads} %{cmdline} %{username}\"\n"]

    def mt_job(a):
        i, (order, extra) = a
        rounds = (4 if order != "all" else 25) if quick else (12 if order != "all" else 300)
        return (order, extra, rounds, run_lifemt(run, libs["ts"], "c16-%d" % i, rounds, order, extra))
    mt_results = run_many(mt_job, list(enumerate([(o, e) for o in mt_orders for e in mt_extra])), workers=6)

    nsamples, nruns = 0, 0
    distinct = set()
    seen_sig = set()
    faults_fired = 0
    sites = {"ts": set(tsites), "nts": set()}
    for (label, ini, v, ncalls, fault, script, finds, n, st) in results + fresults:
        sites[v] |= st
        nsamples += n
        nruns += 1
        distinct.add((ini, v, fault))
        if fault:
            faults_fired += 1
        for (sig, detail, extra) in finds:
            full = "residue:%s" % sig
            if full in seen_sig:
                continue
            seen_sig.add(full)
            rep = {"variant": v, "config": ini.decode("latin-1"), "fault": fault, "calls": ncalls, "script": script, "label": label,
                   "failing_input": dict({"variant": v, "configuration": ini.decode("latin-1"), "injected_fault": fault, "calls_after_warm_up": ncalls}, **extra)}
            run.violation(full, "spec_violation", detail, rep)
    nmt = 0
    for (order, extra, rounds, r) in mt_results:
        what = "three overlapping calls per round, released in the order %s%s" % ("'%s' (0 = entered first, 1 = middle, 2 = last)" % order if order != "all" else "'all' (together)",
                                                                                  " with " + extra.decode().replace("\n", " ; ") if extra else "")
        fi = {"variant": "ts", "threads": 3, "release_order": order, "rounds": rounds, "extra_configuration": extra.decode()}
        finds = []
        if r["status"] != 0:
            finds.append(("threads:died", "the process ended with status %s: %s (%s)" % (r["status"], r["stderr"][-200:], what), {}))
        for (kind, site) in r["errs"]:
            finds.append(("threads:heap:" + kind, "%s at %s (%s)" % (kind, addr2line(libs["ts"], site), what), {"site": addr2line(libs["ts"], site)}))
        for (rnd, tid, mb, ma) in r.get("masks", []):
            if mb != ma:
                finds.append(("threads:sigmask", "thread %d (entered its call %s) leaves the call of round %d with signal mask %s, it entered with %s (%s)"
                              % (tid, ("first", "in the middle", "last")[tid % 3], rnd, ma, mb, what), {"round": rnd, "thread": tid, "mask_before": mb, "mask_after": ma}))
                break
        base = None
        for (label, n, al) in r["marks"]:
            nmt += 1
            if al["lib"]:
                site, (cnt, byt) = sorted(al["lib"].items(), key=lambda kv: -kv[1][0])[0]
                finds.append(("threads:library-block-live", "%d block(s) (%d bytes) allocated at %s are still live after all threads of round %d have returned (%s)"
                              % (cnt, byt, addr2line(libs["ts"], site), n, what), {"round": n, "site": addr2line(libs["ts"], site)}))
                break
            tot = sum(c for o, (c, _) in al["other"].items() if "tool_lifemt" not in o)
            if label == "round" and n == 1:
                base = tot
            elif label == "round" and base is not None and tot > base:
                finds.append(("threads:growth", "live blocks outside the caller grow from %d after round 1 to %d after round %d (%s)" % (base, tot, n, what), {"round": n}))
                break
        for (sig, detail, extra_fi) in finds:
            full = "residue:%s" % sig
            if full not in seen_sig:
                seen_sig.add(full)
                run.violation(full, "spec_violation", detail, {"variant": "ts", "mt": {"order": order, "rounds": rounds, "extra": extra.decode()}, "failing_input": dict(fi, **extra_fi)})
    # cross-check of the translator: every allocation / descriptor acquisition OBSERVED in the library comes from a function the analysis treats as resource-touching
    acq = {"alloc", "fopen", "open", "socket"}
    nsites = 0
    for v in ("ts", "nts"):
        want = sorted(set(s for (k, s) in sites[v] if k in acq))
        fmap = site_functions(libs[v], want)
        nsites += len(fmap)
        for st, fn in sorted(fmap.items()):
            if fn not in info["touching"] and "corr:unmodelled-acquisition" not in seen_sig and not getattr(run, "using_reference", False):
                seen_sig.add("corr:unmodelled-acquisition")
                run.violation("corr:unmodelled-acquisition", "correspondence", "an acquisition observed at run time at %s is made by %s, which the translator does not list among the functions that reach an acquisition/release function"
                              % (addr2line(libs[v], st), fn), {"failing_input": {"site": addr2line(libs[v], st), "function": fn, "variant": v}})
    ok, failed, log = fp.result()
    if not ok:
        diag = coq_query(run, "Diag_C16",
                         "From Coq Require Import String List Bool.\nFrom Snoopy Require Import Lib.Skel Lib.ResFlow Wrapper.Model Residue.Model.\n"
                         "From Gen Require Import Gen_Resid Gen_Calls.\nImport ListNotations.\nOpen Scope string_scope.\n"
                         "Eval vm_compute in (\"functions with an unbalanced path\", failing lib_fns ast_externals [\"snoopy_tsrm_atfork_child\"]).\n"
                         "Eval vm_compute in (\"process-state mutators called\", filter (fun f => str_in f state_mutators) (external_calls ++ ast_externals)).\n"
                         "Eval vm_compute in (\"objects with static storage outside the verified inventory\", new_static_objects static_objects).\n"
                         "Eval vm_compute in (\"socket() calls (function, arguments)\", socket_calls lib_fns).\n")
        run.notes.append("diagnosis of the broken obligation: " + diag[:1500])
    if not ok and not run.violations:
        run.violation("proof:%s" % failed, "proof", "proof obligation no longer checks: %s\n%s\n%s" % (failed, diag[:1500], log[-800:]), {"theorem": failed, "diagnosis": diag[:3000], "coq_log": log[-3000:]})
    elif not ok:
        run.notes.append("proof obligation broken as well: %s" % failed)
    ds, fl, out = registry_names(info)
    run.coverage.update({
        "evaluations": nsamples + nmt, "distinct_nontrivial": len(distinct),
        "rule": "per run: warm-up call, then 2..200 calls (execve/execv alternating, failed exec with ENOENT/EACCES/E2BIG returned to the caller, every 7th a simulated successful exec) under one "
                "configuration; process state (fd table, environ checksum, cwd, umask, signal mask, handler table) and live allocations by call site compared before / at real-exec entry / "
                "after return of every call after the warm-up; configurations: one per data source, filter (x5 argument shapes) and output (x4) of the registries, generated mixes of every option "
                "incl. invalid / duplicate / corrupted, long runs of 200 and 50 calls; single faults: every libc-boundary call the library makes during one call (traced) failed in turn; "
                "evaluations = sampling points compared; distinct = distinct (configuration, build, fault) runs",
        "samples": [{"label": l, "variant": v, "fault": f, "config": ini.decode("latin-1")[:200]} for (l, ini, v, _, f, _, _, _, _) in (results[:2] + fresults[:2])],
        "distribution": {"runs": nruns, "sampling_points": nsamples, "fault_runs": faults_fired, "data_sources": len(ds), "filters": len(fl), "outputs": len(out),
                         "library_functions": info["functions"], "functions_with_skeleton": info["skeletons"], "external_calls": len(ext),
                         "max_calls_in_a_run": max(j[3] for j in jobs) if jobs else 0, "acquisition_sites_observed_and_matched": nsites, "overlapping_thread_runs": len(mt_results), "overlapping_thread_samples": nmt},
        "traces_validated_against_impl": nsamples,
    })
    return run.finish(level="proof",
                      trusted_base=["Coq 8.16.1 kernel + vm_compute (collecting semantics run on the generated skeletons)", "vlib/tr_life.py + vlib/skel.py (clang AST -> skeletons, complete callee lists), nm -u",
                                    "harness: tool_caller.c, librecorder.c, liballoc.c, libfaultlite.c"],
                      assumptions=["modular reading of the call graph: each function is run against the summaries established for its callees (partial correctness); calls through pointers reach address-taken functions only",
                                   "heap allocation does not fail (memory exhaustion outside the domain); libc functions outside the acquisition/release table have no ownership effect",
                                   "glibc-internal retention after first use (nss, locale, tz, stdio) is excluded by the warm-up call (partial, as the property text allows)"])


def replay(run, path):
    rep = json.load(open(path))
    run.snapshot()
    libs = build_both(run)
    if "mt" in rep:
        m = rep["mt"]
        r = run_lifemt(run, libs["ts"], "replay", m["rounds"], m["order"], m.get("extra", "").encode())
        bad = r["status"] != 0 or bool(r["errs"]) or any(al["lib"] for (_, _, al) in r["marks"]) or any(mb != ma for (_, _, mb, ma) in r.get("masks", []))
        print("overlapping threads, order %s, %d rounds: status %s" % (m["order"], m["rounds"], r["status"]))
        for (label, n, al) in r["marks"]:
            print("  after %s %d: live library blocks %s" % (label, n, {addr2line(libs["ts"], k): v for k, v in al["lib"].items()} or "none"))
        run.cleanup()
        return 1 if bad else 0
    if "config" not in rep:
        print("replay file has no configuration (proof-only violation): re-run ./check C16 quick")
        run.cleanup()
        return 1
    v = rep.get("variant", "ts")
    ini = rep["config"].encode("latin-1")
    script = rep.get("script") or script_for(ini, rep.get("calls", 4), run.rng)
    if rep.get("label", "").startswith("as:"):
        _, uid, tty, _ = rep["label"].split(":", 3)
        r = run_life_as(run, libs[v], script, "replay", int(uid), tty == "1", fault=rep.get("fault"), timeout=300)
    else:
        r = run_life(run, libs[v], script, "replay", fault=rep.get("fault"), timeout=300)
    finds, n = judge(run, libs[v], r, 2 if rep.get("fault") else 1, rep.get("label", "replay"), ini, rep.get("fault"))
    print("configuration:\n" + rep["config"])
    print("fault:", rep.get("fault"), "variant:", v, "sampling points:", n)
    for (sig, detail, _) in finds:
        print("VIOLATION-DETAIL", sig, detail[:1000])
    run.cleanup()
    return 1 if finds else 0
