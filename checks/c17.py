"""C17 — File records are appended whole; concurrent writers never interleave.

proof:  props/Properties_C17.v over Gen_Output.v: C17_one_write (append mode, exactly one write(2) per framed record) and
        C17_whole_records (any writers, any sizes, any interleaving of their write calls => whole records in some order,
        old content untouched).  Kernel atomicity of an O_APPEND write to a regular file is an assumption (trusted base).
tie:    strace of the real file output built from the snapshot for record sizes around every stdio/pipe block size and up
        to the largest configurable message, over pre-existing contents: exactly one openat with O_WRONLY|O_CREAT|O_APPEND
        (no O_TRUNC) and exactly ONE write of size+1 bytes; the file afterwards = old content ++ record.
search: concurrent stress (2..16 writer processes) - multiset-of-whole-lines check.
"""
import json, os, re, subprocess
from vlib.core import VERIF, CheckError
from vlib.tr_output import tr_output
from vlib.syslevel import run_many


def build_tool(run):
    objs = run.build_objs("plain", san=False)
    exe = os.path.join(run.scratch, "impl_output")
    run.link(exe, [os.path.join(VERIF, "harness", "impl_output.c")], objs, san=False)
    return exe


def trace_one(run, exe, kind, path, size, pre, tag):
    d = os.path.join(run.scratch, "c17-" + tag)
    os.makedirs(d, exist_ok=True)
    if kind == "file":
        if pre is None:
            if os.path.exists(path):
                os.unlink(path)
        else:
            open(path, "wb").write(pre)
    log = os.path.join(d, "strace.log")
    target = {"file": path, "devnull": "/dev/null", "devtty": "/dev/tty"}[kind]
    p = subprocess.run(["strace", "-f", "-o", log, "-e", "trace=openat,open,write,pwrite64,writev,ftruncate,truncate,lseek", "-P", target,
                        exe, "one", kind, path, str(size), "r"], stdout=subprocess.PIPE, stderr=subprocess.PIPE, text=True, timeout=120)
    opens, writes, other = [], [], []
    for line in open(log, errors="replace"):
        m = re.search(r"\b(openat|open)\((.*)\)\s*=\s*(-?\d+)", line)
        if m:
            opens.append((m.group(2), int(m.group(3))))
            continue
        m = re.search(r"\b(write|pwrite64|writev)\((\d+),.*?(\d+)\)\s*=\s*(-?\d+)", line)
        if m:
            writes.append((m.group(1), int(m.group(3)), int(m.group(4))))
            continue
        m = re.search(r"\b(ftruncate|truncate)\(", line)
        if m:
            other.append(m.group(1))
    after = open(path, "rb").read() if kind == "file" and os.path.exists(path) else None
    return {"opens": opens, "writes": writes, "other": other, "after": after, "stdout": p.stdout}


def seq_one(run, exe, size, closed, tag):
    """four records from ONE process with a rotation and a descriptor-number reuse in between: every record must be a whole line in the
    file the path names at that moment, written through a descriptor of its own that is gone afterwards"""
    path = os.path.join(run.scratch, "c17-seq-%s.log" % tag)
    for sfx in ("", ".1", ".app"):
        if os.path.exists(path + sfx):
            os.unlink(path + sfx)
    open(path, "wb").write(b"OLD\n")
    p = subprocess.run([exe, "seq", path, str(size), "1" if closed else "0"], stdout=subprocess.PIPE, stderr=subprocess.PIPE, text=True, timeout=120,
                       stdin=subprocess.DEVNULL)
    rd = lambda f: open(f, "rb").read() if os.path.exists(f) else None
    got = {"path": rd(path), "rotated": rd(path + ".1"), "app": rd(path + ".app")}
    rec = lambda k: bytes([48 + k]) * size + b"\n"
    want = {"path": rec(2) + rec(3) + rec(4), "rotated": b"OLD\n" + rec(1), "app": b"APPDATA\n"}
    why = None
    if p.returncode != 0:
        why = "writer process ended with status %d" % p.returncode
    for k in ("rotated", "path", "app"):
        if not why and got[k] != want[k]:
            why = "%s file holds %s bytes, expected %d (records of one process after a rotation / descriptor reuse%s)" % (
                k, None if got[k] is None else len(got[k]), len(want[k]), ", stdin closed" if closed else "")
    if not why:
        for line in p.stdout.splitlines():
            f = line.split()
            if len(f) == 6 and f[0] == "rec" and (int(f[3]) != size + 1 or f[5] != "0"):
                why = "record %s: output returned %s (record is %d bytes), %s descriptor(s) left open afterwards" % (f[1], f[3], size + 1, f[5])
                break
    return why, {"stdout": p.stdout[-400:], "lengths": {k: None if v is None else len(v) for k, v in got.items()}}


def check(run):
    run.snapshot()
    oc = tr_output(run)
    ok, failed, log = run.coq_props(["Properties_C17.v"])
    exe = build_tool(run)
    rng = run.rng
    B = 4096
    sizes = [1, 2, 100, B - 2, B - 1, B, B + 1, 8191, 8192, 8193, 16383, 16384, 20000, 65535, 65536, 131072, 1048575]
    if run.tier == "thorough":
        sizes += [3 * B, 262144, 524288, 1048576] + [rng.randrange(1, 1048576) for _ in range(20)]
    pres = [None, b"", b"old line\n", b"no newline at end", b"x" * 5000 + b"\n"]
    jobs = []
    for i, sz in enumerate(sizes):
        for j, pre in enumerate(pres if (run.tier == "thorough" or i % 3 == 0) else [pres[(i + 1) % len(pres)]]):
            jobs.append(("file", sz, pre, "f%d-%d" % (i, j)))
    jobs.append(("devnull", 20000, None, "dn"))

    def job(a):
        kind, sz, pre, tag = a
        path = os.path.join(run.scratch, "c17-%s.log" % tag)
        return (a, trace_one(run, exe, kind, path, sz, pre, tag))
    res = run_many(job, jobs, workers=8)
    nchk, distinct = 0, set()
    for ((kind, sz, pre, tag), t) in res:
        nchk += 1
        distinct.add((kind, sz, None if pre is None else len(pre)))
        why = None
        good_open = [o for o in t["opens"] if o[1] >= 0]
        if len(good_open) != 1:
            why = "expected exactly one successful open of the destination, saw %d" % len(good_open)
        else:
            fl = good_open[0][0]
            if "O_APPEND" not in fl or "O_TRUNC" in fl or "O_CREAT" not in fl or "O_WRONLY" not in fl:
                why = "destination opened with flags %s (need O_WRONLY|O_CREAT|O_APPEND, no O_TRUNC)" % fl[-80:]
        if not why and t["other"]:
            why = "destination truncated (%s)" % t["other"][0]
        if not why:
            w = t["writes"]
            if len(w) != 1:
                why = "record of %d bytes left in %d write calls %s" % (sz + 1, len(w), [x[1] for x in w][:4])
            elif w[0][1] != sz + 1 or w[0][2] != sz + 1:
                why = "the single write carries %d bytes (returned %d), record is %d bytes" % (w[0][1], w[0][2], sz + 1)
        if not why and kind == "file":
            want = (pre or b"") + b"r" * sz + b"\n"
            if t["after"] != want:
                why = "file content is not old content ++ record (length %s, expected %d)" % (None if t["after"] is None else len(t["after"]), len(want))
        if why:
            run.violation("syscalls:%s" % why.split(" ")[0], "spec_violation", "%s (output %s, record size %d, pre-existing content %s)" % (why, kind, sz, None if pre is None else len(pre)),
                          {"failing_input": {"kind": kind, "size": sz, "pre_len": None if pre is None else len(pre)}, "observed": {"opens": t["opens"][:3], "writes": t["writes"][:6]}})
    # ---- several records of one process, rotation and descriptor reuse in between, with and without descriptor 0 open
    for si, (sz, closed) in enumerate([(1, False), (100, True), (5000, False), (70000, True)]):
        why, obs = seq_one(run, exe, sz, closed, str(si))
        nchk += 4
        distinct.add(("seq", sz, closed))
        if why:
            run.violation("seq:%s" % why.split(" ")[0], "spec_violation", why + " (record size %d)" % sz,
                          {"failing_input": {"seq": True, "size": sz, "stdin_closed": closed}, "observed": obs})
    # ---- concurrent stress as search
    stress = [(2, 200, 100), (4, 100, 5000), (8, 60, 20000), (16, 30, 70000)] if run.tier == "quick" else [(2, 2000, 100), (4, 500, 5000), (8, 300, 20000), (16, 200, 70000), (16, 100, 300000)]
    nst = 0
    for (wr, rec, sz) in stress:
        path = os.path.join(run.scratch, "c17-stress-%d.log" % wr)
        open(path, "wb").write(b"PRE-EXISTING\n")
        subprocess.run([exe, "stress", path, str(wr), str(rec), str(sz)], timeout=600)
        data = open(path, "rb").read()
        lines = data.split(b"\n")
        bad = None
        if lines[0] != b"PRE-EXISTING" or lines[-1] != b"":
            bad = "old content or final newline damaged"
        else:
            seen = set()
            for ln in lines[1:-1]:
                m = re.match(rb"(\d+):(\d+):(.*)$", ln, re.S)
                if not m or len(ln) != sz or set(m.group(3)) - {ord("A") + int(m.group(1)) % 26}:
                    bad = "a line is not a whole record of one writer (length %d)" % len(ln)
                    break
                seen.add((int(m.group(1)), int(m.group(2))))
            if not bad and len(seen) != wr * rec:
                bad = "%d of %d records present" % (len(seen), wr * rec)
        nst += wr * rec
        if bad:
            run.violation("stress:torn", "spec_violation", "%s with %d writers x %d records of %d bytes" % (bad, wr, rec, sz),
                          {"failing_input": {"writers": wr, "records": rec, "size": sz}})
    if not ok and not run.violations:
        run.violation("proof:%s" % failed, "proof", "proof obligation no longer checks: %s\n%s" % (failed, log[-1500:]), {"theorem": failed, "coq_log": log[-3000:]})
    run.coverage.update({
        "evaluations": nchk + nst, "distinct_nontrivial": len(distinct),
        "rule": "strace of one record per (output kind, record size around 4096/8192/16384/65536/1 MiB block boundaries and up to the largest configurable message, "
                "pre-existing content absent/empty/with/without final newline); distinct = (kind, size, pre-existing length); plus concurrent writer processes as search",
        "samples": [{"kind": k, "size": s, "pre": None if p is None else len(p)} for ((k, s, p, t), _) in res[:4]],
        "distribution": {"traced_records": nchk, "stress_records": nst, "file_open": oc.get("file_open_desc")},
        "traces_validated_against_impl": nchk,
    })
    return run.finish(level="proof",
                      trusted_base=["Coq 8.16.1 kernel + vm_compute", "vlib/tr_output.py (fileoutput.c open flags / write pattern)", "strace 6.1 as observer of openat/write"],
                      assumptions=["the kernel performs each write(2) on an O_APPEND descriptor of a local regular file as one indivisible append (not proved)",
                                   "a short write (disk full, signal) is outside the model"])


def replay(run, path):
    rep = json.load(open(path))
    run.snapshot()
    exe = build_tool(run)
    fi = rep.get("failing_input", {})
    if "kind" in fi:
        p = os.path.join(run.scratch, "replay.log")
        t = trace_one(run, exe, fi["kind"], p, fi["size"], None if fi.get("pre_len") is None else b"o" * fi["pre_len"], "replay")
        print("opens:", t["opens"][:3]); print("writes:", t["writes"][:8])
        good = [o for o in t["opens"] if o[1] >= 0]
        bad = (len(good) != 1 or "O_APPEND" not in good[0][0] or "O_TRUNC" in good[0][0] or len(t["writes"]) != 1
               or t["writes"][0][1] != fi["size"] + 1 or bool(t["other"]))
        print("REPRODUCED" if bad else "not reproduced: one append-mode open, one write of the whole record")
        run.cleanup()
        return 1 if bad else 0
    if fi.get("seq"):
        why, obs = seq_one(run, exe, fi["size"], fi["stdin_closed"], "replay")
        print(obs)
        print("REPRODUCED: " + why if why else "not reproduced: every record whole, in the file the path names at that moment, no descriptor left")
        run.cleanup()
        return 1 if why else 0
    if "writers" in fi:
        print("stress finding (writers=%s records=%s size=%s): re-run ./check C17 quick" % (fi["writers"], fi["records"], fi["size"]))
    run.cleanup()
    return 0
