"""C18 - snoopyctl enable adds exactly one entry and preserves the file.

proof:  coq/props/Properties_C18.v over Gen_Preload.v (needle, delimiter set, comment byte, enable guard regenerated from
        cli-subroutines.c / action-enable.c / snoopy.h): the C search loops equal the line-level reference, enable = enable_spec,
        idempotence, status after enable.
tie:    T3 - the real snoopyctl built from the snapshot (ASan+UBSan for corpus/random/small files, plain build for the exhaustive
        enumeration) is run on: absent, empty, every file of <= 3 (quick) / <= 4 (thorough) lines over a 16-line alphabet with and
        without final newline, the <= 2-line files for a path that does not mention the library name, random longer files;
        each as enable; enable; status.  Bytes, exit status and status verdict are compared with the extracted model, and the
        extracted spec_C18_ok is evaluated on what the implementation did.
"""
import os
from vlib.core import VERIF
from vlib.tr_preload import tr_preload
from vlib import preload as pl

PROP = "C18"
KINDS = "E"      # which of the extracted spec checkers this property evaluates (E: enable/enable/status, D: disable, R: round trip)
OPS = "ees"


def gen(run):
    P = pl.P_MAIN
    alpha = pl.alphabet18(P)
    maxl = 3 if run.tier == "quick" else 4
    ex = [pl.case(P, c, OPS) for c in pl.files(alpha, maxl)]
    # copies of the path / the needle back to back: a rejected candidate directly followed by the next one
    ex += [pl.case(P, c, OPS) for c in pl.files(pl.adjacent(P), maxl - 1)]
    # lines as long as the usual fixed buffers (PATH_MAX, stdio block)
    ex += [pl.case(P, c, OPS) for c in pl.long_line_files(P)]
    # printf directives in lines that are kept
    ex += [pl.case(P, c, OPS) for c in pl.files(pl.percent(P), maxl - 1)]
    small = [pl.case(pl.P_PLAIN, c, OPS) for c in pl.files(pl.alphabet18(pl.P_PLAIN), 2)]
    small += [pl.case(P, c, OPS) for c in pl.files(pl.near_miss() + alpha[:6], 2)]        # near misses of the search needle
    nr = 300 if run.tier == "quick" else 5000
    rnd = [pl.case(P, c, OPS) for c in pl.random_files(run.rng, P, nr, alpha)]
    rnd += [pl.case(P, c, "".join(run.rng.choice("eds") for _ in range(run.rng.randrange(2, 7)))) for c in pl.random_files(run.rng, P, nr // 3, alpha)]
    return ex, small, rnd


def unreadable_stream(run, exe, only=None):
    """a caller who is not root and cannot read ld.so.preload but may write its directory: enable / disable must fail and leave the file
    alone (an unreadable file is not an absent one).  Returns list of (action, content, rc, after)."""
    import shutil, subprocess, tempfile
    from vlib.core import BUILD
    launch = os.path.join(BUILD, "harness", "tool_launch")
    base = tempfile.mkdtemp(prefix="sv-C18-nonroot-", dir=os.path.dirname(run.scratch))
    bad = []
    try:
        os.chmod(base, 0o755)
        ctl = os.path.join(base, "snoopyctl")
        shutil.copy(exe, ctl)
        os.chmod(ctl, 0o755)
        w = os.path.join(base, "w")
        os.makedirs(os.path.join(w, "lib"))
        open(os.path.join(w, pl.P_MAIN.decode()), "wb").close()
        for pth in (w, os.path.join(w, "lib"), os.path.join(w, pl.P_MAIN.decode())):
            os.chown(pth, 65534, 65534)
        cases = only or [(a, c) for a in ("enable", "disable") for c in (b"/lib/foreign.so\n", b"# c\n/lib/a.so\n" + pl.P_MAIN + b"\n", pl.P_MAIN + b" /lib/b.so")]
        n = 0
        for (a, c) in cases:
            f = os.path.join(w, "ld.so.preload")
            for x in os.listdir(w):
                if x.startswith("ld.so.preload"):
                    os.unlink(os.path.join(w, x))
            open(f, "wb").write(c)
            os.chown(f, 0, 0)
            os.chmod(f, 0o600)
            p = subprocess.run([launch, "--uid", "65534", "--", ctl, a], cwd=w, stdin=subprocess.DEVNULL, stdout=subprocess.DEVNULL, stderr=subprocess.DEVNULL,
                               env={"PATH": "/usr/bin:/bin", "SNOOPY_TEST_LD_SO_PRELOAD_PATH": "ld.so.preload", "SNOOPY_TEST_LIBSNOOPY_SO_PATH": pl.P_MAIN.decode()}, timeout=60)
            after = open(f, "rb").read() if os.path.exists(f) else None
            n += 1
            if after != c or p.returncode == 0:
                bad.append((a, c, p.returncode, after))
        return n, bad
    finally:
        shutil.rmtree(base, ignore_errors=True)


def check(run):
    run.snapshot()
    tr_preload(run)
    ok, failed, log = run.coq_props(["Properties_C18.v"])
    plain = pl.build_ctl(run, san=False)
    asan = pl.build_ctl(run, san=True)
    corp = pl.corpus_cases(PROP)
    ex, small, rnd = gen(run)
    s_cases = corp + [c for c in ex if len(c) < 260][:1200] + small + rnd      # sanitizer build: corpus, smallest files, other path, random
    r1 = pl.evaluate(run, asan, s_cases, "san", KINDS)
    nv = pl.report(run, PROP, r1, "san", asan, KINDS)
    r2 = pl.evaluate(run, plain, ex, "exh", KINDS)
    nv += pl.report(run, PROP, r2, "exhaustive", plain, KINDS) if not nv else 0
    mism = r1["mismatch"] + r2["mismatch"]
    n_unr, bad_unr = (0, [])
    if os.geteuid() == 0:
        n_unr, bad_unr = unreadable_stream(run, plain)
        for (a, c, rc, after) in bad_unr[:1]:
            run.violation("spec:C18-unreadable", "spec_violation", "snoopyctl %s run by a non-root caller on an UNREADABLE ld.so.preload (mode 0600 root) in a directory it may write: "
                          "must fail and leave the file alone; exit status %d, content before %r, after %r" % (a, rc, c, after),
                          {"stream": "unreadable", "failing_input": {"stream": "unreadable", "action": a, "content": pl.hexs(c)}, "rc": rc, "after": pl.hexs(after)})
            nv += 1
    else:
        run.notes.append("not running as root: the unreadable-file stream (non-root caller) was skipped")
    if not ok and nv == 0:
        run.violation("proof:%s" % failed, "proof", "proof obligation no longer checks: %s | %s\n%s" % (failed, " ; ".join(n for n in run.notes if n.startswith("translator") or n.startswith("skeleton")) or "no translator note", log[-1500:]), {"theorem": failed, "coq_log": log[-3000:]})
    if mism and nv == 0:
        i, c, m, im = mism[0]
        run.violation("corr:enable", "correspondence", "model and snoopyctl differ on %d cases although spec_C18_ok holds on the outputs; first: %s" % (len(mism), pl.show(c)),
                      {"stream": "enable", "first_case": c, "model_output": m, "impl_output": im, "cases": [c]})
    allc = s_cases + ex
    allimpl = r1["impl"] + r2["impl"]
    kinds = {}
    for c, o in zip(allc, allimpl):
        f = o.split("\t")
        if len(f) > 1 and c.endswith("ees"):
            k = pl.outcome(c.split("\t")[2], f[1])[0]
            kinds[k] = kinds.get(k, 0) + 1
    nontrivial = len(set(c for c in allc if b"libsnoopy.so" in (pl.unhex(c.split("\t")[2]) or b"")))
    run.coverage.update({
        "evaluations": len(allc), "distinct_nontrivial": nontrivial,
        "rule": "absent, empty and every file of <= %d lines over the 16-line alphabet (foreign entry, comments with 0/1/2 mentions, blank, entry bare / with trailing "
                "space / tab+comment / comment / second library, alien instance, path as prefix and as suffix, mention in a trailing comment, indented '#', CR) with and "
                "without final newline, run as enable; enable; status against the real snoopyctl; <= 2-line files for a path not mentioning the library; random files of "
                "1..40 lines with random op sequences; non-trivial = distinct case whose content mentions libsnoopy.so" % (3 if run.tier == "quick" else 4),
        "samples": [pl.show(allc[i])[:300] for i in range(0, len(allc), max(1, len(allc) // 5))][:5],
        "distribution": {"corpus_cases": len(corp), "sanitizer_build_cases": len(s_cases), "exhaustive_cases": len(ex), "first_enable_outcomes": kinds,
                         "unreadable_file_cases": n_unr, "spec_lines_evaluated": r1["nspec"] + r2["nspec"], "mismatches": len(mism),
                         "spec_failures": len(r1["spec_bad"]) + len(r2["spec_bad"]), "impl_faults": len(r1["faults"]) + len(r2["faults"])},
        "traces_validated_against_impl": len(allc) - len(mism),
    })
    return run.finish(
        level="proof",
        trusted_base=["Coq 8.16.1 kernel + vm_compute (gen_ok)", "vlib/tr_preload.py (regex over cli-subroutines.c, action-*.c; gcc for SNOOPY_SO_LIBRARY_NAME)",
                      "extraction: ExtrOcamlBasic only; ocaml/common.ml + drv_preload.ml; harness/tool_preload.c; status verdict read from snoopyctl's stdout by fixed substrings"],
        assumptions=["strstr/strchr/strncpy semantics as in Lib/CStr.v", "file contents without NUL bytes; library path non-empty, without newline (DESIGN 10)",
                     "the file is smaller than 2 GiB (readFile keeps its length in an int)"])


def replay(run, path):
    import json
    rep = json.load(open(path))
    fi = rep.get("failing_input")
    if isinstance(fi, dict) and fi.get("stream") == "unreadable":
        run.snapshot()
        exe = pl.build_ctl(run, san=False)
        n, bad = unreadable_stream(run, exe, only=[(fi["action"], pl.unhex(fi["content"]))])
        for (a, c, rc, after) in bad:
            print("snoopyctl %s as uid 65534 on an unreadable file: exit %d, before %r, after %r" % (a, rc, c, after))
        print("violation reproduced" if bad else "file left alone, command failed")
        run.cleanup()
        return 1 if bad else 0
    return pl.replay_cases(run, PROP, path, KINDS)
