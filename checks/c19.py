"""C19 - snoopyctl disable removes only its own entry.

proof:  coq/props/Properties_C19.v over Gen_Preload.v: disable = disable_spec (line-level), untouched on absence / duplicate refusal,
        other lines byte-identical and in order, other tokens preserved, enable-then-disable round trip.
tie:    T3 as C18, with an alphabet that places the entry at every position and lets it share its line with other tokens before and
        after; every file run as disable; status and (round trip) enable; disable.  The extracted spec_C19_ok (line-level result +
        independent token-level check) and spec_roundtrip_ok are evaluated on what the implementation did.
"""
import os
from vlib.core import VERIF
from vlib.tr_preload import tr_preload
from vlib import preload as pl

PROP = "C19"
KINDS = "DR"      # which of the extracted spec checkers this property evaluates (E: enable/enable/status, D: disable, R: round trip)


def gen(run):
    P = pl.P_MAIN
    a19 = pl.alphabet19(P)
    a18 = pl.alphabet18(P)
    maxl = 3 if run.tier == "quick" else 4
    ex = [pl.case(P, c, "ds") for c in pl.files(a19, maxl)]
    ex += [pl.case(P, c, "ds") for c in pl.files(pl.adjacent(P), maxl - 1)]      # rejected candidate directly followed by the next one
    ex += [pl.case(P, c, ops) for c in pl.long_line_files(P) for ops in ("ds", "ed")]      # lines as long as the usual fixed buffers
    ex += [pl.case(P, c, "ds") for c in pl.files(pl.percent(P), maxl - 1)]       # printf directives in lines that are kept
    ex += [pl.case(P, c, "ed") for c in pl.files(pl.percent(P), 2)]
    ex += [pl.case(P, c, "ed") for c in pl.files(a18, 2 if run.tier == "quick" else 3)]
    # a path that does not mention the library name: nothing but the alien line counts as a mention, so most files are rewritten
    ex += [pl.case(pl.P_PLAIN, c, "ds") for c in pl.files(pl.alphabet19(pl.P_PLAIN), maxl)]
    small = [pl.case(pl.P_PLAIN, c, "ds") for c in pl.files(pl.alphabet19(pl.P_PLAIN), 2)]
    small += [pl.case(P, c, "ds") for c in pl.files(pl.near_miss() + a19[:5], 2)]        # near misses of the search needle
    nr = 300 if run.tier == "quick" else 5000
    rnd = [pl.case(P, c, "ds") for c in pl.random_files(run.rng, P, nr, a19 + a18)]
    rnd += [pl.case(P, c, "ed") for c in pl.random_files(run.rng, P, nr // 2, a18)]
    return ex, small, rnd


def check(run):
    run.snapshot()
    tr_preload(run)
    ok, failed, log = run.coq_props(["Properties_C19.v"])
    plain = pl.build_ctl(run, san=False)
    asan = pl.build_ctl(run, san=True)
    corp = pl.corpus_cases(PROP)
    ex, small, rnd = gen(run)
    s_cases = corp + [c for c in ex if len(c) < 260][:1200] + small + rnd
    r1 = pl.evaluate(run, asan, s_cases, "san", KINDS)
    nv = pl.report(run, PROP, r1, "san", asan, KINDS)
    r2 = pl.evaluate(run, plain, ex, "exh", KINDS)
    nv += pl.report(run, PROP, r2, "exhaustive", plain, KINDS) if not nv else 0
    mism = r1["mismatch"] + r2["mismatch"]
    if not ok and nv == 0:
        run.violation("proof:%s" % failed, "proof", "proof obligation no longer checks: %s | %s\n%s" % (failed, " ; ".join(n for n in run.notes if n.startswith("translator") or n.startswith("skeleton")) or "no translator note", log[-1500:]), {"theorem": failed, "coq_log": log[-3000:]})
    if mism and nv == 0:
        i, c, m, im = mism[0]
        run.violation("corr:disable", "correspondence", "model and snoopyctl differ on %d cases although spec_C19_ok holds on the outputs; first: %s" % (len(mism), pl.show(c)),
                      {"stream": "disable", "first_case": c, "model_output": m, "impl_output": im, "cases": [c]})
    allc = s_cases + ex
    allimpl = r1["impl"] + r2["impl"]
    kinds = {}
    for c, o in zip(allc, allimpl):
        f = o.split("\t")
        cf = c.split("\t")
        if len(f) > 1 and cf[3].startswith("d"):
            k = pl.outcome(cf[2], f[1])[0]
            kinds[k] = kinds.get(k, 0) + 1
    nontrivial = len(set(c for c in allc if pl.P_MAIN in (pl.unhex(c.split("\t")[2]) or b"")))
    run.coverage.update({
        "evaluations": len(allc), "distinct_nontrivial": nontrivial,
        "rule": "absent, empty and every file of <= %d lines over a 16-line alphabet with the entry bare, followed by blanks, by a comment mentioning the path, by '#', by one "
                "or several other libraries, preceded by another library, indented, commented out, doubled on its line, with CR, path as prefix of another name, alien instance, "
                "3-mention comment, with and without final newline, run as disable; status; enable; disable round trips over the C18 alphabet; random files of 1..40 lines; "
                "non-trivial = distinct case whose content contains the library path" % (3 if run.tier == "quick" else 4),
        "samples": [pl.show(allc[i])[:300] for i in range(0, len(allc), max(1, len(allc) // 5))][:5],
        "distribution": {"corpus_cases": len(corp), "sanitizer_build_cases": len(s_cases), "exhaustive_cases": len(ex), "disable_outcomes": kinds,
                         "spec_lines_evaluated": r1["nspec"] + r2["nspec"], "mismatches": len(mism),
                         "spec_failures": len(r1["spec_bad"]) + len(r2["spec_bad"]), "impl_faults": len(r1["faults"]) + len(r2["faults"])},
        "traces_validated_against_impl": len(allc) - len(mism),
    })
    return run.finish(
        level="proof",
        trusted_base=["Coq 8.16.1 kernel + vm_compute (gen_ok)", "vlib/tr_preload.py (regex over cli-subroutines.c, action-*.c; gcc for SNOOPY_SO_LIBRARY_NAME)",
                      "extraction: ExtrOcamlBasic only; ocaml/common.ml + drv_preload.ml; harness/tool_preload.c"],
        assumptions=["strstr/strchr/strncpy semantics as in Lib/CStr.v", "file contents without NUL bytes; library path non-empty, without newline (DESIGN 10)",
                     "token statement: the library path is a single token (no blank, '#')", "the file is smaller than 2 GiB"])


def replay(run, path):
    return pl.replay_cases(run, PROP, path, KINDS)
