"""C20 - ld.so.preload is never left half-written.

proof:  coq/props/Properties_C20.v over Gen_PreloadSkel.v (the body of etcLdSoPreload_writeFile as a skeleton term, clang AST):
        the body compiles to a file-operation program, the safety analysis accepts it (gen_ok), hence C20_atomic: for every old
        state, new content and every plan of failures / partial writes / process deaths the preload path holds old or new;
        C20_success: without faults it holds new.  rename(2) atomic = named assumption.
tie:    strace of the real snoopyctl (built from the snapshot) enable/disable runs: the write-type system calls on the preload path
        and the temp path must equal the operation sequence of the compiled program (printed by coqc from the regenerated skeleton);
        final content = the extracted model's prediction.
search: the traced process is killed on entry of every single system call instance from execve to exit_group (= before and after
        each call), and every open/write/fsync/close/rename/fchmod/fchown instance is made to fail with ENOSPC, EIO, EDQUOT
        (strace -e inject); after each run the file must hold the old or the new content.
"""
import json, os, re, shutil, subprocess
from concurrent.futures import ThreadPoolExecutor
from vlib.core import VERIF, BUILD, CheckError, hexs, unhex
from vlib.tr_preload import tr_preload
from vlib import preload as pl

PROP = "C20"
LAUNCH = os.path.join(BUILD, "harness", "tool_launch")
PRE = "ld.so.preload"
ERRNOS = ["ENOSPC", "EIO", "EDQUOT"]
# further errno classes per call: interrupted / would-block writes (stdio gives up, it does not retry), every way a rename can be refused
MORE_ERRNOS = {"write": ["EINTR", "EAGAIN"], "fsync": ["EINTR"], "rename": ["EXDEV", "EACCES", "EPERM", "EBUSY", "EROFS"],
               "fchown": ["EPERM"], "fchmod": ["EPERM"]}
WRITE_TYPE = ["openat", "open", "creat", "write", "pwrite64", "writev", "fsync", "fdatasync", "close", "rename", "renameat", "renameat2",
              "fchmod", "fchown", "ftruncate", "truncate", "unlink", "unlinkat", "link", "linkat"]
LINE = re.compile(r"^(?:\d+\s+)?([a-z_0-9]+)\((.*)\)\s*=\s*(-?\d+|\?)(?:\s.*)?$")


TMPSFX = ".snoopyctl-tmp"


def rm_any(f):
    if os.path.islink(f) or os.path.isfile(f):
        os.unlink(f)
    elif os.path.isdir(f):
        shutil.rmtree(f)


def setup(d, content, extra=None):
    """initial state: the preload file (absent / regular / a symlink to real/ld.so.preload) and what an earlier, killed run may have left
    at the temp path: nothing, a regular file (extra["tmp"] = bytes), a symlink to another file ("symlink"), a directory ("dir")"""
    extra = extra or {}
    os.makedirs(os.path.join(d, "lib"), exist_ok=True)
    open(os.path.join(d, pl.P_MAIN.decode()), "ab").close()
    p = os.path.join(d, PRE)
    for f in os.listdir(d):
        if f.startswith(PRE) or f in ("real", "tmp-target", "second-link"):
            rm_any(os.path.join(d, f))
    if extra.get("link"):
        os.makedirs(os.path.join(d, "real"))
        os.symlink(os.path.join("real", PRE), p)
        if content is not None:
            open(os.path.join(d, "real", PRE), "wb").write(content)
    elif content is not None:
        open(p, "wb").write(content)
        if extra.get("hard"):
            os.link(p, os.path.join(d, "second-link"))        # the preload file has a second hard link (st_nlink = 2)
    t = extra.get("tmp")
    if t == "symlink":
        open(os.path.join(d, "tmp-target"), "wb").write(b"/lib/target-of-stale-link.so\n")
        os.symlink("tmp-target", p + TMPSFX)
    elif t == "dir":
        os.makedirs(p + TMPSFX)
    elif isinstance(t, bytes):
        open(p + TMPSFX, "wb").write(t)


def extra_str(extra):
    if not extra:
        return ""
    t = extra.get("tmp")
    return " [%s%s%s%s%s]" % ("preload file has a second hard link; " if extra.get("hard") else "", "preload file is a symlink; " if extra.get("link") else "",
                            ("started with fd %s closed; " % ",".join(map(str, extra["closed"]))) if extra.get("closed") else "",
                            ("file size limit %d bytes, SIGXFSZ ignored; " % extra["fsize"]) if extra.get("fsize") is not None else "",
                            "no stale temp file" if t is None else ("stale temp file: %s" % (t if isinstance(t, str) else "%d bytes %r" % (len(t), t[:40]))))


def extra_enc(extra):
    extra = extra or {}
    t = extra.get("tmp")
    return {"link": bool(extra.get("link")), "tmp": None if t is None else (t if isinstance(t, str) else "hex:" + hexs(t)),
            "closed": list(extra.get("closed") or []), "fsize": extra.get("fsize"), "hard": bool(extra.get("hard"))}


def extra_dec(e):
    e = e or {}
    t = e.get("tmp")
    return {"link": bool(e.get("link")), "tmp": None if t is None else (unhex(t[4:]) if t.startswith("hex:") else t),
            "closed": list(e.get("closed") or []), "fsize": e.get("fsize"), "hard": bool(e.get("hard"))}


def state(d):
    """what the loader would read at the preload path (through a symlink if it is one); None = no file"""
    p = os.path.join(d, PRE)
    return open(p, "rb").read() if os.path.exists(p) else None


def launcher(extra):
    """process-state part of an initial state: descriptors closed at start, file-size limit with SIGXFSZ ignored (real short writes)"""
    extra = extra or {}
    pre = []
    for fd in extra.get("closed") or []:
        pre += ["--close", str(fd)]
    if extra.get("fsize") is not None:
        pre += ["--fsize", str(extra["fsize"])]
    if not pre:
        return []
    if not os.path.exists(LAUNCH):
        raise CheckError("%s missing: run MANIFEST.setup_cmd" % LAUNCH)
    return [LAUNCH] + pre + ["--"]


def strace_run(exe, d, action, inject=None, log=None, extra=None):
    cmd = ["strace", "-o", log or "/dev/null"]
    for i in ([inject] if isinstance(inject, str) else (inject or [])):
        cmd += ["-e", "inject=" + i]
    cmd += ["-E", "SNOOPY_TEST_LD_SO_PRELOAD_PATH=" + PRE, "-E", "SNOOPY_TEST_LIBSNOOPY_SO_PATH=" + pl.P_MAIN.decode()] + launcher(extra) + [exe, action]
    p = subprocess.run(cmd, cwd=d, env={"PATH": "/usr/bin:/bin"}, stdin=subprocess.DEVNULL, stdout=subprocess.DEVNULL, stderr=subprocess.DEVNULL, timeout=60)
    return p.returncode


def parse_trace(log):
    out = []
    for line in open(log, errors="replace"):
        m = LINE.match(line.rstrip("\n"))
        if m:
            out.append((m.group(1), m.group(2), m.group(3)))
    return out


def canonical(calls):
    """the write-type operations on the preload path and its siblings, in the vocabulary of Preload/WriteSkel.v act_word"""
    fds = {}          # fd -> "path" | "tmp:<name>" for files opened for writing; "ro" for read-only opens of our files
    words = []

    def which(name):
        if name == PRE:
            return "path"
        if name.startswith(PRE):
            return "tmp"
        return None
    for (nm, args, ret) in calls:
        if nm in ("openat", "open", "creat"):
            m = re.search(r'"((?:[^"\\]|\\.)*)"(?:,\s*([A-Z_|0-9]+))?', args)
            if not m:
                continue
            w = which(m.group(1))
            if not w:
                continue
            flags = m.group(2) or ""
            if "O_WRONLY" in flags or "O_RDWR" in flags or nm == "creat":
                mode = "w" if "O_TRUNC" in flags or nm == "creat" else ("a" if "O_APPEND" in flags else "rw")
                words.append("open:%s%s" % (w, "" if mode == "w" else ":" + mode))
                if ret not in ("?",) and int(ret) >= 0:
                    fds[ret] = w
            elif ret != "?" and int(ret) >= 0:
                fds[ret] = "ro"
        elif nm in ("write", "pwrite64", "writev", "fsync", "fdatasync", "close", "fchmod", "fchown", "ftruncate"):
            fd = args.split(",")[0].strip()
            if fd in fds:
                if fds[fd] != "ro":
                    words.append({"write": "write", "pwrite64": "write", "writev": "write", "fsync": "fsync", "fdatasync": "fsync", "close": "close",
                                  "fchmod": "meta", "fchown": "meta", "ftruncate": "truncate:" + fds[fd]}[nm])
                if nm == "close":
                    del fds[fd]
        elif nm in ("rename", "renameat", "renameat2"):
            names = re.findall(r'"((?:[^"\\]|\\.)*)"', args)
            ws = [which(n) for n in names]
            if any(ws):
                words.append("rename:%s:%s" % tuple((w or "other") for w in ws[:2]))
        elif nm in ("unlink", "unlinkat", "truncate"):
            names = re.findall(r'"((?:[^"\\]|\\.)*)"', args)
            if names and which(names[0]):
                words.append("%s:%s" % ("unlink" if nm.startswith("unlink") else "truncate", which(names[0])))
    # collapse: consecutive writes are one write; metadata calls are optional
    out = []
    for w in words:
        if w == "meta":
            continue
        if w == "write" and out and out[-1] == "write":
            continue
        out.append(w)
    return out


def expected_words(trace, newlen):
    out = []
    for w in trace:
        if w == "meta":
            continue
        if w == "print":
            continue
        if w == "flush":
            if newlen > 0:
                out.append("write")
            continue
        out.append(w)
    return out


def contents(run):
    P = pl.P_MAIN
    big = b"/lib/x%d.so\n"
    bigc = b"".join(big % i for i in range(900))            # > 2 stdio blocks
    cs = [("enable", None), ("enable", b""), ("enable", b"/lib/foreign.so\n"), ("enable", b"/lib/foreign.so"), ("enable", bigc),
          ("enable", P + b"\n"), ("enable", b"/opt/libsnoopy.so\n"), ("enable", b"/lib/50%done.so\n# 100% sure %s%s%s\n/x/%d-%u/%5c.so %%\n"),
          ("disable", b"/lib/50%done.so\n" + P + b" /x/%d-%u/%5c.so # 100% sure %s\n%%\n"),
          ("disable", P + b"\n"), ("disable", b"a\n" + P + b"\nb\n"), ("disable", P + b" /lib/other.so\n"), ("disable", bigc + P + b" # c\n" + bigc),
          ("disable", None), ("disable", b"# nothing\n")]
    if run.tier == "thorough":
        a = pl.alphabet18(P) + pl.alphabet19(P)
        for c in pl.random_files(run.rng, P, 190, a):
            cs.append((run.rng.choice(["enable", "disable"]), c))
    return cs


def with_states(run, cs, news):
    """(action, content, new, extra): every case from a clean directory; the cases that rewrite the file also with what an earlier killed
    run may have left at the temp path (shorter / as long as / longer than the new content, a symlink, a directory) and with the preload
    file being a symlink"""
    out = [(a, c, n, None) for (a, c), n in zip(cs, news)]
    writers = [(a, c, n) for (a, c), n in zip(cs, news) if n != c and len(n or b"") < 200]
    pick = writers if run.tier == "thorough" else [w for w in writers if w[1] in (b"/lib/foreign.so\n", b"a\n" + pl.P_MAIN + b"\nb\n")]
    for (a, c, n) in pick:
        n_ = n or b""
        stale = [n_[:len(n_) // 2], b"J" * len(n_), n_ + b"/opt/old/lib/libsnoopy.so\n/lib/stale-tail.so\n", "symlink", "dir"]
        for t in stale:
            out.append((a, c, n, {"tmp": t}))
        out.append((a, c, n, {"link": True}))
        out.append((a, c, n, {"link": True, "tmp": n_ + b"#tail\n"}))
        if c is not None:
            out.append((a, c, n, {"hard": True}))
        # started without stdin / stdout / stderr: the next descriptor opened IS that number
        for closed in ([0], [1], [2], [0, 1, 2]):
            out.append((a, c, n, {"closed": closed}))
    # real short writes: a file size limit below, inside, at and just above the size of the new content
    for (a, c, n) in writers if run.tier == "thorough" else [w for w in writers if w[1] in (b"/lib/foreign.so\n", b"a\n" + pl.P_MAIN + b"\nb\n", b"")] + \
            [(a, c, n) for (a, c), n in zip(cs, news) if n != c and len(n or b"") >= 200][:2]:
        L = len(n or b"")
        for lim in sorted(set([0, 1, L // 2, max(0, L - 1), L, L + 1, 4096, 4097, 8192])):
            if lim <= L + 1:
                out.append((a, c, n, {"fsize": lim}))
    return out


def inj_list(f):
    """strace -e inject= expressions of a fault: {kind kill|error, syscall, when, errno, persist, first: {syscall, when, errno}}"""
    if not f:
        return []
    out = []
    if f.get("first"):
        g = f["first"]
        out.append("%s:error=%s:when=%d" % (g["syscall"], g["errno"], g["when"]))
    if f["kind"] == "kill":
        out.append("%s:signal=SIGKILL:when=%d" % (f["syscall"], f["when"]))
    else:
        out.append("%s:error=%s:when=%d%s" % (f["syscall"], f["errno"], f["when"], "+" if f.get("persist") else ""))
    return out


def fault_str(f):
    if not f:
        return "undisturbed run"
    s = ("killed on entry of %s #%d" % (f["syscall"], f["when"])) if f["kind"] == "kill" else \
        ("%s on entry of %s #%d%s" % (f["errno"], f["syscall"], f["when"], " and every later one" if f.get("persist") else ""))
    if f.get("first"):
        g = f["first"]
        s = "%s at %s #%d, then %s" % (g["errno"], g["syscall"], g["when"], s)
    return s


READ_ERRNOS = ["EIO"]
FIRST_FAULTS = [("rename", 1, "EBUSY"), ("rename", 1, "EXDEV")]      # a refused rename, then a second fault in whatever the code does next


def one_case(run, exe, trace_model, idx, action, content, new, extra=None):
    """returns dict(trace_ok, observed, violations[list of dict], runs)"""
    d = os.path.join(run.scratch, "c20-%d" % idx)
    os.makedirs(d, exist_ok=True)
    res = {"violations": [], "runs": 0, "trace_mismatch": None}
    allowed = [content or b"", new or b""]          # an absent and an empty preload file are the same content (no entries)
    # --- the reference run
    setup(d, content, extra)
    log = os.path.join(run.scratch, "c20-trace-%d.log" % idx)
    rc = strace_run(exe, d, action, log=log, extra=extra)
    res["runs"] += 1
    calls = parse_trace(log)
    final = state(d)
    obs = canonical(calls)
    changed = new != content
    exp = expected_words(trace_model, len(new or b"")) if changed else []
    isdir = bool(extra and extra.get("tmp") == "dir")       # the temp path is a directory: snoopyctl must fail and leave the file alone
    if (final or b"") != ((content if isdir else new) or b""):
        res["violations"].append({"why": "final content of the undisturbed run differs from the model's prediction", "fault": None, "after": hexs(final)})
    limited = bool(extra and extra.get("fsize") is not None)
    if limited:
        # under a file size limit the run either fails cleanly (old content) or, when everything fits, succeeds (new content)
        fits = extra["fsize"] >= len(new or b"")
        res["violations"] = []
        if (final or b"") not in allowed or (fits and (final or b"") != (new or b"")):
            res["violations"].append({"why": "preload file is neither the old nor the complete new content" if (final or b"") not in allowed else "the new content fits under the limit but was not written",
                                      "fault": None, "after": hexs(final), "rc": rc})
        res["observed"], res["nsys"] = obs, len(calls)
        shutil.rmtree(d, ignore_errors=True)
        return res
    if obs != exp and not (extra and extra.get("tmp") in ("dir",)):
        res["trace_mismatch"] = {"observed": obs, "expected": exp}
    res["observed"] = obs
    res["nsys"] = len(calls)
    if res["violations"]:
        shutil.rmtree(d, ignore_errors=True)
        return res                       # the undisturbed run is already wrong: that is the replay
    # --- kill on entry of every system call instance
    counts = {}
    plan = []
    for (nm, _, _) in calls:
        counts[nm] = counts.get(nm, 0) + 1
        plan.append(("kill", nm, counts[nm], None))
    # one past the last instance of each call: nothing to hit, the run must complete (sanity of the injection itself)
    for nm, n in counts.items():
        # strace's error injection suppresses the call itself: a suppressed close() leaves the descriptor open, which no failing close does
        # on Linux (the descriptor is always released).  Harmless normally; when the process was started without fd 0/1/2 the leaked temp-file
        # descriptor IS one of them and later output lands in the renamed file - an artefact of the injection, so close is not failed there.
        if nm == "close" and extra and extra.get("closed"):
            continue
        if nm in WRITE_TYPE:
            for k in range(1, n + 1):
                for e in ERRNOS + MORE_ERRNOS.get(nm, []):
                    plan.append(("error", nm, k, e))
        if nm in ("read", "pread64") and not extra:
            # read faults while the old content is loaded: once, and from that call on (a file below the stdio block is ONE read)
            for k in range(1, n + 1):
                for e in READ_ERRNOS:
                    plan.append(("error", nm, k, e))
                    plan.append(("error+", nm, k, e))
    faults = [{"kind": "kill" if kind == "kill" else "error", "syscall": nm, "when": k, "errno": e, "persist": kind == "error+", "first": None} for (kind, nm, k, e) in plan]
    # --- double faults: the rename is refused, then the process is killed / a write-type call fails in what follows
    if not extra and changed and len(new or b"") < 200:
        for (fn_, fk, fe) in FIRST_FAULTS:
            first = {"syscall": fn_, "when": fk, "errno": fe}
            setup(d, content, extra)
            log2 = os.path.join(run.scratch, "c20-trace2-%d.log" % idx)
            strace_run(exe, d, action, inject=["%s:error=%s:when=%d" % (fn_, fe, fk)], log=log2, extra=extra)
            res["runs"] += 1
            after = state(d)
            if (after or b"") not in allowed:
                res["violations"].append({"why": "preload file is neither the old nor the new content", "fault": {"kind": "error", "syscall": fn_, "when": fk, "errno": fe, "persist": False, "first": None},
                                          "after": hexs(after), "rc": 0})
                continue
            c2, seen_first, cnt2 = parse_trace(log2), False, {}
            for (nm, _, _) in c2:
                cnt2[nm] = cnt2.get(nm, 0) + 1
                if nm == fn_ and cnt2[nm] == fk:
                    seen_first = True
                    continue
                if not seen_first:
                    continue            # before the first fault a second one is a single fault, covered above
                faults.append({"kind": "kill", "syscall": nm, "when": cnt2[nm], "errno": None, "persist": False, "first": first})
                if nm in WRITE_TYPE and nm != "close":
                    for e in ("ENOSPC", "EIO"):
                        faults.append({"kind": "error", "syscall": nm, "when": cnt2[nm], "errno": e, "persist": False, "first": first})
    for f in faults:
        setup(d, content, extra)
        rc = strace_run(exe, d, action, inject=inj_list(f), extra=extra)
        res["runs"] += 1
        after = state(d)
        if (after or b"") not in allowed:
            res["violations"].append({"why": "preload file is neither the old nor the new content", "fault": f, "after": hexs(after), "rc": rc})
            if len(res["violations"]) >= 3:
                break
    shutil.rmtree(d, ignore_errors=True)
    return res


def corpus_plans():
    """corpus/C20/*.txt: action, content(hex), kill|error, syscall, instance, errno"""
    out = []
    d = os.path.join(VERIF, "corpus", PROP)
    if os.path.isdir(d):
        for fn in sorted(os.listdir(d)):
            if fn.endswith(".txt"):
                for line in open(os.path.join(d, fn)):
                    f = line.rstrip("\n").split("\t")
                    if len(f) in (6, 8, 10) and not line.startswith("#"):
                        extra = None
                        if len(f) >= 8:      # + temp-file state (- | hex:<hex> | symlink | dir), preload file is a symlink (0|1)
                            extra = extra_dec({"tmp": None if f[6] == "-" else f[6], "link": f[7] == "1", "hard": f[7] == "h"})
                        if len(f) == 10:     # + descriptors closed at start (- | 0,1,2), file size limit (- | bytes)
                            extra["closed"] = [] if f[8] == "-" else [int(x) for x in f[8].split(",")]
                            extra["fsize"] = None if f[9] == "-" else int(f[9])
                        out.append((f[0], unhex(f[1]), f[2], f[3], int(f[4]), None if f[5] == "-" else f[5], extra))
    return out


def run_plan(run, exe, idx, plan, new):
    (action, content, kind, nm, k, e, extra) = plan
    d = os.path.join(run.scratch, "c20-corpus-%d" % idx)
    os.makedirs(d, exist_ok=True)
    setup(d, content, extra)
    # kind: none | kill | error | error+ (persisting), optionally preceded by a first fault "<syscall>.<instance>.<errno>>"
    first = None
    if ">" in kind:
        a, kind = kind.split(">", 1)
        fs, fk, fe = a.split(".")
        first = {"syscall": fs, "when": int(fk), "errno": fe}
    f = None if kind == "none" else {"kind": "kill" if kind == "kill" else "error", "syscall": nm, "when": k, "errno": e, "persist": kind == "error+", "first": first}
    rc = strace_run(exe, d, action, inject=inj_list(f), extra=extra)
    after = state(d)
    shutil.rmtree(d, ignore_errors=True)
    fits = extra and extra.get("fsize") is not None and extra["fsize"] >= len(new or b"") and kind == "none"
    if (after or b"") not in (content or b"", new or b"") or (fits and (after or b"") != (new or b"")):
        return {"why": "preload file is neither the old nor the new content", "fault": f, "after": hexs(after), "rc": rc}
    return None


def model_new(run, cs):
    lines = [pl.case(pl.P_MAIN, c, "e" if a == "enable" else "d") for (a, c) in cs]
    out = pl.run_model(run, lines, "c20")
    news = []
    for (a, c), o in zip(cs, out):
        fld = o.split("\t")[1]
        news.append(unhex(fld.partition(":")[2]))
    return news


def check(run):
    run.snapshot()
    tr_preload(run)
    ok, failed, log = run.coq_props(["Properties_C20.v"])
    dm = re.search(r'"C20DIAG ([^"]*)"', log or "")
    if dm and dm.group(1) != "ok":
        run.notes.append("skeleton: " + dm.group(1))
    m = re.search(r'"C20TRACE ?([^"]*)"', log or "")
    trace_model = m.group(1).split() if m else []
    exe = pl.build_ctl(run, san=False)
    cs = contents(run)
    news = model_new(run, cs)
    # --- corpus first
    plans = corpus_plans()
    pnews = model_new(run, [(p[0], p[1]) for p in plans]) if plans else []
    corpus_bad = []
    for i, (pl_, pn) in enumerate(zip(plans, pnews)):
        v = run_plan(run, exe, i, pl_, pn)
        if v:
            corpus_bad.append((pl_, pn, v))

    full = with_states(run, cs, news)

    def job(i):
        return one_case(run, exe, trace_model, i, full[i][0], full[i][1], full[i][2], full[i][3])
    with ThreadPoolExecutor(pl.WORKERS) as ex:
        results = list(ex.map(job, range(len(full))))
    nruns = sum(r["runs"] for r in results) + len(plans)
    nv = 0
    seen = set()
    for (pl_, pn, v) in corpus_bad:
        f = v["fault"]
        sig = "atomic:%s" % ((("double-" if f.get("first") else "") + ("read-" if f["syscall"] in ("read", "pread64") else "") + f["kind"]) if f else "final")
        if sig in seen:
            continue
        seen.add(sig)
        what = fault_str(f)
        run.violation(sig, "spec_violation", "%s: snoopyctl %s%s, %s (corpus case); old=%r new=%r found=%r" % (v["why"], pl_[0], extra_str(pl_[6]), what, (pl_[1] or b"")[:60], (pn or b"")[:60], (unhex(v["after"]) or b"")[:80]),
                      {"failing_input": {"action": pl_[0], "content": hexs(pl_[1]), "fault": f, "state": extra_enc(pl_[6])}, "old": hexs(pl_[1]), "new": hexs(pn), "after": v["after"]})
        nv += 1
    for (a, c, new, extra), r in zip(full, results):
        for v in r["violations"]:
            f = v["fault"]
            sig = "atomic:%s" % ((("double-" if f.get("first") else "") + ("read-" if f["syscall"] in ("read", "pread64") else "") + f["kind"]) if f else "final")
            if sig in seen:
                continue
            seen.add(sig)
            what = fault_str(f)
            run.violation(sig, "spec_violation", "%s: snoopyctl %s%s, %s; old=%r new=%r found=%r" % (v["why"], a, extra_str(extra), what, (c or b"")[:60], (new or b"")[:60], (unhex(v["after"]) or b"")[:80]),
                          {"failing_input": {"action": a, "content": hexs(c), "fault": f, "state": extra_enc(extra)}, "old": hexs(c), "new": hexs(new), "after": v["after"]})
            nv += 1
    mism = [((full[i][0], full[i][1]), r["trace_mismatch"]) for i, r in enumerate(results) if r["trace_mismatch"]]
    if not ok and nv == 0:
        run.violation("proof:%s" % failed, "proof", "proof obligation no longer checks: %s | %s\n%s" % (failed, " ; ".join(n for n in run.notes if n.startswith("translator") or n.startswith("skeleton")) or "no translator note", (log or "")[-1500:]), {"theorem": failed, "coq_log": (log or "")[-3000:]})
    elif mism and nv == 0:
        (a, c), t = mism[0]
        run.violation("corr:trace", "correspondence", "system calls on the preload path differ from the compiled program's operations in %d of %d runs; first: %s observed %s expected %s"
                      % (len(mism), len(full), a, t["observed"], t["expected"]), {"action": a, "content": hexs(c), "trace": t})
    run.coverage.update({
        "evaluations": nruns, "distinct_nontrivial": sum(1 for (a, c, n, x) in full if n != c),
        "rule": "initial states: preload file absent / regular / a symlink, temp path free or holding what an earlier killed run left (regular file shorter, as long as, longer than the new "
                "content; a symlink; a directory); for each (action, initial state): one traced run (system calls on the preload path and its temp sibling = operation sequence of the program compiled from the "
                "regenerated skeleton; final content = extracted model), then one run per system call instance of that trace killed (SIGKILL) on entry of the call, and one run per "
                "open/write/fsync/close/rename/fchmod/fchown instance x {ENOSPC, EIO, EDQUOT}; after each, the file must be the old or the new content; "
                "non-trivial = case in which the content changes",
        "samples": [{"action": a, "content": ("~" if c is None else c[:60].decode("latin1")), "state": extra_enc(x), "syscalls": r["nsys"], "ops": r["observed"]} for (a, c, n, x), r in list(zip(full, results))[::max(1, len(full) // 5)][:5]],
        "distribution": {"cases": len(full), "cases_with_stale_temp_or_symlink": sum(1 for f in full if f[3]), "corpus_plans": len(plans), "runs": nruns, "model_trace": trace_model, "trace_mismatches": len(mism),
                         "violations": sum(len(r["violations"]) for r in results)},
        "traces_validated_against_impl": len(full) - len(mism),
    })
    return run.finish(
        level="proof",
        trusted_base=["Coq 8.16.1 kernel + vm_compute (gen_ok, actions_ok)", "vlib/skel.py (clang AST -> skeleton), Preload/WriteSkel.v compile (skeleton -> file operations)",
                      "strace 6.x as observer and as fault/kill injector", "extraction + drv_preload for the predicted new content"],
        assumptions=["rename_atomic: rename(2) replaces the directory entry atomically (crash before or after, never in between)",
                     "crash = death of the process with the page cache intact (kill), not power loss; the analysis additionally demands fflush+fsync before the rename",
                     "stdio model: fprintf may push any prefix of the buffered bytes to the file, fflush/fclose push the rest, a failing write may have written any prefix",
                     "the temp file's inode is not hard-linked to the preload file (init_ok)"])


def replay(run, path):
    rep = json.load(open(path))
    run.snapshot()
    tr_preload(run)
    exe = pl.build_ctl(run, san=False)
    fi = rep.get("failing_input") or {}
    if "action" not in fi:
        print("no concrete case in this replay file (%s)" % rep.get("kind"))
        run.cleanup()
        return 0
    a, c, f = fi["action"], unhex(fi["content"]), fi.get("fault")
    extra = extra_dec(fi.get("state"))
    new = model_new(run, [(a, c)])[0]
    d = os.path.join(run.scratch, "c20-replay")
    os.makedirs(d, exist_ok=True)
    setup(d, c, extra)
    inj = inj_list(f)
    rc = strace_run(exe, d, a, inject=inj, log=os.path.join(run.scratch, "replay-t.log"), extra=extra)
    after = state(d)
    print("action:", a, "fault:", f, "initial state:", extra_str(extra) or "clean directory")
    print(" old:  ", c)
    print(" new:  ", new)
    print(" found:", after, "rc", rc)
    print(" last system calls:", [x[0] for x in parse_trace(os.path.join(run.scratch, "replay-t.log"))][-8:])
    bad = (after or b"") not in (c or b"", new or b"")
    print("violation reproduced" if bad else "file holds old or new content")
    run.cleanup()
    return 1 if bad else 0
