From Coq Require Import Extraction ExtrOcamlBasic.
From Snoopy Require Import Conc.DList Conc.Tsrm Conc.Exec.
Extraction "model_conc.ml" Exec.macro Exec.peek Exec.faulted Exec.finished Exec.fork_experiment Tsrm.init Tsrm.step Tsrm.child_of
  DList.push DList.remove DList.fetchNext DList.empty_heap DList.empty_list Byte.to_N Byte.of_N.
