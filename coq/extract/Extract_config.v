From Coq Require Import Extraction ExtrOcamlBasic.
From Snoopy Require Import Lib.CStr Config.Model Config.Grammar Config.Exec.
Extraction "model_config.ml" Model.ini_events Exec.model_load Exec.model_cb Exec.model_conf Exec.model_ast Exec.shown_of Exec.spec_load_ok Exec.spec_option_ok Exec.opt_of_name Exec.opt_eqb Exec.config_consts_ok Byte.to_N Byte.of_N.
