From Coq Require Import Extraction ExtrOcamlBasic.
From Snoopy Require Import Lib.CStr Datasource.Cmdline DsTruth.Model DsTruth.Exec.
Extraction "model_dstruth.ml" Exec.run_eval Exec.run_doc Exec.cgroup_ds Exec.rpname_ds Model.cgroup_select Model.cgroup_spec Model.env_all Model.env_all_spec Byte.to_N Byte.of_N.
