From Coq Require Import Extraction ExtrOcamlBasic.
From Snoopy Require Import Lib.CStr Expand.Model Expand.Exec Datasource.Cmdline.
Extraction "model_expand.ml" Exec.generate_det Exec.spec_det Exec.errors_det Cmdline.cmdline Cmdline.filename_ds Byte.to_N Byte.of_N.
