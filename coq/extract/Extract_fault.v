From Coq Require Import Extraction ExtrOcamlBasic.
From Snoopy Require Import Lib.CStr Expand.Model Fault.IO Fault.Model Fault.Table Fault.Exec.
Extraction "model_fault.ml" Exec.accept_wrapper Exec.spec_trace_bad Table.enumerated Model.fault_consts_ok Byte.to_N Byte.of_N.
