From Coq Require Import Extraction ExtrOcamlBasic.
From Snoopy Require Import Lib.CStr Filter.Model Filter.Exec.
Extraction "model_filter.ml" Exec.elems Exec.chain_tab Exec.spec_C07_ok Exec.chain_full Exec.uid_filter Exec.spec_C14_ok Exec.spec_C14_complement Exec.wf_list Exec.csv Exec.fimpl_tag Model.filter_consts_ok Model.chain_consts_ok Model.uid_consts_ok Byte.to_N Byte.of_N.
