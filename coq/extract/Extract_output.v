From Coq Require Import Extraction ExtrOcamlBasic.
From Snoopy Require Import Lib.CStr Output.Model Output.Exec.
Extraction "model_output.ml" Exec.predict Exec.predict_el Exec.sink_tag Exec.sink_name Byte.to_N Byte.of_N.
