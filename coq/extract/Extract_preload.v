From Coq Require Import Extraction ExtrOcamlBasic.
From Snoopy Require Import Lib.CStr Preload.Lines Preload.Model Preload.Exec.
Extraction "model_preload.ml" Model.enable Model.disable Model.status Model.enable_spec Model.status_spec Model.domb
  Exec.disable_spec Exec.spec_C18_ok Exec.spec_C19_ok Exec.spec_roundtrip_ok Exec.tokenlike Exec.status_dom Exec.tokens
  Byte.to_N Byte.of_N.
