From Coq Require Import Extraction ExtrOcamlBasic.
From Snoopy Require Import Lib.CStr Safety.Mem Safety.Consts Safety.Exec Expand.Model Expand.Exec Datasource.Cmdline.
Extraction "model_safety.ml" Byte.to_N Byte.of_N Safety.Exec.x_append Safety.Exec.x_gen Safety.Exec.x_chain Safety.Exec.x_csv Safety.Exec.x_bytelen
  Safety.Exec.x_facility Safety.Exec.x_level Safety.Exec.x_sysval Safety.Exec.x_outsplit Safety.Exec.x_getbool Safety.Exec.x_ini
  Safety.Exec.x_cmdline Safety.Exec.x_envall Safety.Exec.x_hostname Safety.Exec.x_login Safety.Exec.x_datetime Safety.Exec.x_snprintf
  Safety.Exec.x_cfgload Safety.Exec.x_cgroup Safety.Exec.x_rpname Safety.Exec.x_spawns Safety.Exec.x_errcycle Safety.Exec.x_sockaddr Safety.Exec.x_devlog Safety.Exec.x_fileline Safety.Exec.x_smallfile.
