From Coq Require Import Extraction ExtrOcamlBasic.
From Snoopy Require Import Lib.CStr Spawns.Model Spawns.Exec.
Extraction "model_spawns.ml" Exec.filter_run Exec.spec_C15_ok Exec.render_check Model.parse_stat Model.token_array Model.names_of Byte.to_N Byte.of_N.
