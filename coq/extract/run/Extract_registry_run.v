(** C13: per-run extraction.  Unlike the other areas the extracted program contains the tables of THIS run
    (Gen_Registry.consts, regenerated from the working tree), i.e. exactly the terms the theorems of
    props/Properties_C13.v are instantiated with; compiled by checks/c13.py in the run's scratch directory. *)
From Coq Require Import Extraction ExtrOcamlBasic.
From Snoopy Require Import Registry.Model Registry.Exec Registry.Options.
From Gen Require Import Gen_Registry.
Extraction "model_registry.ml" Gen_Registry.consts Gen_Registry.options Options.opt_find Options.opt_select Options.parser_of Options.getter_of
  Exec.model_names_arr Exec.model_ptrs_arr Exec.model_call Exec.model_call_id Exec.model_count Exec.model_get_name Exec.model_dispatch Exec.model_chain Exec.spec_chain_ok Exec.model_exec Exec.spec_exec_ok Exec.model_thread_expect
  Exec.spec_C13_ok Exec.model_fixed Exec.model_all_names Exec.cfg_of
  Model.get_id Model.get_count Model.get_name Model.does_id_exist Model.does_name_exist.
