(** Whole-run model: per-run extraction containing the constants of THIS run (Gen_*: regenerated from the working tree),
    i.e. the terms the end-to-end theorems of props/Properties_C04.v are instantiated with. *)
From Coq Require Import Extraction ExtrOcamlBasic.
From Snoopy Require Import Lib.CStr Config.Model Filter.Model Expand.Model Expand.Exec Output.Model Output.Exec System.Compose System.Exec System.Full DsTruth.Model DsTruth.Exec.
From Gen Require Import Gen_Config Gen_Filter Gen_Expand Gen_Cmdline Gen_Output Gen_Errors Gen_Sys Gen_Ds.
Definition SC : sys_consts :=
  {| sc_cfg := Gen_Config.consts; sc_flt := Gen_Filter.consts; sc_exp := Gen_Expand.consts; sc_out := Gen_Output.consts;
     sc_err := Gen_Errors.err_append_text; sc_filtering := Gen_Sys.filtering_compiled |}.
Definition run_sys := sys_run SC Gen_Sys.dsc Gen_Cmdline.consts.
Definition run_sys_full := sys_run_full SC Gen_Ds.gen Gen_Cmdline.consts.
Extraction "model_system.ml" run_sys run_sys_full Exec.sink_tag Exec.sink_name Byte.to_N Byte.of_N.
