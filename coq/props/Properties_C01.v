(** C01 — Exec calls pass through unchanged, exactly once, after logging.
    Statements over the wrapper skeletons regenerated from the source (Gen_Wrapper, clang AST)
    and the library's call set (Gen_Calls, nm -u + AST). *)
From Coq Require Import String ZArith List Bool.
From Snoopy Require Import Lib.Skel Wrapper.Model.
From Gen Require Import Gen_Wrapper Gen_Calls.
Import ListNotations.
Local Open Scope string_scope.
Local Open Scope list_scope.

Definition LOG := "snoopy_action_log_syscall_exec".

Lemma execve_shape : wrapper_ok "execve" 3 LOG sk_execve = true.
Proof. vm_compute. reflexivity. Qed.
Lemma execv_shape : wrapper_ok "execv" 2 LOG sk_execv = true.
Proof. vm_compute. reflexivity. Qed.

(** For every world, every behaviour of every callee and every behaviour of the real function:
    the wrapper calls the real execve exactly once, with its own three parameters, on the world left
    by all the logging work, nothing runs after it, and its result is what the wrapper returns. *)
Theorem C01_execve_once_last : forall (world : Type) callee real (w : world),
    exists pre, run [] (sk_body sk_execve) = Some (pre ++ [EvReal "execve" [VParam 0; VParam 1; VParam 2]], RReal)
      /\ existsb is_real pre = false
      /\ existsb (is_call_of LOG) pre = true
      /\ interp world callee real (pre ++ [EvReal "execve" [VParam 0; VParam 1; VParam 2]]) w 0 None false
         = (fst (real "execve" [VParam 0; VParam 1; VParam 2] (run_calls world callee pre w)), 1,
            Some (snd (real "execve" [VParam 0; VParam 1; VParam 2] (run_calls world callee pre w))), false).
Proof.
  intros world callee real w. destruct (wrapper_ok_shape _ _ _ _ execve_shape) as [pre [H1 [H2 H3]]].
  exists pre. repeat split; try assumption. now apply once_last.
Qed.

Theorem C01_execv_once_last : forall (world : Type) callee real (w : world),
    exists pre, run [] (sk_body sk_execv) = Some (pre ++ [EvReal "execv" [VParam 0; VParam 1]], RReal)
      /\ existsb is_real pre = false
      /\ existsb (is_call_of LOG) pre = true
      /\ interp world callee real (pre ++ [EvReal "execv" [VParam 0; VParam 1]]) w 0 None false
         = (fst (real "execv" [VParam 0; VParam 1] (run_calls world callee pre w)), 1,
            Some (snd (real "execv" [VParam 0; VParam 1] (run_calls world callee pre w))), false).
Proof.
  intros world callee real w. destruct (wrapper_ok_shape _ _ _ _ execv_shape) as [pre [H1 [H2 H3]]].
  exists pre. repeat split; try assumption. now apply once_last.
Qed.

(** the callees can neither exec on their own nor fail to return *)
Theorem C01_no_other_exec : forall f, In f external_calls -> ~ In f exec_family.
Proof. apply disjointb_spec. vm_compute. reflexivity. Qed.
Theorem C01_log_returns : forall f, In f external_calls -> ~ In f no_return_family.
Proof. apply disjointb_spec. vm_compute. reflexivity. Qed.

(** nothing the library calls answers through a process-wide static object or advances a hidden cursor: strings the caller obtained from
    [getpwuid], [getgrgid], [ttyname], [strtok]... and now hands to exec are not rewritten by the logging work *)
Theorem C01_no_shared_static_results : forall f, In f external_calls -> ~ In f static_result_family.
Proof. apply disjointb_spec. vm_compute. reflexivity. Qed.

(** every call through a pointer in the whole library is one of: the two wrappers' final call (through a local pointer whose
    only value is [dlsym] of the wrapper's own name, whatever the variable is called), a registry
    table call (C13: own implementations only), the INI parser's handler/reader, the option registry's parsers *)
Definition allowed_indirect : list string :=
  ["execv:dlsym<execv>"; "execve:dlsym<execve>";
   "snoopy_datasourceregistry_callById:snoopy_datasourceregistry_ptrs"; "snoopy_datasourceregistry_callByName:snoopy_datasourceregistry_ptrs";
   "snoopy_filterregistry_callById:snoopy_filterregistry_ptrs"; "snoopy_filterregistry_callByName:snoopy_filterregistry_ptrs";
   "snoopy_outputregistry_callById:snoopy_outputregistry_ptrs"; "snoopy_outputregistry_callByName:snoopy_outputregistry_ptrs";
   "snoopy_ini_parse_stream:handler"; "snoopy_ini_parse_stream:reader";
   "snoopy_configfile_iniParser_callback:valueParserPtr"; "snoopy_configfile_optionRegistry_getOptionValueAsString:getValueAsStringPtr"].
Theorem C01_indirect_calls_known : forall s, In s indirect_calls -> In s allowed_indirect.
Proof.
  assert (H : forallb (fun s => str_in s allowed_indirect) indirect_calls = true) by (vm_compute; reflexivity).
  intros s Hs. rewrite forallb_forall in H. apply str_in_In. now apply H.
Qed.

(** the parameters are handed to the library by value, stored behind const-qualified pointers, and the
    init function passes its own parameters to the three store functions *)
Definition init_stores_ok : bool :=
  match run [] (sk_body sk_wrapper_init) with
  | Some (tr, RVoid) =>
    existsb (fun e => match e with EvCall "snoopy_inputdatastorage_store_filename" [VParam 0] => true | _ => false end) tr
    && existsb (fun e => match e with EvCall "snoopy_inputdatastorage_store_argv" [VParam 1] => true | _ => false end) tr
    && existsb (fun e => match e with EvCall "snoopy_inputdatastorage_store_envp" [VParam 2] => true | _ => false end) tr
  | _ => false
  end.
Theorem C01_args_by_value_const : init_stores_ok = true /\ ids_fields_const = true.
Proof. split; vm_compute; reflexivity. Qed.

Example C01_nonvacuous : exists pre, run [] (sk_body sk_execve) = Some (pre ++ [EvReal "execve" (params 3)], RReal)
                                      /\ existsb (is_call_of LOG) pre = true.
Proof. destruct (wrapper_ok_shape _ _ _ _ execve_shape) as [pre [H1 [H2 H3]]]. exists pre. split; assumption. Qed.

Print Assumptions C01_execve_once_last.
Print Assumptions C01_execv_once_last.
Print Assumptions C01_no_other_exec.
Print Assumptions C01_log_returns.
Print Assumptions C01_no_shared_static_results.
Print Assumptions C01_indirect_calls_known.
Print Assumptions C01_args_by_value_const.
