(** C02 — No configuration or exec input can crash or corrupt the calling process (PARTIAL, see the end).
    Only statements, each closed by [exact] of a general theorem instantiated with the constants regenerated
    from the tree: Gen_Safety (every capacity, copy length, index, terminator, limit), Gen_Expand (literals of
    message.c), Gen_Cmdline (literals of cmdline.c); plus non-vacuity examples.  [Fault] in the models = the C
    program would have undefined behaviour there (out-of-bounds read/write, use of an indeterminate byte,
    NULL dereference, signed overflow, unbounded recursion / out of fuel). *)
From Snoopy Require Import Lib.CStr Safety.Mem Safety.CLib Safety.Consts Safety.Lits Safety.Str Safety.Filter Safety.Conf Safety.Ds Safety.Out Safety.Top
     Safety.P_Str Safety.P_Filter Safety.P_Conf Safety.P_Ini Safety.P_Ds Safety.P_Out Safety.P_Top Safety.Cgroup Safety.P_Cgroup Safety.Rpname Safety.P_Rpname
     Expand.Model Datasource.Cmdline.
From Gen Require Import Gen_Safety Gen_Expand Gen_Cmdline.
Local Open Scope N_scope.

Definition C := Gen_Safety.consts.
Definition E := Gen_Expand.consts.
Definition CC := Gen_Cmdline.consts.

Lemma gen_ok : safety_consts_ok C = true.
Proof. vm_compute. reflexivity. Qed.
Lemma gen_expand_ok : expand_consts_ok E = true.
Proof. vm_compute. reflexivity. Qed.
Lemma gen_lits_ok : nonul (e_close E) /\ nonul (e_nf1 E) /\ nonul (e_nf2 E) /\ nonul (e_f1 E) /\ nonul (e_f2 E) /\ nonul (e_f3 E).
Proof. repeat split; apply nonulb_spec; vm_compute; reflexivity. Qed.
Lemma gen_cmdline_ok : cmdline_consts_ok CC = true.
Proof. vm_compute. reflexivity. Qed.
Lemma gen_sep_ok : nonul (sep CC).
Proof. apply nonulb_spec; vm_compute; reflexivity. Qed.
Lemma gen_unknown_ok : nonul (unknown CC).
Proof. apply nonulb_spec; vm_compute; reflexivity. Qed.

(** * util/string.c, message.c *)
(** snoopy_util_string_append on any terminated buffer: no fault, still terminated below the buffer size *)
Theorem C02_append_safe : forall dest bufsize d app,
    cstr dest 0 = Ok d -> len d < bufsize -> bufsize <= cap dest -> nonul app ->
    exists dest' r d', string_append C dest bufsize app = Ok (dest', r) /\ cap dest' = cap dest /\ cstr dest' 0 = Ok d' /\ len d' < bufsize.
Proof. exact (string_append_safe C gen_ok E gen_expand_ok). Qed.

(** snoopy_message_generateFromFormat, buffer level: for every format, every pair of sizes and every data source that
    honours  strlen(out) < size  on the scratch buffer it is handed: no fault, message NUL-terminated below bufsize *)
Theorem C02_expand_safe : forall known ds log bufsize third fmt,
    ds_contract ds third -> (exists s0, cstr log 0 = Ok s0 /\ len s0 < bufsize) -> 1 <= bufsize -> bufsize <= cap log -> 1 <= third -> nonul fmt ->
    exists log' s, generate_buf C E known ds log bufsize third fmt = Ok log' /\ cap log' = cap log /\ cstr log' 0 = Ok s /\ len s < bufsize.
Proof. exact (generate_buf_safe C gen_ok E gen_expand_ok gen_lits_ok). Qed.

(** ... and it computes exactly the functional model of Expand/Model.v, so C05's theorems hold of the buffer-level program *)
Theorem C02_expand_refines : forall known ds dsv, ds_refines ds dsv -> forall log bufsize third fmt,
    cstr log 0 = Ok [] -> 1 <= bufsize -> bufsize <= cap log -> 1 <= third -> nonul fmt ->
    exists log', generate_buf C E known ds log bufsize third fmt = Ok log' /\ cap log' = cap log /\
                 cstr log' 0 = Ok (generate E known dsv bufsize third fmt) /\ len (generate E known dsv bufsize third fmt) < bufsize.
Proof. exact (generate_buf_refines C gen_ok E gen_expand_ok gen_lits_ok). Qed.

(** * filtering.c, util/parser.c, filters *)
(** every chain an INI line (or the compiled-in default) can carry: chain copy, name and argument buffers never overrun *)
Theorem C02_check_chain_safe : forall fknown fcall, (forall n a, nonul n -> nonul a -> exists r, fcall n a = Ok r) ->
    forall chain, nonul chain -> len chain <= s_fname_max C -> exists r, check_chain C fknown fcall chain = Ok r.
Proof. exact (check_chain_safe C gen_ok). Qed.
Theorem C02_chain_covers_ini_values : s_ini_max_line C <= s_fname_max C + 2 /\ s_default_chain_len C <= s_fname_max C.
Proof. vm_compute. split; discriminate. Qed.

(** the only production caller hands check_chain a value that came through ini.c (or the compiled-in default): every value any
    configuration file can carry for ANY key is a chain on which the filter name / argument buffers are safe.  The bound that makes the
    unchecked copy into filterName[] unreachable is  INI_MAX_LINE - 2 <= SNOOPY_FILTER_NAME_MAX_SIZE  (raising INI_MAX_LINE breaks [gen_ok]) *)
Theorem C02_ini_values_are_safe_chains : forall fknown fcall, (forall n a, nonul n -> nonul a -> exists r, fcall n a = Ok r) ->
    forall handler file, exists st, ini_parse C handler file = Ok st /\
      Forall (fun t => exists r, check_chain C fknown fcall (snd t) = Ok r) (i_calls st).
Proof.
  intros fknown fcall Hf handler file. destruct (ini_parse_safe C gen_ok handler file) as [st [E H]]. exists st. split; [exact E|].
  eapply Forall_impl; [|exact H]. intros [[s n] v] (_ & _ & Hv & Hl & _). cbn [snd].
  apply (check_chain_safe C gen_ok fknown fcall Hf v Hv). destruct C02_chain_covers_ini_values as [B _]. lia.
Qed.

Theorem C02_csv_safe : forall raw s, cstr raw 0 = Ok s ->
    exists raw' ptrs argc, csv_to_arglist C raw = Ok (raw', ptrs, argc) /\ cap raw' = cap raw /\ argc <= count_byte COMMA s + 1 /\
      forall i, i < argc -> exists p f, sl_get ptrs i = Ok p /\ cstr raw' p = Ok f.
Proof. exact (csv_safe C gen_ok). Qed.
Theorem C02_uid_filter_args_safe : forall arg, nonul arg -> exists l, uid_filter_args C arg = Ok l /\ Forall nonul l.
Proof. exact (uid_filter_args_safe C gen_ok). Qed.

(** exclude_spawns_of.c: st_buf, memcpy length, comm window are safe for ANY /proc/<pid>/stat content *)
Theorem C02_spawns_parse_safe : forall procstat scan_cd pid raw toks, toks_wf raw toks ->
    exists r, stat_step C procstat scan_cd pid raw toks = Ok r.
Proof. exact (stat_step_safe C gen_ok). Qed.
Theorem C02_spawns_no_memory_fault : forall procstat scan_cd fuel ppid arg, nonul arg ->
    (exists r, exclude_spawns_of C procstat scan_cd fuel ppid arg = Ok r) \/ exclude_spawns_of C procstat scan_cd fuel ppid arg = Fault Out_of_fuel.
Proof. exact (exclude_spawns_of_safe C gen_ok). Qed.
(** fuel linear in the length of the parent chain *)
Theorem C02_spawns_fuel : forall procstat scan_cd n fuel pid raw toks,
    reaches C procstat scan_cd raw toks n pid -> (n <= fuel)%nat -> exists a, ancestors C procstat scan_cd fuel pid raw toks = Ok a.
Proof. exact (ancestors_fuel C). Qed.

(** * configuration path *)
Theorem C02_bytelen_safe : forall text vmin vmax vdef, nonul text -> vmin <= vmax -> vmax <= s_int_max C ->
    exists r, byte_length C text vmin vmax vdef = Ok r /\ (r = vdef \/ (vmin <= r /\ r <= vmax)).
Proof. exact (byte_length_safe C gen_ok). Qed.
Theorem C02_syslog_lookup_safe : forall s, nonul s ->
    (exists t, facility_name C s = Ok t /\ nonul t /\ len t <= len s) /\ (exists t, level_name C s = Ok t /\ nonul t /\ len t <= len s).
Proof. intros s H. split; [exact (facility_name_safe C gen_ok s H)|exact (level_name_safe C gen_ok s H)]. Qed.
Theorem C02_syslog_value_safe : forall level v, nonul v -> exists t, syslog_value C level v = Ok t.
Proof. exact (syslog_value_safe C gen_ok). Qed.
Theorem C02_output_split_safe : forall v, nonul v ->
    exists n a f, output_split C v = Ok (n, a, f) /\ nonul n /\ nonul a /\ len n <= len v /\ len a <= len v.
Proof. exact (output_split_safe C gen_ok). Qed.
Theorem C02_toupper_safe : forall a d, cstr a 0 = Ok d -> exists a' d', to_upper_inplace a = Ok a' /\ cap a' = cap a /\ cstr a' 0 = Ok d' /\ len d' = len d.
Proof. exact (to_upper_safe C gen_ok). Qed.

(** ini.c as compiled: ANY byte string as file content (NUL bytes, over-long lines, BOM fragments, lone quotes) *)
Theorem C02_ini_safe : forall handler file, exists st, ini_parse C handler file = Ok st /\ Forall (call_ok C) (i_calls st).
Proof. exact (ini_parse_safe C gen_ok). Qed.

(** * data sources *)
Theorem C02_cmdline_safe : forall a size file argv, 1 <= size -> size <= cap a ->
    (forall f, file = Some f -> nonul f) -> (forall l, argv = Some l -> Forall nonul l) ->
    exists a' n, cmdline_buf CC a size file argv = Ok (a', n) /\ cap a' = cap a /\
                 cstr a' 0 = Ok (cmdline CC file argv size) /\ len (cmdline CC file argv size) < size.
Proof. exact (cmdline_buf_safe C gen_ok CC gen_sep_ok gen_unknown_ok). Qed.
Theorem C02_env_all_safe : forall a size environ, s_env_trunc_sub C + 1 <= size -> size <= cap a ->
    (forall l, environ = Some l -> Forall nonul l) -> ds_result_ok a size (env_all_buf C a size environ).
Proof. exact (env_all_safe C gen_ok). Qed.
Theorem C02_env_all_sizes : s_env_trunc_sub C + 1 <= s_hardmin_ds C + s_ds_size_adj C /\ s_env_trunc_sub C + 1 <= s_ident_buf C /\ s_env_trunc_sub C + 1 <= s_path_max C.
Proof. vm_compute. repeat split; discriminate. Qed.
Theorem C02_hostname_safe : forall a size host etxt, 1 <= size -> size <= cap a -> nonul host -> nonul etxt -> ds_result_ok a size (hostname_buf a size host etxt).
Proof. exact (hostname_safe C gen_ok). Qed.
Theorem C02_login_safe : forall a size gl su ln, 1 <= size -> size <= cap a ->
    (forall x, gl = Some x -> nonul x) -> (forall x, su = Some x -> nonul x) -> (forall x, ln = Some x -> nonul x) -> ds_result_ok a size (login_buf C a size gl su ln).
Proof. exact (login_safe C gen_ok). Qed.
Theorem C02_datetime_safe : forall a size formatted, 1 <= size -> size <= cap a -> nonul formatted -> ds_result_ok a size (datetime_buf C a size formatted).
Proof. exact (datetime_safe C gen_ok). Qed.
(** the shape shared by every other data source (timestamp*, env, snoopy_literal, filename, uid, ...; cgroup, rpname, tty*, ... after the scan) *)
Theorem C02_snprintf_ds_safe : forall a size text, 1 <= size -> size <= cap a -> nonul text -> ds_result_ok a size (ds_snprintf a size text).
Proof. exact (ds_snprintf_safe C gen_ok). Qed.

(** cgroup.c (with util/file.c's block and util/string.c's line helpers): ANY /proc/<pid>/cgroup content, any argument *)
Theorem C02_cgroup_safe : forall buf size arg pid_text file open_err,
    1 <= size -> size <= cap buf -> nonul arg -> nonul pid_text -> nonul open_err ->
    exists buf' failed, cgroup_buf C (s_cg_path C) buf size arg pid_text file open_err = Ok (buf', failed) /\ cap buf' = cap buf /\
      exists s, cstr buf' 0 = Ok s /\ len s < size.
Proof. intros. apply (cgroup_safe C gen_ok); try assumption. vm_compute. discriminate. Qed.
(** rpname.c: safe for every /proc/<pid>/status in which the looked-up line has a byte behind "Key:<tab>" (what the kernel
    writes); WITHOUT that the code reads behind the line's terminator (see P_Rpname.v, RpnameCounterexamples: "PPid:" at
    end of file) -- [_partial]: the hypothesis [status_wf] is an assumption about the kernel, not about snoopy's inputs *)
Definition RP : rp_sizes := {| path_cap := s_rp_path C; val_max := s_rp_val_max C; ret_cap := s_rp_ret_cap C |}.
Theorem C02_rpname_safe_partial : forall status fuel pid buf size, status_wf status -> 1 <= size -> size <= cap buf ->
    (exists buf' n, rpname_buf RP status fuel pid buf size = Ok (buf', n) /\ cap buf' = cap buf /\ exists s, cstr buf' 0 = Ok s /\ len s < size)
    \/ rpname_buf RP status fuel pid buf size = Fault Out_of_fuel.
Proof. apply (rpname_safe RP); vm_compute; [discriminate|reflexivity]. Qed.
Theorem C02_rpname_fuel : forall status n fuel pid buf size, chain RP status n (Z.of_N pid) -> (n <= fuel)%nat -> status_wf status ->
    1 <= size -> size <= cap buf ->
    exists buf' n', rpname_buf RP status fuel pid buf size = Ok (buf', n') /\ cap buf' = cap buf /\ exists s, cstr buf' 0 = Ok s /\ len s < size.
Proof. apply (rpname_fuel RP); vm_compute; [discriminate|reflexivity]. Qed.

(** * error handler cycle, outputs, util/file.c *)
Theorem C02_error_dispatch_terminates : forall nref depth en msg, (2 <= depth)%nat -> exists r, handler C nref depth en msg = Ok r /\ r = en.
Proof. exact (error_dispatch_terminates_depth2 C gen_ok). Qed.
Theorem C02_socket_addr_safe : forall arg, nonul arg -> exists n, socket_addr C arg = Ok n /\ n <= s_sock_path_size C + 2.
Proof. exact (socket_addr_safe C gen_ok). Qed.
(** devlogoutput.c / fileoutput.c: ident / path template buffers and the prefix / line buffers, for any formatter that
    meets the buffer contract at the two sizes these outputs pass *)
Definition gen_contract (gen : arr -> N -> N -> list byte -> res arr) : Prop :=
  forall a bs th fmt, (bs = s_ident_buf C \/ bs = s_path_max C) -> th = bs ->
    (exists s0, cstr a 0 = Ok s0 /\ len s0 < bs) -> 1 <= bs -> bs <= cap a -> 1 <= th -> nonul fmt ->
    exists a' s, gen a bs th fmt = Ok a' /\ cap a' = cap a /\ cstr a' 0 = Ok s /\ len s < bs.
Theorem C02_devlog_safe : forall gen, gen_contract gen -> forall msg ident_fmt pri pid, nonul msg -> nonul ident_fmt ->
    exists r, devlog_datagram C gen msg ident_fmt pri pid = Ok r.
Proof. exact (devlog_safe C gen_ok). Qed.
Theorem C02_file_line_safe : forall gen, gen_contract gen -> forall msg path_fmt, nonul msg -> nonul path_fmt ->
    exists r, file_line C gen msg path_fmt = Ok r.
Proof. exact (file_line_safe C gen_ok). Qed.
Theorem C02_small_file_safe : forall content limits tl, nonul tl ->
    exists s ok, small_file C content limits tl = Ok (s, ok) /\ len s < N.max (s_file_max C) (s_file_err_max C).
Proof. exact (small_file_safe C gen_ok). Qed.

(** * the composed logging path (Safety/Top.v)
    FULL STATEMENT of the property: for every configuration file content and every exec request the logging path
    finishes without memory-safety violation, undefined behaviour, fatal signal or hang, every data source, filter and
    output stays inside its buffers for every size the limits permit.
    PROVED below ([_partial]): for every byte string as snoopy.ini (or none), every world (path, argv, environ incl. NULL,
    host name, login, strftime output, /proc content, any behaviour of the data sources outside the model that prints
    through snprintf), both limits ending anywhere in [HARDMIN, HARDMAX]: the composed model never faults and the message
    buffer is NUL-terminated within its size.  PARTIAL because (a) the data sources domain, ipaddr, systemd_unit_name, tty*,
    *username, *group, cwd and util/{utmp,systemd,pwd}.c enter only through the snprintf contract ([w_other_ds]);
    (b) rpname needs /proc/<pid>/status lines in the kernel's format ([status_wf]); termination of the two /proc walks
    (exclude_spawns_of, rpname) is assumed from the parent chains being finite ([proc_terminates], [chain]);
    (c) locking, allocation failure and the I/O calls themselves are outside this model (C03, C09, C16). *)
Theorem C02_safe_partial : forall w, world_wf C w -> forall dflt ini, cfg_wf C dflt ->
    exists r, log_call C E CC dflt w ini = Ok r /\ in_limits C (r_cfg r) /\
              r_bufsize r = g_llog (r_cfg r) + s_log_size_adj C /\ r_bufsize r <= cap (r_log r) /\
              exists s, cstr (r_log r) 0 = Ok s /\ len s < r_bufsize r.
Proof. exact (log_call_safe C gen_ok E gen_expand_ok gen_lits_ok CC gen_sep_ok gen_unknown_ok). Qed.

Print Assumptions C02_append_safe.
Print Assumptions C02_expand_safe.
Print Assumptions C02_expand_refines.
Print Assumptions C02_check_chain_safe.
Print Assumptions C02_ini_values_are_safe_chains.
Print Assumptions C02_csv_safe.
Print Assumptions C02_uid_filter_args_safe.
Print Assumptions C02_spawns_parse_safe.
Print Assumptions C02_spawns_no_memory_fault.
Print Assumptions C02_spawns_fuel.
Print Assumptions C02_bytelen_safe.
Print Assumptions C02_syslog_lookup_safe.
Print Assumptions C02_syslog_value_safe.
Print Assumptions C02_output_split_safe.
Print Assumptions C02_toupper_safe.
Print Assumptions C02_ini_safe.
Print Assumptions C02_cmdline_safe.
Print Assumptions C02_env_all_safe.
Print Assumptions C02_hostname_safe.
Print Assumptions C02_login_safe.
Print Assumptions C02_datetime_safe.
Print Assumptions C02_snprintf_ds_safe.
Print Assumptions C02_cgroup_safe.
Print Assumptions C02_rpname_safe_partial.
Print Assumptions C02_rpname_fuel.
Print Assumptions C02_error_dispatch_terminates.
Print Assumptions C02_socket_addr_safe.
Print Assumptions C02_devlog_safe.
Print Assumptions C02_file_line_safe.
Print Assumptions C02_small_file_safe.
Print Assumptions C02_safe_partial.

(** * non-vacuity: a concrete world and default configuration meeting the hypotheses, and a concrete run *)
Definition w0 : world :=
  {| w_file := Some [x2f; x62]; w_argv := Some [[x6c; x73]; [x2d; x6c]]; w_environ := None;
     w_host := [x68]; w_errno := [x33; x36]; w_getlogin := None; w_sudo_user := Some [x75]; w_logname := None;
     w_strftime := fun _ => [x32; x30]; w_dt_default := [x25; x46];
     w_cgroup_file := Some [x30; x3a; x3a; x2f; x0a]; w_pid_text := [x37]; w_open_err := [x65];
     w_status := fun _ => None; w_rp_fuel := 1;
     w_other_ds := fun _ _ => (false, Some [x30]); w_known_ds := fun n => list_eqb n ds_cmdline || list_eqb n ds_env_all;
     w_known_filter := fun n => list_eqb n f_only_uid; w_filter_verdict := fun _ _ => true;
     w_ppid := 0; w_procstat := fun _ => None; w_scan := fun _ => None; w_proc_fuel := 1; w_pri := 86; w_pid := 7; w_nref := fun _ => 2 |}.
Definition dflt0 : cfg :=
  {| g_message_format := [x25; x7b; x63; x6d; x64; x6c; x69; x6e; x65; x7d]; g_filter_chain := []; g_output := o_devlog; g_output_arg := [];
     g_ident := lit_snoopy; g_facility := []; g_level := []; g_error_logging := false; g_llog := s_default_log C; g_lds := s_default_ds C |}.
Example C02_safe_nonvacuous : world_wf C w0 /\ cfg_wf C dflt0.
Proof.
  split.
  - unfold world_wf, opt_nonul. cbn.
    repeat split; try (intros; apply nonulb_spec; vm_compute; reflexivity).
    + intros x H. injection H as <-. apply nonulb_spec. reflexivity.
    + intros l H. injection H as <-. repeat constructor; apply nonulb_spec; reflexivity.
    + intros l H. discriminate.
    + intros x H. discriminate.
    + intros x H. injection H as <-. apply nonulb_spec. reflexivity.
    + intros x H. discriminate.
    + intros n a t H. injection H as <-. apply nonulb_spec. reflexivity.
    + intros raw toks _. apply R_zero.
    + intros pid content H. discriminate.
    + apply Ch_stop. right. right. vm_compute. reflexivity.
  - unfold cfg_wf, in_limits. cbn. repeat split; try (apply nonulb_spec; vm_compute; reflexivity); vm_compute; discriminate.
Qed.
(** a configuration line that lowers the limit to the minimum, a filter chain, an ident template: the run is Ok and
    the record is the two arguments joined by a space *)
Definition ini0 : list byte := lit_ini0.
Example C02_run_nonvacuous :
  match log_call C E CC dflt0 w0 (Some ini0) with
  | Ok r => r_dropped r = false /\ cstr (r_log r) 0 = Ok [x6c; x73; x20; x2d; x6c] /\ r_bufsize r = s_hardmin_log C + 1
  | Fault _ => False
  end.
Proof. vm_compute. repeat split. Qed.
