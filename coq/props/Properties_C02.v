(** C02 — No configuration or exec input can crash or corrupt the calling process (partial).
    Only statements, each closed by [exact] of a general theorem instantiated with the constants
    regenerated from the tree (Gen_Safety, Gen_Expand), plus non-vacuity examples. *)
From Snoopy Require Import Lib.CStr Safety.Mem Safety.CLib Safety.Consts Expand.Model.
From Gen Require Import Gen_Safety Gen_Expand.
Local Open Scope N_scope.

Lemma gen_ok : safety_consts_ok Gen_Safety.consts = true.
Proof. vm_compute. reflexivity. Qed.
Lemma gen_expand_ok : expand_consts_ok Gen_Expand.consts = true.
Proof. vm_compute. reflexivity. Qed.
