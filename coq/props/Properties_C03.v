(** C03 — Logging failures never block, signal or abort the exec.

    Statements over the constants, registries, per-object call sets and skeletons regenerated from the
    source on every run (Gen_Fault, Gen_FaultSkel, Gen_Wrapper, Gen_Expand).  The general theorems are in
    Fault/Proofs.v; this file instantiates them and discharges the side conditions by computation. *)
From Snoopy Require Import Lib.CStr Lib.Skel Expand.Model Wrapper.Model Output.Model Fault.IO Fault.Model Fault.Table Fault.Proofs Fault.Shape.
From Gen Require Import Gen_Expand Gen_Fault Gen_FaultSkel Gen_Wrapper.
From Coq Require Import ZArith String List.
Import ListNotations.
Local Open Scope N_scope.
Local Open Scope list_scope.

Definition C := Gen_Fault.consts.
Definition EC := Gen_Expand.consts.
Definition LOG := "snoopy_action_log_syscall_exec"%string.

(** ** T1: flag words, modes, sizes, the guard of the error handler *)
Lemma gen_ok : fault_consts_ok C = true.
Proof. vm_compute. reflexivity. Qed.
(** glibc's syslog(3) output is not among the outputs as compiled (it is classified may-block by the table) *)
Lemma syslog_not_compiled : syslog_on C = false.
Proof. vm_compute. reflexivity. Qed.

(** ** T2: the call structure of the wrappers, the action, the dispatch, the eight outputs, the error handler *)
Lemma wrappers_shape : wrapper_ok "execve" 3 LOG sk_execve = true /\ wrapper_ok "execv" 2 LOG sk_execv = true.
Proof. split; vm_compute; reflexivity. Qed.
Lemma action_dispatch_shape : action_shape sk_action = true /\ dispatch_shape sk_dispatch = true.
Proof. split; vm_compute; reflexivity. Qed.
(** socket output: the paths of the C function are exactly the call sequences of the model (empty message: none;
    socket fails: nothing to close; connect fails: close; send fails or not: close) and the flag arguments name the three SOCK_ / two MSG_ constants *)
Lemma socket_shape : matches_model sk_socketoutput [out_socket C 0 [x2f]; out_socket C 5 [x2f]] = true /\ socket_flags_shape sk_socketoutput = true.
Proof. split; vm_compute; reflexivity. Qed.
(** file output: no argument: nothing; open fails: nothing; otherwise one write and the close *)
Lemma file_shape : matches_model sk_fileoutput [out_file C EC 1 (Ret tt) []; out_file C EC 1 (Ret tt) [x2f; x78]] = true.
Proof. vm_compute. reflexivity. Qed.
Lemma file_wrappers_shape : file_wrapper_shape sk_devttyoutput (devtty_path C) = true /\ file_wrapper_shape sk_devnulloutput (devnull_path C) = true.
Proof. split; vm_compute; reflexivity. Qed.
Lemma devlog_shape : matches_paths sk_devlogoutput [[]; ["getpid"; "snoopy_output_socketoutput"]%string] = true.
Proof. vm_compute. reflexivity. Qed.
Lemma std_shapes : matches_paths sk_stdoutoutput [["dprintf"%string]] = true /\ matches_paths sk_stderroutput [["fprintf"%string]] = true
                   /\ matches_paths sk_syslogoutput [[]; ["openlog"; "syslog"; "closelog"]%string] = true.
Proof. repeat split; vm_compute; reflexivity. Qed.
(** error.c: the T2 reading of the guard agrees with the T1 reading, and the guard is there (repair D9) *)
Lemma handler_shape : handler_guarded sk_error_handler = err_guarded C /\ handler_guarded sk_error_handler = true.
Proof. split; vm_compute; reflexivity. Qed.
Lemma append_shape : matches_paths sk_message_append [["snoopy_util_string_append"]; ["snoopy_util_string_append"; "snoopy_error_handler"]]%string = true.
Proof. vm_compute. reflexivity. Qed.

(** ** the libc symbols of every object of the library: pure helpers, or exactly the I/O calls its model issues *)
Lemma call_sets_ok : objects_ok object_calls = true.
Proof. vm_compute. reflexivity. Qed.
Theorem C03_call_alphabet : forall o syms s, In (o, syms) object_calls -> In s syms -> In s pure_syms \/ In s (allowed_for o io_allow).
Proof. exact (objects_ok_spec object_calls call_sets_ok). Qed.

(** nothing the library references can end the process, exec on its own, sleep or wait for input *)
Definition waiting_family : list string :=
  ["sleep"; "usleep"; "nanosleep"; "clock_nanosleep"; "pause"; "poll"; "ppoll"; "select"; "pselect"; "epoll_wait"; "read"; "recv"; "recvfrom"; "recvmsg"; "accept";
   "wait"; "waitpid"; "waitid"; "sigwait"; "sigsuspend"; "flock"; "lockf"; "fcntl"; "fsync"; "fdatasync"; "tcdrain"; "sendto"; "sendmsg"; "writev"; "ioctl"; "sem_wait";
   "pthread_cond_wait"; "pthread_join"; "getchar"; "fgetc"; "scanf"; "raise"; "kill"; "alarm"; "signal"; "sigaction"]%string.
Lemma families_avoided : avoids [no_return_family; exec_family; waiting_family] object_calls = true.
Proof. vm_compute. reflexivity. Qed.
Theorem C03_no_exit_no_wait : forall o syms s fam, In (o, syms) object_calls -> In s syms -> In fam [no_return_family; exec_family; waiting_family] -> ~ In s fam.
Proof. exact (avoids_spec _ _ families_avoided). Qed.

(** ** C03_reaches_exec.  For every reading of the configuration file, every configuration, and EVERY oracle — any number and
    combination of failing calls, any errno, any data — that describes a finite world (files end, the process tree is
    well-founded), with enough fuel for that world: the wrapped call terminates, its trace is [pre ++ [RealExec]] with no
    exec in [pre], and the value returned is the oracle's outcome of that RealExec. *)
Theorem C03_reaches_exec :
  forall (cfg_of : option (list (list byte)) -> config) (o : oracle) (L d fuel : nat) (parent : Z -> Z) (height : Z -> nat),
    (forall i cl, is_line_read cl = true -> exists j, (j < L)%nat /\ is_err (o (i + j)%nat cl) = true) ->
    (forall p, parent p <> 0%Z -> (height (parent p) < height p)%nat) -> (forall p, (height p < d)%nat) ->
    (forall i pid comm pp, parse_stat C (takeN (sp_read C) (odata (o i (CFread (PProc pid (bs "stat")) (sp_read C))))) = Some (comm, pp) -> pp = parent pid) ->
    (forall i pid v, status_kv C (odata (o i (CGetline (PProc pid (bs "status"))))) = Some (bs "PPid", v) -> atoi_z v = parent pid) ->
    (L <= fuel)%nat -> (d <= fuel)%nat -> file_max C <= N.of_nat fuel * file_fread C ->
    exists pre res, run (wrapper C EC cfg_of fuel) o 0 = (pre ++ [(CRealExec, res)], Some res) /\ Forall (fun e => no_exec (fst e)) pre.
Proof.
  intros cfg_of o L d fuel parent height H1 H2 H3 H4 H5 H6 H7 H8.
  destruct (wrapper_reaches_exec C EC cfg_of gen_ok o L H1 parent height d H2 H3 H4 H5 fuel H6 H7 H8) as [pre [res [Hr [Hf _]]]].
  exists pre, res. split; assumption.
Qed.

(** ** C03_nonblocking / C03_nosignal.  Every call in every trace (no assumption on the oracle, not even termination), for every
    world among the enumerated ones (sink absent / no permission / no space / full unread datagram socket / fine; caller's own
    stdout and stderr not broken pipes; local name service), is classified non-blocking and signal-free by [linux_table]. *)
Theorem C03_nonblocking : forall w, enumerated w = true -> forall cfg_of fuel o i,
    Forall (fun e => may_block C w (fst e) = false) (fst (run (wrapper C EC cfg_of fuel) o i)).
Proof.
  intros w Hw cfg_of fuel o i. eapply Forall_impl; [|apply (wrapper_classified C EC cfg_of gen_ok w Hw syslog_not_compiled fuel o i)]. intros e [H _]. exact H.
Qed.
Theorem C03_nosignal : forall w, enumerated w = true -> forall cfg_of fuel o i,
    Forall (fun e => may_signal C w (fst e) = false) (fst (run (wrapper C EC cfg_of fuel) o i)).
Proof.
  intros w Hw cfg_of fuel o i. eapply Forall_impl; [|apply (wrapper_classified C EC cfg_of gen_ok w Hw syslog_not_compiled fuel o i)]. intros e [_ H]. exact H.
Qed.
(** the flag words behind the two theorems, spelled out *)
Theorem C03_flag_words :
  has (b_sock_nonblock C) (sock_ty C) = true /\ has (b_sock_cloexec C) (sock_ty C) = true
  /\ has (b_msg_dontwait C) (send_flags C) = true /\ has (b_msg_nosignal C) (send_flags C) = true
  /\ N.land (sock_ty C) (b_sock_typemask C) = b_sock_dgram C /\ sock_dom C = b_af_unix C.
Proof. destruct (ok_facts C gen_ok) as [A [B [D [E [F [G _]]]]]]. repeat split; assumption. Qed.

(** ** bounded loops *)
(** util/file.c: MAX_SIZE / FREAD_SIZE iterations suffice under every oracle *)
Theorem C03_file_loop_bounded : forall p o i, returns (file_read C (N.to_nat (file_max C / file_fread C) + 1) p) o i.
Proof. intros. apply (file_read_bounded C gen_ok). vm_compute. discriminate. Qed.

(** ** C03_error_dispatch_terminates (repair D9): the error record is dispatched with the NULL error handler *)
Theorem C03_error_dispatch_terminates : forall fuel cf,
    error_handler C EC fuel cf = if negb (cf_errlog cf) then Ret tt else dispatch C EC fuel (Ret tt) cf (err_msg_len C).
Proof. exact (error_handler_guarded C EC gen_ok). Qed.

(** what the guard is for: without it (constants of the tree before the repair), with error logging on, the devlog output and an ident
    template that overflows its buffer, the handler re-enters itself without end — for every fuel, before making a single call *)
Definition cfD9 : config :=
  {| cf_filtering := false; cf_chain := []; cf_format := [x6d]; cf_logmax := 16383; cf_dsmax := 2047; cf_output := bs "devlog"; cf_output_arg := [];
     cf_ident := repeat x41 300; cf_errlog := true |}.
Lemma unguarded_dispatch_of_hang : forall fuel, dispatch (unguard C) EC fuel Hang cfD9 (err_msg_len C) = Hang.
Proof. intros fuel. vm_compute. reflexivity. Qed.
Theorem C03_unguarded_handler_recurses : forall fuel, error_handler (unguard C) EC fuel cfD9 = Hang.
Proof. exact (unguarded_recurses (unguard C) EC cfD9 eq_refl eq_refl unguarded_dispatch_of_hang). Qed.

(** ** non-vacuity and statement tests *)
(** an oracle under which EVERYTHING fails meets the hypotheses of C03_reaches_exec; the trace is the failed fopen of the configuration file,
    the default format's queries, the failed socket(), and the real exec *)
Definition all_fail : oracle := fun _ _ => OErr 5.
Definition cfg_dflt : option (list (list byte)) -> config := fun _ =>
  {| cf_filtering := true; cf_chain := []; cf_format := bs "%{tty} %{cwd} %{cmdline}"; cf_logmax := 16383; cf_dsmax := 2047; cf_output := bs "devlog"; cf_output_arg := [];
     cf_ident := bs "snoopy"; cf_errlog := false |}.
Example C03_reaches_exec_nonvacuous :
  exists pre res, run (wrapper C EC cfg_dflt 11) all_fail 0 = (pre ++ [(CRealExec, res)], Some res) /\ Forall (fun e => no_exec (fst e)) pre.
Proof.
  apply (C03_reaches_exec cfg_dflt all_fail 1 1 11 (fun _ => 0%Z) (fun _ => O)).
  - intros i cl _. exists O. split; [constructor|reflexivity].
  - intros p H. exfalso. apply H. reflexivity.
  - intros. constructor.
  - intros i pid comm pp H. vm_compute in H. discriminate.
  - intros i pid v H. vm_compute in H. discriminate.
  - repeat constructor.
  - repeat constructor.
  - vm_compute. discriminate.
Qed.
Example C03_trace_all_fail :
  map (fun e => call_fn (fst e)) (fst (run (wrapper C EC cfg_dflt 11) all_fail 0)) = ["fopen"; "ttyname_r"; "<pure>"; "getcwd"; "<pure>"; "getpid"; "socket"; "<exec>"]%string.
Proof. vm_compute. reflexivity. Qed.
(** connect fails on an otherwise healthy run: the socket is closed and the exec follows *)
Definition connect_fails : oracle := fun _ cl => match cl with CConnect _ _ _ => OErr 111 | CFopen _ _ => OErr 2 | _ => OOk 1 [x2f; x78] end.
Example C03_trace_connect_fails :
  map (fun e => call_fn (fst e)) (fst (run (wrapper C EC cfg_dflt 11) connect_fails 0))
  = ["fopen"; "ttyname_r"; "getcwd"; "<pure>"; "getpid"; "socket"; "connect"; "close"; "<exec>"]%string.
Proof. vm_compute. reflexivity. Qed.
(** a healthy world meets the hypotheses too: short files (every third call position reports EOF to a line read), every process a child of pid 0, all other calls succeed;
    the configuration walks the process tree twice (exclude_spawns_of, rpname) and writes to a file whose write fails *)
Definition healthy : oracle := fun i cl =>
  match cl with
  | CFgets _ | CGetline _ => if Nat.eqb (Nat.modulo i 3) 0 then OErr 0 else OOk 1 [x50; x50; x69; x64; x3a; x09; x30; x0a]     (* "PPid:\t0\n" *)
  | CFread _ _ => OOk 1 (bs "1 (init) S 0 0 0 0")
  | CGetpid | CGetppid => OOk 7 []
  | CWrite _ _ => OErr 28
  | _ => OOk 1 (bs "/x")
  end.
Definition cfg_walks : option (list (list byte)) -> config := fun _ =>
  {| cf_filtering := true; cf_chain := bs "exclude_spawns_of:cron"; cf_format := bs "%{rpname} %{cwd}"; cf_logmax := 16383; cf_dsmax := 2047;
     cf_output := bs "file"; cf_output_arg := bs "/var/log/x.log"; cf_ident := bs "snoopy"; cf_errlog := false |}.
Example C03_reaches_exec_healthy_world :
  exists pre res, run (wrapper C EC cfg_walks 11) healthy 0 = (pre ++ [(CRealExec, res)], Some res) /\ Forall (fun e => no_exec (fst e)) pre.
Proof.
  apply (C03_reaches_exec cfg_walks healthy 3 1 11 (fun _ => 0%Z) (fun _ => O)).
  - intros i cl Hl. pose proof (Nat.mod_upper_bound i 3 ltac:(discriminate)) as Hb.
    assert (G : exists j, (j < 3)%nat /\ Nat.eqb (Nat.modulo (i + j) 3) 0 = true).
    { destruct (Nat.modulo i 3) as [|[|[|k]]] eqn:E.
      - exists 0%nat. split; [repeat constructor|]. rewrite Nat.add_0_r, E. reflexivity.
      - exists 2%nat. split; [repeat constructor|]. rewrite Nat.add_mod by discriminate. rewrite E. reflexivity.
      - exists 1%nat. split; [repeat constructor|]. rewrite Nat.add_mod by discriminate. rewrite E. reflexivity.
      - exfalso. apply (Nat.lt_irrefl 3). eapply Nat.le_lt_trans; [|exact Hb]. do 3 apply le_n_S. apply Nat.le_0_l. }
    destruct G as [j [Hj He]]. exists j. split; [exact Hj|]. destruct cl; try discriminate; cbn [healthy]; rewrite He; reflexivity.
  - intros p H. exfalso. apply H. reflexivity.
  - intros. constructor.
  - intros i pid comm pp H. vm_compute in H. injection H as _ <-. reflexivity.
  - intros i pid v H. cbn [healthy odata] in H. destruct (Nat.eqb (Nat.modulo i 3) 0); vm_compute in H; [discriminate|]. injection H as <-. reflexivity.
  - repeat constructor.
  - repeat constructor.
  - vm_compute. discriminate.
Qed.
Example C03_trace_healthy_world :
  map (fun e => call_fn (fst e)) (fst (run (wrapper C EC cfg_walks 11) healthy 0))
  = ["fopen"; "fgets"; "fgets"; "fgets"; "fclose"; "getppid"; "fopen"; "fread"; "fclose"; "getpid"; "fopen"; "getline"; "fclose"; "fopen"; "getline"; "getline"; "fclose"; "<pure>";
     "getcwd"; "open"; "write"; "close"; "<exec>"]%string.
Proof. vm_compute. reflexivity. Qed.
Example C03_enumerated_nonvacuous : enumerated {| w_sink := SkDgramFullUnread; w_fd1 := FdPlain; w_fd2 := FdPlain; w_nss_local := true |} = true.
Proof. reflexivity. Qed.
(** the table does NOT clear the states the property leaves out: a FIFO as file sink, the caller's stdout as a reader-less pipe *)
Example C03_table_fifo_may_block : may_block C {| w_sink := SkFifoNoReader; w_fd1 := FdPlain; w_fd2 := FdPlain; w_nss_local := true |} (COpen PTemplate (N.lor (b_o_wronly C) (b_o_append C))) = true.   (* an open without O_NONBLOCK *)
Proof. vm_compute. reflexivity. Qed.
Example C03_table_stdout_pipe_may_signal : may_signal C {| w_sink := SkOk; w_fd1 := FdPipeNoReader; w_fd2 := FdPlain; w_nss_local := true |} (CDprintf 1) = true.
Proof. vm_compute. reflexivity. Qed.

Print Assumptions C03_reaches_exec.
Print Assumptions C03_nonblocking.
Print Assumptions C03_nosignal.
Print Assumptions C03_flag_words.
Print Assumptions C03_file_loop_bounded.
Print Assumptions C03_error_dispatch_terminates.
Print Assumptions C03_unguarded_handler_recurses.
Print Assumptions C03_call_alphabet.
Print Assumptions C03_no_exit_no_wait.
