(** C03 — Logging failures never block, signal or abort the exec. (first stage: constants) *)
From Snoopy Require Import Lib.CStr Lib.Skel Expand.Model Fault.IO Fault.Model Fault.Table.
From Gen Require Import Gen_Expand Gen_Fault Gen_FaultSkel Gen_Wrapper.

Definition C := Gen_Fault.consts.
Lemma gen_ok : fault_consts_ok C = true.
Proof. vm_compute. reflexivity. Qed.
