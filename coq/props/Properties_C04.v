(** C04 — Exactly one faithful record per logged exec, none when filtered. *)
From Snoopy Require Import Lib.CStr Lib.Skel Output.Model Output.Proofs.
From Gen Require Import Gen_Output Gen_Wrapper.
Local Open Scope N_scope.

Definition C := Gen_Output.consts.
Lemma gen_ok : output_consts_ok C = true.
Proof. vm_compute. reflexivity. Qed.
Lemma prec_255 : devlog_prec C = 255.
Proof. vm_compute. reflexivity. Qed.

(** T2: the action filters first and dispatches exactly once; the dispatch discards the empty message *)
Theorem C04_action_shape : action_shape sk_action = true /\ dispatch_shape sk_dispatch = true.
Proof. split; vm_compute; reflexivity. Qed.

(** one record, at the configured sink, carrying the documented frame byte for byte — for every message,
    output, argument, path/ident expansion, priority and pid *)
Theorem C04_one_record : forall e fe k arg msg, msg <> [] -> has_sink C k arg -> e_prio e < 2 ^ 32 -> e_pid e < 2 ^ 32 ->
    action C e fe false k arg msg = [(sink_of C e k arg, documented_frame 255 e k msg)].
Proof. intros e fe k arg msg. rewrite <- prec_255. exact (one_record C gen_ok e fe k arg msg). Qed.

Theorem C04_devlog_frame : forall e msg, e_prio e < 2 ^ 32 -> e_pid e < 2 ^ 32 ->
    devlog_text C e msg = [LT] ++ dec (e_prio e) ++ [GT] ++ takeN 255 (e_ident e) ++ [LB] ++ dec (e_pid e) ++ [RB; COLONB; SP] ++ msg.
Proof. intros e msg. rewrite <- prec_255. exact (devlog_frame C gen_ok e msg). Qed.

Theorem C04_none_when_dropped : forall e k arg msg, action C e true true k arg msg = [].
Proof. exact (none_when_dropped C). Qed.
Theorem C04_none_when_empty : forall e fe drop k arg, action C e fe drop k arg [] = [].
Proof. exact (none_when_empty C). Qed.
Theorem C04_at_most_one : forall e fe drop k arg msg, (length (action C e fe drop k arg msg) <= 1)%nat.
Proof. exact (at_most_one C gen_ok). Qed.

Example C04_nonvacuous :
  action C {| e_path_of := fun p => p; e_ident := [x73]; e_prio := 86; e_pid := 42 |} true false ODevlog [] [x68; x69]
  = [(SkDgram (devlog_path C), [x3c; x38; x36; x3e; x73; x5b; x34; x32; x5d; x3a; x20; x68; x69])].
Proof. vm_compute. reflexivity. Qed.

Print Assumptions C04_action_shape.
Print Assumptions C04_one_record.
Print Assumptions C04_devlog_frame.
Print Assumptions C04_none_when_dropped.
Print Assumptions C04_none_when_empty.
Print Assumptions C04_at_most_one.
