(** C04 — Exactly one faithful record per logged exec, none when filtered. *)
From Snoopy Require Import Lib.CStr Lib.Skel Output.Model Output.Proofs Output.Errors Expand.Model Expand.Errors.
From Gen Require Import Gen_Output Gen_Wrapper Gen_Errors Gen_Expand.
Local Open Scope N_scope.

Definition C := Gen_Output.consts.
Lemma gen_ok : output_consts_ok C = true.
Proof. vm_compute. reflexivity. Qed.
Lemma prec_255 : devlog_prec C = 255.
Proof. vm_compute. reflexivity. Qed.

(** the two fixed-destination outputs name a device file: an absolute path under /dev/, and the socket behind devlog is an absolute path
    (a source in which these are not literal device paths is not the code the model describes) *)
Definition dev_prefix : list byte := [x2f; x64; x65; x76; x2f].      (* "/dev/" *)
Lemma dev_paths_ok : prefixb dev_prefix (devtty_path C) && prefixb dev_prefix (devnull_path C) && prefixb dev_prefix (devlog_path C) = true.
Proof. vm_compute. reflexivity. Qed.
Theorem C04_fixed_destinations : exists a b c, devtty_path C = dev_prefix ++ a /\ devnull_path C = dev_prefix ++ b /\ devlog_path C = dev_prefix ++ c.
Proof.
  pose proof dev_paths_ok as H. apply andb_prop in H as [H H3]. apply andb_prop in H as [H1 H2].
  apply prefixb_app in H1 as [a Ha]. apply prefixb_app in H2 as [b Hb]. apply prefixb_app in H3 as [c Hc]. now exists a, b, c.
Qed.

(** T2: the action filters first and dispatches exactly once; the dispatch discards the empty message *)
Theorem C04_action_shape : action_shape sk_action = true /\ dispatch_shape sk_dispatch = true.
Proof. split; vm_compute; reflexivity. Qed.

(** one record, at the configured sink, carrying the documented frame byte for byte — for every message,
    output, argument, path/ident expansion, priority and pid *)
Theorem C04_one_record : forall e fe k arg msg, msg <> [] -> has_sink C k arg -> e_prio e < 2 ^ 32 -> e_pid e < 2 ^ 32 ->
    action C e fe false k arg msg = [(sink_of C e k arg, documented_frame 255 e k msg)].
Proof. intros e fe k arg msg. rewrite <- prec_255. exact (one_record C gen_ok e fe k arg msg). Qed.

Theorem C04_devlog_frame : forall e msg, e_prio e < 2 ^ 32 -> e_pid e < 2 ^ 32 ->
    devlog_text C e msg = [LT] ++ dec (e_prio e) ++ [GT] ++ takeN 255 (e_ident e) ++ [LB] ++ dec (e_pid e) ++ [RB; COLONB; SP] ++ msg.
Proof. intros e msg. rewrite <- prec_255. exact (devlog_frame C gen_ok e msg). Qed.

Theorem C04_none_when_dropped : forall e k arg msg, action C e true true k arg msg = [].
Proof. exact (none_when_dropped C). Qed.
Theorem C04_none_when_empty : forall e fe drop k arg, action C e fe drop k arg [] = [].
Proof. exact (none_when_empty C). Qed.
Theorem C04_at_most_one : forall e fe drop k arg msg, (length (action C e fe drop k arg msg) <= 1)%nat.
Proof. exact (at_most_one C gen_ok). Qed.

(** ** error logging switched on: additional records are separate, whole, framed records of the error text *)
Lemma err_ok : err_handler_ok = true /\ err_append_text <> [].
Proof. split; [vm_compute; reflexivity|vm_compute; discriminate]. Qed.
Lemma egen_ok : expand_consts_ok Gen_Expand.consts = true.
Proof. vm_compute. reflexivity. Qed.

(** [n1] refused appends while the message was formatted, [n2] while the output expanded its own path/ident template for
    the message's record: the sink receives exactly n1+n2 framed copies of the error text and then the ONE record of the message *)
Theorem C04_error_records : forall e fe k arg n1 n2 msg, msg <> [] -> has_sink C k arg -> e_prio e < 2 ^ 32 -> e_pid e < 2 ^ 32 ->
    action_el C e true fe false k arg n1 n2 err_append_text msg
    = times (n1 + n2) [(sink_of C e k arg, documented_frame 255 e k err_append_text)] ++ [(sink_of C e k arg, documented_frame 255 e k msg)].
Proof. intros e fe k arg n1 n2 msg Hm Hs Hp Hq. rewrite <- prec_255. exact (action_el_shape C e gen_ok fe k arg n1 n2 err_append_text msg Hm (proj2 err_ok) Hs Hp Hq). Qed.

(** error logging off, or nothing refused: exactly the records of C04_one_record / none *)
Theorem C04_error_logging_off : forall e fe drop k arg n1 n2 err msg, action_el C e false fe drop k arg n1 n2 err msg = action C e fe drop k arg msg.
Proof. exact (action_el_off C). Qed.
Theorem C04_no_refusal_no_error_record : forall e el fe drop k arg err msg, action_el C e el fe drop k arg 0 0 err msg = action C e fe drop k arg msg.
Proof. exact (action_el_none C). Qed.
Theorem C04_dropped_silent_with_error_logging : forall e el k arg n1 n2 err msg, action_el C e el true true k arg n1 n2 err msg = [].
Proof. exact (action_el_dropped C). Qed.

(** and nothing is refused (no error record at all) whenever the full expansion fits the buffer *)
Theorem C04_fits_no_error_record : forall known ds bufsize third fmt,
    len (full Gen_Expand.consts known ds third fmt) < bufsize -> generate_errors Gen_Expand.consts known ds bufsize third fmt = 0%nat.
Proof. intros known ds. exact (no_errors_when_fits Gen_Expand.consts known ds egen_ok). Qed.

Example C04_nonvacuous :
  action C {| e_path_of := fun p => p; e_ident := [x73]; e_prio := 86; e_pid := 42 |} true false ODevlog [] [x68; x69]
  = [(SkDgram (devlog_path C), [x3c; x38; x36; x3e; x73; x5b; x34; x32; x5d; x3a; x20; x68; x69])].
Proof. vm_compute. reflexivity. Qed.

Print Assumptions C04_action_shape.
Print Assumptions C04_fixed_destinations.
Print Assumptions C04_one_record.
Print Assumptions C04_devlog_frame.
Print Assumptions C04_none_when_dropped.
Print Assumptions C04_none_when_empty.
Print Assumptions C04_at_most_one.
Print Assumptions C04_error_records.
Print Assumptions C04_fits_no_error_record.
