(** C04, end to end: the records of one wrapped exec call as a function of the configuration FILE, composed from the area
    models (System/Compose.v: Config.load -> Filter.check_chain -> Expand.log_message -> Output.action_el) and instantiated with
    every constant regenerated from the working tree.  Statements only; the general theorems are in System/Proofs.v. *)
From Snoopy Require Import Lib.CStr Lib.Skel Config.Model Config.Exec Filter.Model Expand.Model Expand.Tokens Output.Model Output.Proofs DsTruth.Model System.Compose System.Proofs System.Full.
From Coq Require Import Strings.String.
From Gen Require Import Gen_Config Gen_Filter Gen_Expand Gen_Output Gen_Errors Gen_Sys Gen_Ds.
Local Open Scope N_scope.

Definition SC : sys_consts :=
  {| sc_cfg := Gen_Config.consts; sc_flt := Gen_Filter.consts; sc_exp := Gen_Expand.consts; sc_out := Gen_Output.consts;
     sc_err := Gen_Errors.err_append_text; sc_filtering := Gen_Sys.filtering_compiled |}.

Lemma sys_gen_ok : chain_consts_ok (sc_flt SC) = true /\ expand_consts_ok (sc_exp SC) = true /\ output_consts_ok (sc_out SC) = true /\ sc_filtering SC = true.
Proof. repeat split; vm_compute; reflexivity. Qed.

(** the regenerated option tables / data source descriptions are the ones the C08 / C12 theorems hold for *)
Lemma cfg_gen_ok : config_consts_ok Gen_Config.consts = true.
Proof. vm_compute. reflexivity. Qed.
Lemma ds_gen_ok : ds_consts_ok Gen_Ds.gen = true.
Proof. vm_compute. reflexivity. Qed.

Section EndToEnd.
  Variable fverdict : fimpl -> list byte -> bool.                 (* verdicts of the registered filters in the current process state *)
  Variable known : list byte -> bool.
  Variable ds : list byte -> list byte -> N -> bool * list byte.
  Variable pid : N.

  (** For EVERY configuration file content (or none): when the conjunction over the elements of the configured filter chain is
      false, the call hands nothing to any sink - with or without error logging. *)
  Theorem C04_sys_dropped_silent : forall file,
      len (filter_chain (settings SC file)) < ini_max_line (sc_flt SC) ->
      decision SC fverdict file = false -> log_exec SC fverdict known ds pid file = Ok [].
  Proof. destruct sys_gen_ok as [A [_ [_ D]]]. exact (sys_dropped_silent SC A D fverdict known ds pid). Qed.

  (** For EVERY configuration file content: a passing call whose expansion fits the configured limits produces exactly one
      record, at the sink the file configures, framed as documented, carrying the ideal expansion of the configured format ... *)
  Theorem C04_sys_one_record : forall file,
      let g := settings SC file in
      let k := okind_of_name (output g) in
      len (filter_chain g) < ini_max_line (sc_flt SC) -> decision SC fverdict file = true ->
      len (ideal SC known ds file) <= log_max_len g -> ideal SC known ds file <> [] ->
      has_sink (sc_out SC) k (output_arg g) -> out_errors SC known ds g k = O ->
      e_prio (out_env SC known ds pid g) < 2 ^ 32 -> pid < 2 ^ 32 ->
      log_exec SC fverdict known ds pid file
      = Ok [(sink_of (sc_out SC) (out_env SC known ds pid g) k (output_arg g),
             documented_frame (devlog_prec (sc_out SC)) (out_env SC known ds pid g) k (ideal SC known ds file))].
  Proof. destruct sys_gen_ok as [A [B [Cc D]]]. exact (sys_one_record SC A B Cc D fverdict known ds pid). Qed.

  (** ... which is the left-to-right rendering of the format's tokens with the documented error texts *)
  Theorem C04_sys_ideal_is_documented : forall file,
      let g := settings SC file in
      ideal SC known ds file = Expand.Model.render (sc_exp SC) known ds (ds_max_len g + call_ds_adj (sc_exp SC) + ds_buf_adj (sc_exp SC))
                                 (tokens (S (List.length (message_format g))) (message_format g) []).
  Proof. destruct sys_gen_ok as [_ [B _]]. exact (sys_ideal_is_documented SC B known ds). Qed.
End EndToEnd.

Print Assumptions C04_sys_dropped_silent.
Print Assumptions C04_sys_one_record.
Print Assumptions C04_sys_ideal_is_documented.

(** non-vacuity: a concrete file that sets a dropping chain for uid 0 / a passing one *)
Example C04_sys_nonvacuous :
  filter_chain (settings SC (Some (bytes "[snoopy]
filter_chain = exclude_uid:0
output = stdout
"%string))) = bytes "exclude_uid:0"%string
  /\ output (settings SC (Some (bytes "[snoopy]
filter_chain = exclude_uid:0
output = stdout
"%string))) = bytes "stdout"%string.
Proof. vm_compute. split; reflexivity. Qed.

(** with no configuration file the compiled-in format is in force, and every tag of it names a data source of the regenerated
    description Gen_Ds (the C12 table): the end-to-end theorems above apply to the default configuration with [known_full] / [ds_full] *)
Example C04_sys_default_format_tags_known :
  forallb (fun t => match t with TTag n _ => known_full Gen_Ds.gen n | TUnterminated => false | TLit _ => true end)
          (tokens (S (List.length (message_format (settings SC None)))) (message_format (settings SC None)) []) = true
  /\ existsb (fun t => match t with TTag _ _ => true | _ => false end)
             (tokens (S (List.length (message_format (settings SC None)))) (message_format (settings SC None)) []) = true.
Proof. vm_compute. split; reflexivity. Qed.
