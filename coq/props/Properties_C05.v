(** C05 — Message format expansion is exact and length-bounded.
    Only statements, each closed by [exact] of a general theorem instantiated with the
    constants regenerated from /repo (Gen.Gen_Expand), plus non-vacuity examples. *)
From Snoopy Require Import Lib.CStr Expand.Model Expand.Proofs Expand.Tokens Expand.Markers.
From Coq Require Import Strings.String.
From Gen Require Import Gen_Expand.
Local Open Scope N_scope.

Lemma gen_ok : expand_consts_ok Gen_Expand.consts = true.
Proof. vm_compute. reflexivity. Qed.

Lemma err_texts_ok : error_texts_ok Gen_Expand.consts = true.
Proof. vm_compute. reflexivity. Qed.

(** what replaces an unterminated tag, a tag naming no data source, a tag whose data source fails: always "[ERROR: " ... "]",
    whatever name and data-source message are spliced in *)
Theorem C05_error_markers :
  bracketed (e_close Gen_Expand.consts) /\ (forall name, bracketed (e_nf1 Gen_Expand.consts ++ name ++ e_nf2 Gen_Expand.consts))
  /\ (forall name txt, bracketed (e_f1 Gen_Expand.consts ++ name ++ e_f2 Gen_Expand.consts ++ txt ++ e_f3 Gen_Expand.consts))
  /\ e_f2 Gen_Expand.consts <> [].
Proof. exact (error_markers Gen_Expand.consts err_texts_ok). Qed.

Section C05.
  Variable known : list byte -> bool.
  Variable ds : list byte -> list byte -> N -> bool * list byte.

  (** the message never exceeds log_message_max_length, for every format, registry and pair of limits *)
  Theorem C05_bounded : forall Llog Lds fmt,
      len (log_message Gen_Expand.consts known ds Llog Lds fmt) <= Llog.
  Proof. exact (log_message_bounded Gen_Expand.consts gen_ok known ds). Qed.

  (** no data source contributes more than datasource_message_max_length bytes
      (given that each data source respects the buffer it is handed: C02) *)
  Theorem C05_ds_bounded : ds_contract ds -> forall Llog Lds fmt,
      pieces_ds_le Lds (generate_pieces Gen_Expand.consts known ds
                          (Llog + call_log_adj Gen_Expand.consts) (Lds + call_ds_adj Gen_Expand.consts) fmt).
  Proof. exact (log_message_ds_bounded Gen_Expand.consts gen_ok known ds). Qed.

  (** whenever the full expansion fits it is emitted exactly *)
  Theorem C05_exact_when_fits : forall Llog Lds fmt,
      len (full Gen_Expand.consts known ds (Lds + call_ds_adj Gen_Expand.consts) fmt) <= Llog ->
      log_message Gen_Expand.consts known ds Llog Lds fmt = full Gen_Expand.consts known ds (Lds + call_ds_adj Gen_Expand.consts) fmt.
  Proof. exact (log_message_exact Gen_Expand.consts gen_ok known ds). Qed.

  (** the same for the syslog ident and output path templates (fixed buffers) *)
  Theorem C05_ident_bounded : forall fmt, len (ident_message Gen_Expand.consts known ds fmt) < ident_buf Gen_Expand.consts.
  Proof. intros fmt. apply (generate_lt Gen_Expand.consts gen_ok). vm_compute. discriminate. Qed.
  Theorem C05_path_bounded : forall fmt, len (path_message Gen_Expand.consts known ds fmt) < path_buf Gen_Expand.consts.
  Proof. intros fmt. apply (generate_lt Gen_Expand.consts gen_ok). vm_compute. discriminate. Qed.
  Theorem C05_ident_exact : forall fmt,
      len (full Gen_Expand.consts known ds (ident_buf Gen_Expand.consts) fmt) < ident_buf Gen_Expand.consts ->
      ident_message Gen_Expand.consts known ds fmt = full Gen_Expand.consts known ds (ident_buf Gen_Expand.consts) fmt.
  Proof. intros fmt. apply (generate_exact Gen_Expand.consts gen_ok). Qed.
  Theorem C05_path_exact : forall fmt,
      len (full Gen_Expand.consts known ds (path_buf Gen_Expand.consts) fmt) < path_buf Gen_Expand.consts ->
      path_message Gen_Expand.consts known ds fmt = full Gen_Expand.consts known ds (path_buf Gen_Expand.consts) fmt.
  Proof. intros fmt. apply (generate_exact Gen_Expand.consts gen_ok). Qed.

  (** "exactly" refers to the documented expansion: the ideal expansion is the left-to-right
      rendering of the independent character-level token reading of the format (literal text
      verbatim; %{name} / %{name:arg} split at the first ':' -> data source output; unknown name,
      unterminated tag, failing data source -> the bracketed error texts of Gen) *)
  Theorem C05_full_is_documented : forall third fmt,
      full Gen_Expand.consts known ds third fmt
      = render Gen_Expand.consts known ds (third + ds_buf_adj Gen_Expand.consts) (tokens (S (List.length fmt)) fmt []).
  Proof. exact (full_is_render Gen_Expand.consts eq_refl eq_refl eq_refl known ds). Qed.
End C05.

Print Assumptions C05_error_markers.
Print Assumptions C05_bounded.
Print Assumptions C05_ds_bounded.
Print Assumptions C05_exact_when_fits.
Print Assumptions C05_ident_bounded.
Print Assumptions C05_path_bounded.
Print Assumptions C05_ident_exact.
Print Assumptions C05_path_exact.
Print Assumptions C05_full_is_documented.

(** non-vacuity of the token reading: a literal, a tag with argument containing ':', stray braces *)
Example C05_tokens_nonvacuous :
  tokens 40 (bytes "a}%{env:X:Y} %{%{q}z%{"%string) [] =
  [TLit (bytes "a}"%string); TTag (bytes "env"%string) (bytes "X:Y"%string); TLit (bytes " "%string); TTag (bytes "%{q"%string) []; TLit (bytes "z"%string); TUnterminated].
Proof. vm_compute. reflexivity. Qed.
