(** C06 — cmdline and filename describe the current call only. *)
From Coq Require Import String.
From Snoopy Require Import Lib.CStr Lib.Skel Wrapper.Model Wrapper.Ids Datasource.Cmdline.
From Gen Require Import Gen_Cmdline Gen_Wrapper.
Local Open Scope N_scope.

Definition C := Gen_Cmdline.consts.
Definition F := ids_facts_of sk_init sk_cleanup sk_ids_ctor sk_ids_dtor sk_ids_defaults sk_wrapper_init sk_store_filename sk_store_argv sk_store_envp.

Lemma gen_ok : cmdline_consts_ok C = true.
Proof. vm_compute. reflexivity. Qed.
Lemma unknown_ok : cmdline_unknown_ok C = true.
Proof. vm_compute. reflexivity. Qed.
Lemma facts_ok : ids_facts_ok F = true.
Proof. vm_compute. reflexivity. Qed.
Lemma sep_space : sep C = [SP].
Proof. apply list_eqb_eq. exact gen_ok. Qed.

(** cmdline = the argument strings joined by single spaces, cut to the buffer *)
Theorem C06_cmdline_join : forall sz f a0 args, 0 < sz ->
    cmdline C f (Some (a0 :: args)) sz = takeN (sz - 1) (join [SP] (a0 :: args)).
Proof. intros sz f a0 args H. rewrite (cmdline_join C sz f a0 args H). now rewrite (joined_join C a0 args sep_space). Qed.

(** missing or empty argument vector: fall back to the path *)
Theorem C06_fallback : forall sz f, cmdline C (Some f) None sz = takeN (sz - 1) f /\ cmdline C (Some f) (Some []) sz = takeN (sz - 1) f.
Proof. exact (cmdline_fallback C). Qed.

(** path and arguments both missing: a fixed non-empty text without conversion specifications, cut to the buffer *)
Theorem C06_both_missing : forall sz, cmdline C None None sz = takeN (sz - 1) (unknown C) /\ cmdline C None (Some []) sz = takeN (sz - 1) (unknown C)
    /\ unknown C <> [] /\ ~ In x25 (unknown C).
Proof.
  intros sz. split; [reflexivity|]. split; [reflexivity|]. pose proof unknown_ok as H. unfold cmdline_unknown_ok in H.
  apply andb_prop in H. destruct H as [H1 H2]. split.
  - intros E. rewrite E in H1. discriminate H1.
  - intros Hin. rewrite forallb_forall in H2. specialize (H2 _ Hin). discriminate H2.
Qed.

Theorem C06_filename : forall sz f, filename_ds f sz = takeN (sz - 1) f.
Proof. exact filename_prefix. Qed.

(** the value always fits the buffer it was given, terminator included *)
Theorem C06_fits : forall sz f argv, 0 < sz -> len (cmdline C f argv sz) < sz.
Proof. exact (cmdline_fits C). Qed.

(** for every history of calls (execv and execve mixed, NULL vectors mixed in, any lengths), in both the
    thread-safe and the non-thread-safe variant, from any state left behind: the record of the k-th call is
    the record that call would produce alone, which is made of its own path and arguments only *)
Theorem C06_no_leftover : forall v sz h st, records C F v sz st h = map (record_alone C F sz) h.
Proof. intros v sz h st. exact (no_leftover C F v sz facts_ok h st). Qed.
Theorem C06_record_is_own : forall sz cl,
    record_alone C F sz cl = (cmdline C (c_file cl) (c_argv cl) sz, match c_file cl with Some fl => filename_ds fl sz | None => [] end).
Proof. intros sz cl. exact (record_is_own C F sz cl facts_ok). Qed.

Example C06_nonvacuous :
  cmdline C (Some [x2f; x62]) (Some [[x61]; [x62; x63]; []]) 6 = [x61; x20; x62; x63; x20] /\ ctor_resets F = true /\ dtor_resets F = true.
Proof. vm_compute. repeat split. Qed.

Print Assumptions C06_cmdline_join.
Print Assumptions C06_fallback.
Print Assumptions C06_both_missing.
Print Assumptions C06_filename.
Print Assumptions C06_fits.
Print Assumptions C06_no_leftover.
Print Assumptions C06_record_is_own.
