(** C07 — Filter chain is a conjunction; a drop silences the call.
    Statements over the constants, registry arrays and skeletons regenerated from the source. *)
From Coq Require Import String Permutation.
From Snoopy Require Import Lib.CStr Lib.Skel Filter.Model Filter.Proofs Filter.Action Output.Model Output.Proofs Wrapper.Model.
From Gen Require Import Gen_Filter Gen_Wrapper Gen_Output.
Local Open Scope N_scope.
Local Open Scope list_scope.

Definition C := Gen_Filter.consts.
Lemma gen_ok : chain_consts_ok C = true.
Proof. vm_compute. reflexivity. Qed.

(** for every behaviour of the registered functions and every chain the configuration line allows:
    the decision is the conjunction of [eval] over the non-empty ';'-fields, [eval] being true for unknown names *)
Theorem C07_conjunction : forall impl chain, len chain < ini_max_line C ->
    check_chain C impl chain = Ok (forallb (Filter.Model.eval C impl) (elements chain)).
Proof. exact (chain_conjunction C gen_ok). Qed.

(** "logged iff every filter named in the chain that this build knows returns pass" *)
Theorem C07_iff : forall impl chain, len chain < ini_max_line C ->
    (check_chain C impl chain = Ok true <->
     forall n a f, In (n, a) (elements chain) -> known C impl n = Some f -> f a = true).
Proof. exact (chain_iff C gen_ok). Qed.

Theorem C07_empty : forall impl, check_chain C impl [] = Ok true.
Proof. exact (chain_empty C gen_ok). Qed.
Theorem C07_only_semicolons : forall impl n, N.of_nat n < ini_max_line C -> check_chain C impl (repeat SEMI n) = Ok true.
Proof. exact (chain_only_semicolons C gen_ok). Qed.
Theorem C07_unknown_ignored : forall impl es,
    forallb (Filter.Model.eval C impl) es = forallb (Filter.Model.eval C impl) (filter (fun e => match known C impl (fst e) with Some _ => true | None => false end) es).
Proof. exact (unknown_ignored C). Qed.
(** the compiled-in default chain is inside the domain of the theorems *)
Theorem C07_default_chain_in_domain : len (default_chain C) < ini_max_line C.
Proof. exact (ok_default_chain C gen_ok). Qed.

(** reordering and repeating elements does not change the decision *)
Theorem C07_permutation : forall impl es es', Permutation es es' -> forallb (Filter.Model.eval C impl) es = forallb (Filter.Model.eval C impl) es'.
Proof. exact (eval_permutation C). Qed.
Theorem C07_duplication : forall impl es, forallb (Filter.Model.eval C impl) (es ++ es) = forallb (Filter.Model.eval C impl) es.
Proof. exact (eval_duplication C). Qed.
Theorem C07_same_set : forall impl ch ch', len ch < ini_max_line C -> len ch' < ini_max_line C ->
    (forall e, In e (elements ch) <-> In e (elements ch')) -> check_chain C impl ch = check_chain C impl ch'.
Proof. exact (chain_same_set C gen_ok). Qed.
Theorem C07_permutation_chain : forall impl L L', semi_free L -> Permutation L L' ->
    len (join [SEMI] L) < ini_max_line C -> len (join [SEMI] L') < ini_max_line C ->
    check_chain C impl (join [SEMI] L) = check_chain C impl (join [SEMI] L').
Proof. exact (join_permutation C gen_ok). Qed.
Theorem C07_duplication_chain : forall impl L, semi_free L ->
    len (join [SEMI] (L ++ L)) < ini_max_line C -> len (join [SEMI] L) < ini_max_line C ->
    check_chain C impl (join [SEMI] (L ++ L)) = check_chain C impl (join [SEMI] L).
Proof. exact (join_duplication C gen_ok). Qed.

(** chains of ANY length: the loop sees the first chain_max-1 bytes; it is safe as long as no name reaches the name buffer's size *)
Theorem C07_every_chain : forall impl chain, names_fit C (takeN (chain_max C - 1) chain) ->
    check_chain C impl chain = Ok (forallb (Filter.Model.eval C impl) (elements (takeN (chain_max C - 1) chain))).
Proof. exact (check_chain_general C gen_ok). Qed.

(** T2: the action skeleton. With filtering enabled and a DROP decision it calls only the configuration getter and
    the chain check; with a PASS decision it formats and dispatches exactly once after the check. *)
Theorem C07_action_skeleton :
    action_drop_silent (true_val C) (drop_val C) sk_action = true /\ action_pass_logs (true_val C) (pass_val C) sk_action = true.
Proof. split; vm_compute; reflexivity. Qed.

Lemma execve_shape : wrapper_ok "execve"%string 3 "snoopy_action_log_syscall_exec"%string sk_execve = true.
Proof. vm_compute. reflexivity. Qed.
Lemma execv_shape : wrapper_ok "execv"%string 2 "snoopy_action_log_syscall_exec"%string sk_execv = true.
Proof. vm_compute. reflexivity. Qed.

(** a drop silences the call: nothing but the getter and the check runs inside the action (no allocation, no
    formatting, no dispatch), the output model yields no record at any sink, and each wrapper still calls the real
    function exactly once, last, whatever the callees did *)
Theorem C07_drop_silent : forall impl chain v, len chain < ini_max_line C -> check_chain C impl chain = Ok v -> v = false ->
    (exists cs, arun (true_val C) (verdict_val C v) (sk_body sk_action) = Some cs
                /\ In CHECK cs /\ forall f, In f cs -> f = GETCFG \/ f = CHECK)
    /\ (forall e k arg msg, action Gen_Output.consts e true (negb v) k arg msg = [])
    /\ (forall (world : Type) callee real (w : world), exists pre,
          run [] (sk_body sk_execve) = Some (pre ++ [EvReal "execve"%string (params 3)], RReal)
          /\ interp world callee real (pre ++ [EvReal "execve"%string (params 3)]) w 0 None false
             = (fst (real "execve"%string (params 3) (run_calls world callee pre w)), 1%nat, Some (snd (real "execve"%string (params 3) (run_calls world callee pre w))), false))
    /\ (forall (world : Type) callee real (w : world), exists pre,
          run [] (sk_body sk_execv) = Some (pre ++ [EvReal "execv"%string (params 2)], RReal)
          /\ interp world callee real (pre ++ [EvReal "execv"%string (params 2)]) w 0 None false
             = (fst (real "execv"%string (params 2) (run_calls world callee pre w)), 1%nat, Some (snd (real "execv"%string (params 2) (run_calls world callee pre w))), false)).
Proof.
  intros impl chain v _ _ ->. split; [|split; [|split]].
  - apply action_drop_silent_spec. exact (proj1 C07_action_skeleton).
  - intros e k arg msg. exact (none_when_dropped Gen_Output.consts e k arg msg).
  - intros world callee real w. destruct (wrapper_ok_shape _ _ _ _ execve_shape) as [pre [H1 [H2 _]]].
    exists pre. split; [exact H1|]. now apply once_last.
  - intros world callee real w. destruct (wrapper_ok_shape _ _ _ _ execv_shape) as [pre [H1 [H2 _]]].
    exists pre. split; [exact H1|]. now apply once_last.
Qed.

(** non-vacuity: concrete chains inside the domain, one of them dropping; and the side condition is needed:
    a name as long as the name buffer (possible only beyond the configuration-line length) overflows it *)
Local Open Scope string_scope.
(** (every registered function drops: the examples do not depend on the models of the individual filters; "noop" is registered in every build) *)
Definition all_drop : fimpl -> list byte -> bool := fun _ _ => false.
Example C07_nonvacuous_drop :
  len (bytes ";nosuch:x;;noop:a;nosuch") < ini_max_line C
  /\ check_chain C all_drop (bytes ";nosuch:x;;noop:a;nosuch") = Ok false
  /\ check_chain C all_drop (bytes ";nosuch:x;;:y;noopx;nosuch;") = Ok true
  /\ check_chain C (fun _ _ => true) (bytes ";nosuch:x;;noop:a;nosuch") = Ok true.
Proof. vm_compute. repeat split; reflexivity. Qed.
Example C07_nonvacuous_elements :
  elements (bytes ";a:b:c;;d;:e;f:;") = [(bytes "a", bytes "b:c"); (bytes "d", []); ([], bytes "e"); (bytes "f", [])].
Proof. vm_compute. reflexivity. Qed.
Example C07_side_condition_needed :
  check_chain C all_drop (repeat x78 (N.to_nat (name_max C)) ++ [COLONB]) = Fault OOB_write.
Proof. vm_compute. reflexivity. Qed.

Print Assumptions C07_conjunction.
Print Assumptions C07_iff.
Print Assumptions C07_empty.
Print Assumptions C07_only_semicolons.
Print Assumptions C07_unknown_ignored.
Print Assumptions C07_default_chain_in_domain.
Print Assumptions C07_permutation.
Print Assumptions C07_duplication.
Print Assumptions C07_same_set.
Print Assumptions C07_permutation_chain.
Print Assumptions C07_duplication_chain.
Print Assumptions C07_every_chain.
Print Assumptions C07_action_skeleton.
Print Assumptions C07_drop_silent.
