(** C07 — Filter chain is a conjunction; a drop silences the call. *)
From Snoopy Require Import Lib.CStr Lib.Skel Filter.Model.
From Gen Require Import Gen_Filter.
Local Open Scope N_scope.

Definition C := Gen_Filter.consts.
Lemma gen_ok : filter_consts_ok C = true.
Proof. vm_compute. reflexivity. Qed.
