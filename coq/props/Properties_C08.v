(** C08 — Configuration file is parsed to the documented values with safe fallbacks.
    Only statements, each closed by [exact] of a general theorem instantiated with the constants
    regenerated from /repo (Gen.Gen_Config), plus non-vacuity examples. *)
From Coq Require Import Strings.String.
From Snoopy Require Import Lib.CStr Config.Model Config.Grammar Config.Exec Config.Values Config.Handler Config.IniLemmas Config.IniLines Config.RoundTrip Config.ConfDefs Config.ConfRoundTrip Config.Reach.
From Gen Require Import Gen_Config.
Local Open Scope N_scope.
Notation C := Gen_Config.consts.

Lemma gen_ok : config_consts_ok C = true.
Proof. vm_compute. reflexivity. Qed.

(** booleans by first letter, for every value string *)
Theorem C08_bool_first_letter : forall v, parse_bool C v = doc_bool v.
Proof. exact (bool_first_letter C gen_ok). Qed.

(** every documented facility/level name, in every letter case, with or without LOG_, maps to its <syslog.h> constant;
    every other string to the built-in default.  [single_strip C = true]: exactly one layer removes the prefix; on a tree
    where both configfile.c and util/syslog.c strip it, values starting with LOG_LOG_ are excluded (known finding) *)
Theorem C08_syslog_names : forall v, single_strip C = true \/ no_double_prefix v = true ->
  parse_facility C v = match doc_syslog (doc_fac C) v with Some n => n | None => d_facility C end
  /\ parse_level C v = match doc_syslog (doc_lvl C) v with Some n => n | None => d_level C end.
Proof. exact (syslog_names C gen_ok). Qed.

(** output = name[:argument], split at the first ':'; unknown name => default output and default argument *)
Theorem C08_output_split : forall v,
  parse_output C v = match doc_output C v with Some p => p | None => (d_output C, d_output_arg C) end.
Proof. exact (output_split C gen_ok). Qed.

(** lengths: for decimal numerals of ANY length with each suffix, n >= 1 -> clamp HARDMIN HARDMAX (n * factor) *)
Theorem C08_len_clamp : forall ds suf, forallb is_digit ds = true -> suffix_ok suf -> 1 <= digits_val ds ->
  bytelen C (ds_min C) (ds_max C) (ds_def C) (ds ++ suf) = clamp (doc_ds_min C) (doc_ds_max C) (digits_val ds * doc_factor suf)
  /\ bytelen C (log_min C) (log_max C) (log_def C) (ds ++ suf) = clamp (doc_log_min C) (doc_log_max C) (digits_val ds * doc_factor suf).
Proof. exact (len_clamp_both C gen_ok). Qed.

(** never decreasing as the number grows *)
Theorem C08_len_monotone : forall d1 d2 suf, forallb is_digit d1 = true -> forallb is_digit d2 = true -> suffix_ok suf ->
  1 <= digits_val d1 -> digits_val d1 <= digits_val d2 ->
  bytelen C (ds_min C) (ds_max C) (ds_def C) (d1 ++ suf) <= bytelen C (ds_min C) (ds_max C) (ds_def C) (d2 ++ suf)
  /\ bytelen C (log_min C) (log_max C) (log_def C) (d1 ++ suf) <= bytelen C (log_min C) (log_max C) (log_def C) (d2 ++ suf).
Proof. exact (len_monotone_both C gen_ok). Qed.

(** pinned fallback (DESIGN.md section 10): all-zero numerals and text without a leading digit keep the built-in default *)
Theorem C08_len_zero_default : forall v, digits_val (fst (span_digits v)) = 0 ->
  bytelen C (ds_min C) (ds_max C) (ds_def C) v = doc_ds_def C /\ bytelen C (log_min C) (log_max C) (log_def C) v = doc_log_def C.
Proof. exact (len_zero_default_both C gen_ok). Qed.

(** the value shown for an option after ANY sequence of handler calls is decided by its last occurrence:
    its documented reading if parsable; otherwise the value in force (boolean) or the built-in default (others) *)
Theorem C08_last_wins : forall o evs g, registered C o -> syslog_clean C evs ->
  render_option C o (fold_left (handler C) evs g) = resolve C o (render_option C o g) (rev (occurrences o evs)).
Proof. exact (last_wins C gen_ok). Qed.

(** ... and the executable specification evaluated on the implementation accepts the model's own result *)
Theorem C08_model_meets_spec : forall o evs, registered C o -> syslog_clean C evs ->
  spec_option_ok C evs o (render_option C o (fold_left (handler C) evs (defaults C))) = true.
Proof. exact (model_meets_spec C gen_ok). Qed.

(** other sections and unknown keys leave the record unchanged *)
Theorem C08_ignored_handler : forall g sec name v,
  sec <> SNOOPY \/ (forall o, registered C o -> name <> doc_name o) -> handler C g (sec, name, v) = g.
Proof. exact (handler_ignored C gen_ok). Qed.

(** comment lines and error lines make no handler call, whatever their text (with the two theorems above: C08_ignored) *)
Theorem C08_ignored_comment_line : forall st ln bom w m t e, inline_ws w = true -> memb m (ini_start_comment C) = true ->
  ini_body C st ln bom (w ++ [m] ++ t ++ render_eol e) = (same_state st ln, []).
Proof. exact (comment_line_no_event C gen_ok). Qed.
Theorem C08_ignored_error_line : forall st ln bom l1,
  (forall b, In b (lskip (rstrip l1)) -> b <> EQB /\ b <> COLONB) ->
  (nonempty (st_prev st) && (bom || negb (Nat.eqb (length (lskip (rstrip l1))) (length (rstrip l1))))) = false ->
  snd (ini_body C st ln bom l1) = [].
Proof. exact (error_line_no_event C). Qed.

(** per-line lemmas of ini_parse_stream *)
Theorem C08_section_line : forall st ln bom w n t e,
  inline_ws w = true -> negb (memb RBR n) = true -> no_inline C n = true -> (nonempty (st_prev st) && (bom || nonempty w)) = false ->
  ini_body C st ln bom (w ++ [LBR] ++ n ++ [RBR] ++ t ++ render_eol e) =
  ({| st_section := takeN (ini_max_section C - 1) n; st_prev := []; st_error := st_error st; st_lineno := ln |}, []).
Proof. exact (section_line C gen_ok). Qed.
Theorem C08_kv_line_event : forall st ln bom w1 k w2 sep w3 q v w4 cm e,
  wf_item C (nonempty (st_prev st)) (IKeyValue w1 k w2 sep w3 q v w4 cm) = true -> (bom = true -> st_prev st = []) ->
  ini_body C st ln bom (w1 ++ k ++ w2 ++ [sep] ++ w3 ++ quote q v ++ kv_tail w4 cm e) =
  ({| st_section := st_section st; st_prev := takeN (ini_max_name C - 1) k; st_error := st_error st; st_lineno := ln |}, [(st_section st, k, v)]).
Proof. exact (kv_line_event C gen_ok). Qed.

(** decode after encode: for EVERY abstract file of the supported grammar (sections, '='/':' separators, ';'/'#' comments, inline
    comments, double/single quotes, BOM, continuation lines, duplicate keys, arbitrary inline whitespace, LF / CR-LF / missing final
    newline; physical lines fitting the fgets buffer), ini_parse makes exactly the handler calls of its meaning and returns 0 *)
Theorem C08_grammar_roundtrip : forall f : ini_file, wf C f = true -> ini_events C (render f) = (meaning C f, 0).
Proof. exact (grammar_roundtrip C gen_ok). Qed.

(** the value shown by `snoopyctl conf`, written back into a config file, yields the same settings: for EVERY configuration reachable
    by parsing any file (any bytes).  [conf_ok] holds the two exclusions (known findings): every printed line fits the 1023-byte
    line buffer of the parser, and -- only while action-conf.c lacks the continuation form ([conf_cont C = false]) -- no string value
    holds whitespace followed by ';' *)
Theorem C08_conf_roundtrip : forall file path, let g := load C (defaults C) file in
  conf_ok C path g = true -> load C (defaults C) (conf_print C path g) = g.
Proof. exact (conf_roundtrip C gen_ok). Qed.
(** the listing is a file of the supported grammar, and every reachable configuration satisfies the invariant used above *)
Theorem C08_conf_listing_is_grammar : forall path g, render (conf_ast C path g) = conf_print C path g.
Proof. exact (conf_render C gen_ok). Qed.
Theorem C08_reachable_wf : forall file, cfg_wf C (load C (defaults C) file) = true.
Proof. exact (load_wf C gen_ok). Qed.

Print Assumptions C08_bool_first_letter.
Print Assumptions C08_syslog_names.
Print Assumptions C08_output_split.
Print Assumptions C08_len_clamp.
Print Assumptions C08_len_monotone.
Print Assumptions C08_len_zero_default.
Print Assumptions C08_last_wins.
Print Assumptions C08_model_meets_spec.
Print Assumptions C08_ignored_handler.
Print Assumptions C08_ignored_comment_line.
Print Assumptions C08_ignored_error_line.
Print Assumptions C08_section_line.
Print Assumptions C08_kv_line_event.
Print Assumptions C08_grammar_roundtrip.
Print Assumptions C08_conf_roundtrip.
Print Assumptions C08_conf_listing_is_grammar.
Print Assumptions C08_reachable_wf.

(** non-vacuity *)
Example C08_bool_nonvacuous : parse_bool C (bytes "Yes please") = Some true /\ parse_bool C (bytes "0") = Some false /\ parse_bool C (bytes "maybe") = None.
Proof. vm_compute. repeat split; reflexivity. Qed.
Example C08_syslog_nonvacuous :
  no_double_prefix (bytes "log_Local3") = true /\ parse_facility C (bytes "log_Local3") = 152 /\ parse_facility C (bytes "XYZ_DAEMON") = d_facility C
  /\ parse_level C (bytes "debug") = 7 /\ parse_level C (bytes "A") = d_level C.
Proof. vm_compute. repeat split; reflexivity. Qed.
Example C08_output_nonvacuous :
  parse_output C (bytes "file:/var/log/snoopy-%{datetime:%Y}") = (bytes "file", bytes "/var/log/snoopy-%{datetime:%Y}")
  /\ parse_output C (bytes ":file:/x") = (d_output C, d_output_arg C) /\ parse_output C (bytes "stdout") = (bytes "stdout", []).
Proof. vm_compute. repeat split; reflexivity. Qed.
Example C08_len_nonvacuous :
  bytelen C (log_min C) (log_max C) (log_def C) (bytes "2048m") = 1048575 /\ bytelen C (log_min C) (log_max C) (log_def C) (bytes "7k") = 7168
  /\ bytelen C (log_min C) (log_max C) (log_def C) (bytes "4294967297") = 1048575 /\ bytelen C (ds_min C) (ds_max C) (ds_def C) (bytes "1") = 255
  /\ bytelen C (ds_min C) (ds_max C) (ds_def C) (bytes "000") = 2047 /\ bytelen C (ds_min C) (ds_max C) (ds_def C) (bytes "asdf") = 2047.
Proof. vm_compute. repeat split; reflexivity. Qed.
Example C08_last_wins_nonvacuous :
  let evs := [(SNOOPY, bytes "output", bytes "file:/a"); (bytes "other", bytes "output", bytes "stdout"); (SNOOPY, bytes "syslog_level", bytes "LOG_ERR");
              (SNOOPY, bytes "output", bytes "stderr"); (SNOOPY, bytes "error_logging", bytes "yes"); (SNOOPY, bytes "error_logging", bytes "garbage")] in
  registered C OOutput /\ syslog_clean C evs
  /\ shown_of C (fold_left (handler C) evs (defaults C)) =
     map (fun r => (row_name r, match row_parse r with OOutput => bytes "stderr" | OLevel => bytes "ERR" | OErrorLogging => bytes "yes" | o => default_show C o end)) (options C).
Proof. split; [|split]; [vm_compute; tauto | right; intros e He; vm_compute in He; repeat (destruct He as [<-|He]; [vm_compute; reflexivity|]); contradiction | vm_compute; reflexivity]. Qed.

Definition example_file : ini_file :=
  {| f_bom := true;
     f_items := [(IComment [] SEMI (bytes " snoopy configuration"), ECRLF);
                 (ISection [] (bytes "snoopy") (bytes " ; main section"), ELF);
                 (IKeyValue [] (bytes "message_format") [SP] EQB [SP] QDouble (bytes " %{cmdline} ") [TAB] (Some (bytes " keep outer blanks")), ELF);
                 (ICont [TAB] (bytes "uid=%{uid} ;not a comment here"), ELF);
                 (IBlank [SP], ELF);
                 (IKeyValue [] (bytes "output") [] COLONB [] QNone (bytes "file:/var/log/a:b") [] None, ENONE)] |}.
Example C08_grammar_nonvacuous :
  wf C example_file = true
  /\ ini_events C (render example_file) =
     ([(SNOOPY, bytes "message_format", bytes " %{cmdline} "); (SNOOPY, bytes "message_format", bytes "uid=%{uid} ;not a comment here");
       (SNOOPY, bytes "output", bytes "file:/var/log/a:b")], 0).
Proof. split; vm_compute; reflexivity. Qed.
Example C08_ignored_nonvacuous :
  fst (ini_events C (bytes "; comment = 1
[other]
output = stdout
[snoopy]
no separator here
unknown_key = 5
")) = [(bytes "other", bytes "output", bytes "stdout"); (SNOOPY, bytes "unknown_key", bytes "5")]
  /\ load C (defaults C) (bytes "; comment = 1
[other]
output = stdout
[snoopy]
no separator here
unknown_key = 5
") = defaults C.
Proof. split; vm_compute; reflexivity. Qed.

Definition conf_example : list byte := bytes "[snoopy]
message_format = "" %{cmdline} ""   ; outer blanks kept
syslog_ident = '""id""'
output = file:/var/log/a:b
syslog_facility = log_local3
error_logging = Yes
log_message_max_length = 64k
".
Example C08_conf_nonvacuous :
  let g := load C (defaults C) conf_example in
  conf_ok C (bytes "/etc/snoopy.ini") g = true /\ message_format g = bytes " %{cmdline} " /\ syslog_ident g = bytes """id""" /\ log_max_len g = 65536
  /\ load C (defaults C) (conf_print C (bytes "/etc/snoopy.ini") g) = g.
Proof. vm_compute. repeat split; reflexivity. Qed.
(** the two exclusions are not vacuous: the witnesses of the known findings (replayed against the real code by the check) *)
Example C08_conf_inline_witness :
  let g := load C (defaults C) (bytes "[snoopy]
message_format = x
  a ;b
") in message_format g = bytes "a ;b" /\ (conf_cont C = true \/ load C (defaults C) (conf_print C [] g) <> g).
Proof. vm_compute. split; [reflexivity|]. first [left; reflexivity | right; discriminate]. Qed.
Example C08_conf_long_line_witness :
  let g := load C (defaults C) (bytes "[snoopy]
message_format=" ++ repeat x4d 1008 ++ [NL]) in
  len (message_format g) = 1008 /\ conf_ok C [] g = false /\ load C (defaults C) (conf_print C [] g) <> g.
Proof. vm_compute. split; [reflexivity|]. split; [reflexivity|discriminate]. Qed.
(** the same exclusion in the continuation form: a value holding whitespace+';' (so it is printed on an indented continuation row when
    action-conf.c has that form) of 1021 bytes, read from a row that fits ("\t" + value + newline = 1023 bytes), does not fit behind the
    four-space indent of the listing; [conf_ok] ([row_fits], second form) excludes it, and the round trip indeed fails *)
Example C08_conf_long_continuation_witness :
  let g := load C (defaults C) (bytes "[snoopy]
filter_chain = x
" ++ [TAB] ++ bytes "a ;" ++ repeat x4d 1018 ++ [NL]) in
  len (filter_chain g) = 1021 /\ has_inline (ini_inline_comment C) false (filter_chain g) = true
  /\ conf_ok C [] g = false /\ load C (defaults C) (conf_print C [] g) <> g.
Proof. vm_compute. split; [reflexivity|]. split; [reflexivity|]. split; [reflexivity|discriminate]. Qed.
