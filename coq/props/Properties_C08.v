(** C08 — Configuration file is parsed to the documented values with safe fallbacks. *)
From Snoopy Require Import Lib.CStr Config.Model Config.Grammar Config.Exec.
From Gen Require Import Gen_Config.
Local Open Scope N_scope.

Lemma gen_ok : config_consts_ok Gen_Config.consts = true.
Proof. vm_compute. reflexivity. Qed.
