(** C09 — Concurrent exec calls from threads stay isolated and complete.
    Statements over the lock skeletons of src/tsrm.c (Gen_Conc, clang AST) and the inventory of static-storage
    objects of the thread-safe library (Gen_Globals, clang AST + nm), regenerated from the source on every run.
    General theorems: Conc/DList.v, Conc/TsrmProofs.v, Conc/Fork.v (any number of threads, calls, accessor operations, any schedule). *)
From Coq Require Import String List Bool.
From Snoopy Require Import Conc.DList Conc.Tsrm Conc.LockSkel Conc.TsrmProofs Conc.Fork.
From Gen Require Import Gen_Conc Gen_Globals.
Import ListNotations.
Local Open Scope list_scope.

(** T2: the generated skeletons ARE the action sequences of the hand model *)
Lemma skeleton_ok : skeleton_matches tsrm_fns constructors = true.
Proof. vm_compute. reflexivity. Qed.
Lemma discipline : discipline_ok tsrm_fns = true.
Proof. vm_compute. reflexivity. Qed.
(** every function that locks the repository mutex unlocks it on every path (early returns included) *)
Lemma every_lock_is_released : balanced_ok tsrm_fns = true.
Proof. vm_compute. reflexivity. Qed.
Lemma model_follows_code : model_follows tsrm_fns = true.
Proof. vm_compute. reflexivity. Qed.
Lemma once_init_only : once_only tsrm_fns constructors fn_refs = true.
Proof. vm_compute. reflexivity. Qed.
Lemma nm_cross_check : nm_agrees globals nm_symbols unresolved_refs = true.
Proof. vm_compute. reflexivity. Qed.

(** no function a wrapped call can reach uses a libc function that keeps its result or position in hidden process-wide state shared by all
    threads (strtok, getpwuid, getgrgid, localtime, ttyname, getlogin, strerror, ...): the _r variants are used throughout *)
Lemma libc_calls_are_reentrant : libc_calls_reentrant fn_refs (reachable_fns fn_refs data_refs) = true.
Proof. vm_compute. reflexivity. Qed.
Lemma mutex_is_recursive : mutex_recursive tsrm_fns = true.
Proof. vm_compute. reflexivity. Qed.

(** the fork handlers the code registers (none, or the three recognised kinds) *)
Definition HS : handlers := match handlers_of tsrm_fns constructors with Some h => h | None => no_handlers end.
Lemma handlers_recognised : handlers_of tsrm_fns constructors = Some HS.
Proof. vm_compute. reflexivity. Qed.
Lemma parent_side_ok : parent_ok HS = true.
Proof. vm_compute. reflexivity. Qed.

(** util/list.c refines append / delete / successor on the abstract list the interleaving model uses; count = length *)
Theorem C09_DList_refines : forall h l xs, repr h l xs ->
  count l = length xs
  /\ (forall a v, a <> 0 -> h a = None -> exists h' l', push h l a v = Some (h', l', true) /\ repr h' l' (xs ++ [(a, v)]))
  /\ (forall pre n v post, xs = pre ++ (n, v) :: post ->
        exists h' l', remove h l n = Some (h', l', Some v) /\ h' n = None /\ repr h' l' (pre ++ post))
  /\ fetchNext h l 0 = Some (first_addr xs)
  /\ (forall pre n v post, xs = pre ++ (n, v) :: post -> fetchNext h l n = Some (first_addr post))
  /\ (forall p, walk (S (length xs)) h l p 0 = Some (find_first p xs)).
Proof. exact DList_refines. Qed.

(** over every reachable state: any number of threads, wrapped calls, forks and accessor operations, every schedule *)
Theorem C09_mutex : forall progs s t l s', reachable HS progs s -> step HS t s = Next l s' -> shared l = true -> mtx s = Some (Thr t, 1).
Proof. exact (mutex_discipline HS parent_side_ok). Qed.

Theorem C09_own_entry : forall progs s t, reachable HS progs s -> registered (pcs s t) = true ->
  NoDup (map e_tid (repo s)) /\ In t (map e_tid (repo s)) /\ find_tid t (repo s) = Some t /\
  exists e, get_entry t (repo s) = Some e /\ e_tid e = t /\ forall e', In e' (repo s) -> e_tid e' = t -> e' = e.
Proof. exact (own_entry HS parent_side_ok). Qed.

Theorem C09_accessor_returns_own : forall progs s t, reachable HS progs s ->
  match pcs s t with
  | A3 _ _ h | A4 _ _ h | D3 h | D3b h => h = Some t
  | D5 u => u = t
  | _ => True
  end.
Proof. exact (handle_is_own HS parent_side_ok). Qed.

(** the record of a call equals the record the same call produces alone: what a thread reads back through its accessors
    is what ITS OWN operations, run sequentially on fresh cells, give (C06 then says what the record made of these is) *)
Theorem C09_isolated : forall progs s t, reachable HS progs s ->
  reads s t = snd (alone (trace s t)) /\ own_prog s t = flat_map evs_of_item (progs t).
Proof.
  intros progs s t R. split; [exact (reads_alone HS parent_side_ok progs s t R)|exact (trace_is_own_program HS progs s t parent_side_ok R)].
Qed.
Theorem C09_isolated_final : forall progs s t, reachable HS progs s -> pcs s t = Out -> todo s t = [] ->
  reads s t = snd (alone (flat_map evs_of_item (progs t))).
Proof. intros progs s t. exact (isolated_final HS progs s t parent_side_ok). Qed.

(** no undefined behaviour (uninitialised mutex, NULL or dangling entry pointer) in any reachable state *)
Theorem C09_safe : forall progs s t, reachable HS progs s -> step HS t s <> Fault.
Proof. exact (safe HS parent_side_ok). Qed.

(** deadlock freedom *)
Theorem C09_progress : forall progs s, reachable HS progs s -> (exists t, ~ finished s t) -> exists t l s', step HS t s = Next l s'.
Proof. exact (progress HS parent_side_ok). Qed.
(** ... and every wrapped call returns after a fixed number of its own steps *)
Theorem C09_call_terminates : forall progs s t l s', reachable HS progs s -> step HS t s = Next l s' -> pcs s t <> Out ->
  call_steps (pcs s t) = S (call_steps (pcs s' t)) /\ todo s' t = todo s t.
Proof. intros progs s t l s' R. exact (step_measure HS s t l s' (reachable_inv HS parent_side_ok progs s R)). Qed.

(** once all calls have returned the library holds no per-thread state; a later lone call sees exactly one registered thread *)
Theorem C09_quiescent : forall progs s, reachable HS progs s -> (forall t, pcs s t = Out) -> repo s = [] /\ cnt s = 0 /\ mtx s = None.
Proof. exact (quiescent HS parent_side_ok). Qed.
Theorem C09_lone_call_sees_one : forall progs s t ops, reachable HS progs s -> pcs s t = K2 ops ->
  (forall u, u <> t -> registered (pcs s u) = false) -> cnt s = 1.
Proof. exact (lone_call_sees_one HS parent_side_ok). Qed.

(** every object with static storage duration in the thread-safe library is immutable, per-thread, never written,
    written only by functions no wrapped call reaches (test switches set before the first call), a pthread
    synchronisation object used through the pthread API only, or the repository, every access to which is made
    while holding the repository mutex ([discipline]) *)
Definition REACH := reachable_fns fn_refs data_refs.
Lemma globals_classified : globals_ok tsrm_fns globals REACH inlined_helpers = true.
Proof. vm_compute. reflexivity. Qed.
Theorem C09_no_unprotected_shared : forall g, In g globals -> exists p, classify tsrm_fns globals REACH inlined_helpers g = Some p.
Proof. exact (globals_ok_all tsrm_fns globals REACH inlined_helpers globals_classified). Qed.

(** non-vacuity: two threads inside wrapped calls at the same time, one of them at the thread-count read *)
Definition sched_nv : list tid := repeat 0 6 ++ repeat 1 6 ++ repeat 0 4 ++ repeat 1 4 ++ [0].
Example C09_nonvacuous :
  let s := fst (run_sched HS sched_nv (init HS prog2)) in
  reachable HS prog2 s /\ registered (pcs s 0) = true /\ registered (pcs s 1) = true /\ (exists ops, pcs s 0 = K2 ops) /\ cnt s = 2
  /\ (exists t, ~ finished s t).
Proof.
  split; [apply run_sched_reachable, R_init|]. vm_compute. repeat split; eauto. exists 0. intros [H _]. discriminate.
Qed.

Print Assumptions C09_DList_refines.
Print Assumptions C09_mutex.
Print Assumptions C09_own_entry.
Print Assumptions C09_accessor_returns_own.
Print Assumptions C09_isolated.
Print Assumptions C09_isolated_final.
Print Assumptions C09_safe.
Print Assumptions C09_progress.
Print Assumptions C09_call_terminates.
Print Assumptions C09_quiescent.
Print Assumptions C09_lone_call_sees_one.
Print Assumptions C09_no_unprotected_shared.
