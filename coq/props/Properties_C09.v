(** C09 — Concurrent exec calls from threads stay isolated and complete.
    Statements over the lock skeletons of src/tsrm.c (Gen_Conc, clang AST) and the inventory of static-storage
    objects of the thread-safe library (Gen_Globals, clang AST + nm), regenerated from the source on every run. *)
From Coq Require Import String List Bool.
From Snoopy Require Import Conc.DList Conc.Tsrm Conc.LockSkel.
From Gen Require Import Gen_Conc Gen_Globals.
Import ListNotations.
Local Open Scope string_scope.

(** T2: the generated skeletons are the action sequences of the hand model *)
Lemma skeleton_ok : skeleton_matches tsrm_fns constructors = true.
Proof. vm_compute. reflexivity. Qed.
Lemma discipline : discipline_ok tsrm_fns = true.
Proof. vm_compute. reflexivity. Qed.
Lemma model_follows_code : model_follows tsrm_fns = true.
Proof. vm_compute. reflexivity. Qed.
Lemma once_init_only : once_only fn_refs = true.
Proof. vm_compute. reflexivity. Qed.
Lemma nm_cross_check : nm_agrees globals nm_symbols unresolved_refs = true.
Proof. vm_compute. reflexivity. Qed.

Definition REACH := reachable_fns fn_refs data_refs.
Lemma globals_classified : globals_ok tsrm_fns globals REACH = true.
Proof. vm_compute. reflexivity. Qed.

(** every object with static storage duration in the thread-safe library is immutable, per-thread, never written,
    written only by functions no wrapped call reaches (test switches set before the first call), a pthread
    synchronisation object used through the pthread API only, or the repository, every access to which is made
    while holding the repository mutex ([discipline]) *)
Theorem C09_no_unprotected_shared : forall g, In g globals -> exists p, classify tsrm_fns globals REACH g = Some p.
Proof. exact (globals_ok_all tsrm_fns globals REACH globals_classified). Qed.

Print Assumptions C09_no_unprotected_shared.
