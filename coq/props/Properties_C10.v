(** C10 — Exec in a forked child of a multithreaded process never deadlocks.
    Statements over the fork handlers that src/tsrm.c registers, recognised in the lock skeletons regenerated from the
    source on every run (Gen_Conc, clang AST).  General theorems: Conc/Fork.v. *)
From Coq Require Import String List Bool Arith.
From Snoopy Require Import Conc.Tsrm Conc.LockSkel Conc.TsrmProofs Conc.Fork.
From Gen Require Import Gen_Conc Gen_Globals.
Import ListNotations.
Local Open Scope list_scope.

Lemma skeleton_ok : skeleton_matches tsrm_fns constructors = true.
Proof. vm_compute. reflexivity. Qed.
Lemma discipline : discipline_ok tsrm_fns = true.
Proof. vm_compute. reflexivity. Qed.
(** every function that locks the repository mutex unlocks it on every path (early returns included) *)
Lemma every_lock_is_released : balanced_ok tsrm_fns = true.
Proof. vm_compute. reflexivity. Qed.
Lemma model_follows_code : model_follows tsrm_fns = true.
Proof. vm_compute. reflexivity. Qed.

Definition HS : handlers := match handlers_of tsrm_fns constructors with Some h => h | None => no_handlers end.
Lemma handlers_recognised : handlers_of tsrm_fns constructors = Some HS.
Proof. vm_compute. reflexivity. Qed.
(** prepare locks the repository mutex, parent unlocks it, child re-initialises it and empties the repository *)
Lemma handlers_are_repaired : handlers_ok HS = true.
Proof. vm_compute. reflexivity. Qed.
Lemma parent_side_ok : parent_ok HS = true.
Proof. vm_compute. reflexivity. Qed.

(** EVERY lock of the thread-safe library and its entry point is the repository mutex of the model: the objects with static storage
    whose type is a pthread mutex / rwlock / spinlock / condition / barrier / semaphore are exactly the mutex the prepare handler locks,
    the parent handler unlocks and the child handler re-initialises, and no function outside the pinned functions of tsrm.c calls a
    locking primitive of any kind (pthread, semaphore, flock/lockf, stdio locks).  So the theorems below, stated for the model's one
    mutex, speak about all locks a forked child can inherit in the locked state. *)
Lemma all_locks_covered_ok : all_locks_covered tsrm_fns globals = true.
Proof. vm_compute. reflexivity. Qed.
Lemma locking_confined_ok : locking_confined tsrm_fns constructors inlined_helpers fn_refs = true.
Proof. vm_compute. reflexivity. Qed.
Theorem C10_all_locks_covered : forall g, In g globals -> is_lock_object g = true ->
  g_name g = "snoopy_tsrm_threadRepo_mutex"%string /\ covered_locks tsrm_fns = ["snoopy_tsrm_threadRepo_mutex"%string].
Proof. exact (all_locks_covered_spec tsrm_fns globals all_locks_covered_ok). Qed.

(** the repository mutex is recursive (type read from the pthread_mutexattr_settype call of snoopy_tsrm_init): a second lock by its owner - the
    prepare handler of a fork() issued from a signal handler that interrupted a lock window - is granted, and gives the mutex back in two unlocks *)
Lemma mutex_is_recursive : mutex_recursive tsrm_fns = true.
Proof. vm_compute. reflexivity. Qed.
Theorem C10_same_thread_reentry : forall t d, acquire t (Some (Thr t, S d)) = Some (Some (Thr t, S (S d)))
  /\ release t (Some (Thr t, S (S d))) = Some (Thr t, S d) /\ release t (Some (Thr t, 1)) = None.
Proof. intros t d. simpl. rewrite Nat.eqb_refl. auto. Qed.

(** no function a wrapped call can reach uses a libc function with hidden process-wide state behind a libc-internal lock (getpwuid, getgrgid,
    localtime, strtok, syslog, ...): fork() neither takes nor resets those locks, a child forked while another thread is inside one would block there *)
Lemma libc_calls_have_no_hidden_lock : libc_calls_reentrant fn_refs (reachable_fns fn_refs data_refs) = true.
Proof. vm_compute. reflexivity. Qed.

(** localtime_r(), strftime() (mktime for %s, tzset for %Z) and their relatives take libc's timezone lock, setutent()/getutline_r()/endutent()
    libc's utmp lock; fork() resets neither.  No function a wrapped call can reach calls one of them except through a guard that holds the
    repository mutex for the duration of the libc call(s) (snoopy_tsrm_localtime_r, snoopy_tsrm_strftime, snoopy_tsrm_getutline; shapes pinned
    by [skeleton_ok]); the fork handlers hold that mutex across fork(), so no thread is inside such a libc function on the library's behalf then *)
Lemma timezone_lock_callers_guarded : tz_unguarded tsrm_fns fn_refs (reachable_fns fn_refs data_refs) = [].
Proof. vm_compute. reflexivity. Qed.

(** the one-time initialisation (mutex, registration of the fork handlers) runs when the library is loaded, from a
    function carrying __attribute__((constructor)) whose whole body is the constructor's pthread_once call: the handlers
    are registered before any thread of the process can call fork() *)
Lemma load_time_init : h_preinit HS = true.
Proof. vm_compute. reflexivity. Qed.

(** From EVERY state of the process tree (the first process and, recursively, every child of every fork), whatever the other
    threads are doing inside the library at the instant of the fork, a thread that forks outside the library gets a child whose
    next wrapped call runs to the real exec in [6 + body_steps ops] steps of its own, never blocked, leaving nothing behind. *)
Theorem C10_child_completes : forall progs s t reg ops rest, preachable HS progs s -> pcs s t = F2 reg -> todo s t = Call ops :: rest ->
  exists c', run_alone HS (6 + body_steps ops) t (child_of HS s t reg) = Some c' /\ pcs c' t = Out /\ todo c' t = rest
             /\ repo c' = [] /\ cnt c' = 0 /\ mtx c' = None.
Proof. intros progs s t reg ops rest. exact (child_completes_always HS parent_side_ok handlers_are_repaired progs s t reg ops rest load_time_init). Qed.

(** every fork finds the handlers registered *)
Theorem C10_registered : forall progs s, preachable HS progs s ->
  Inv HS s /\ inited s = true /\ forall t reg, pcs s t = F2 reg -> reg = true.
Proof. intros progs. exact (preachable_good HS parent_side_ok handlers_are_repaired progs load_time_init). Qed.

(** the parent: the steps of a fork change nothing but the forking thread's program counter and the mutex, which the forking
    thread has given back when fork() returns; the other threads keep making progress (C09_progress covers forks) *)
Theorem C10_parent_unaffected : forall progs s t l s', reachable HS progs s -> step HS t s = Next l s' ->
  match pcs s t with F1 | F2 _ | F3 _ => True | _ => False end ->
  repo s' = repo s /\ cnt s' = cnt s /\ inited s' = inited s /\ todo s' = todo s /\ reads s' = reads s /\ counts s' = counts s /\ trace s' = trace s
  /\ (forall u, u <> t -> pcs s' u = pcs s u)
  /\ (pcs s' t = Out -> forall d, mtx s' <> Some (Thr t, d)).
Proof.
  intros progs s t l s' R Hs Hp. destruct (fork_steps_frame HS s t l s' Hs Hp) as [H1 [H2 [H3 [H4 [H5 [H6 [H7 H8]]]]]]].
  repeat (split; [assumption|]). intros Hout d Hm.
  assert (I' : Inv HS s') by (eapply step_inv; [exact parent_side_ok|exact (reachable_inv HS parent_side_ok progs s R)|exact Hs]).
  destruct (I_mwf HS s' I') as [E|[u E]]; [congruence|]. rewrite E in Hm. injection Hm as -> <-.
  apply (I_thr HS s' I' t) in E. rewrite Hout in E. discriminate.
Qed.
Theorem C10_parent_progress : forall progs s, reachable HS progs s -> (exists t, ~ finished s t) -> exists t l s', step HS t s = Next l s'.
Proof. exact (progress HS parent_side_ok). Qed.

(** what the search looks for: without handlers there is a reachable parent state whose child blocks for ever; a child
    handler that unlocks instead of re-initialising blocks every child; and with the handlers registered only on the first
    wrapped call (no load-time initialisation), a fork that began before that call still yields a blocked child *)
Lemma C10_without_handlers_refuted :
  exists s reg, reachable no_handlers progs_fork s /\ pcs s 0 = F2 reg /\ todo s 0 = [Call []] /\
                forall n, 3 <= n -> run_alone no_handlers n 0 (child_of no_handlers s 0 reg) = None.
Proof. exact no_handlers_child_blocks. Qed.
Lemma C10_unlocking_child_refuted :
  reachable unlocking_handlers progs_single parent_single /\ pcs parent_single 0 = F2 true /\
  forall n, 3 <= n -> run_alone unlocking_handlers n 0 (child_of unlocking_handlers parent_single 0 true) = None.
Proof. exact unlocking_child_blocks. Qed.
Lemma C10_first_call_race_refuted :
  reachable repaired_handlers progs_fork race_parent /\ pcs race_parent 0 = F2 false /\ todo race_parent 0 = [Call []] /\
  forall n, 3 <= n -> run_alone repaired_handlers n 0 (child_of repaired_handlers race_parent 0 false) = None.
Proof. exact first_call_race. Qed.

(** non-vacuity: thread 1 is inside the constructor's critical section, thread 0 has just got through the prepare handler *)
Definition sched_nv : list tid := [1; 1; 1; 1; 1; 1; 0; 0].
Example C10_nonvacuous :
  let s := fst (run_sched HS sched_nv (init HS progs_fork)) in
  preachable HS progs_fork s /\ pcs s 0 = F2 true /\ todo s 0 = [Call []] /\ registered (pcs s 1) = true.
Proof.
  split.
  - assert (G : forall sch s0, preachable HS progs_fork s0 -> preachable HS progs_fork (fst (run_sched HS sch s0))).
    { induction sch as [|t sch IH]; intros s0 R; simpl; [assumption|].
      destruct (step HS t s0) as [| |l s1] eqn:E; simpl; try assumption.
      specialize (IH s1 (P_step HS progs_fork s0 t l s1 R E)). destruct (run_sched HS sch s1). exact IH. }
    apply G, P_init.
  - vm_compute. repeat split.
Qed.

Print Assumptions C10_all_locks_covered.
Print Assumptions C10_child_completes.
Print Assumptions C10_registered.
Print Assumptions C10_parent_unaffected.
Print Assumptions C10_parent_progress.
Print Assumptions C10_without_handlers_refuted.
Print Assumptions C10_unlocking_child_refuted.
Print Assumptions C10_first_call_race_refuted.
