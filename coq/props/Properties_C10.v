(** C10 — Exec in a forked child of a multithreaded process never deadlocks.
    Statements over the fork handlers that src/tsrm.c registers, recognised in the lock skeletons regenerated from the
    source on every run (Gen_Conc, clang AST).  General theorems: Conc/Fork.v. *)
From Coq Require Import String List Bool.
From Snoopy Require Import Conc.Tsrm Conc.LockSkel Conc.TsrmProofs Conc.Fork.
From Gen Require Import Gen_Conc.
Import ListNotations.
Local Open Scope list_scope.

Lemma skeleton_ok : skeleton_matches tsrm_fns constructors = true.
Proof. vm_compute. reflexivity. Qed.
Lemma discipline : discipline_ok tsrm_fns = true.
Proof. vm_compute. reflexivity. Qed.
Lemma model_follows_code : model_follows tsrm_fns = true.
Proof. vm_compute. reflexivity. Qed.

Definition HS : handlers := match handlers_of tsrm_fns constructors with Some h => h | None => no_handlers end.
Lemma handlers_recognised : handlers_of tsrm_fns constructors = Some HS.
Proof. vm_compute. reflexivity. Qed.
(** prepare locks the repository mutex, parent unlocks it, child re-initialises it and empties the repository *)
Lemma handlers_are_repaired : handlers_ok HS = true.
Proof. vm_compute. reflexivity. Qed.
Lemma parent_side_ok : parent_ok HS = true.
Proof. vm_compute. reflexivity. Qed.

(** From EVERY state of the process tree (the first process and, recursively, every child), whatever the other threads
    are doing inside the library at the instant of the fork, a thread that forks outside the library gets a child whose next
    wrapped call runs to the real exec in [6 + body_steps ops] steps of its own, never blocked, leaving nothing behind.
    [F2 true]: the fork found the handlers registered, i.e. it began after snoopy_tsrm_init had run (see C10_registered). *)
Theorem C10_child_completes : forall progs s t ops rest, treachable HS progs s -> pcs s t = F2 true -> todo s t = Call ops :: rest ->
  exists c', run_alone HS (6 + body_steps ops) t (child_of HS s t true) = Some c' /\ pcs c' t = Out /\ todo c' t = rest
             /\ repo c' = [] /\ cnt c' = 0 /\ mtx c' = None.
Proof. exact (child_completes_tree HS parent_side_ok handlers_are_repaired). Qed.

(** when the one-time initialisation runs at load time every fork finds the handlers registered *)
Theorem C10_registered : h_preinit HS = true -> forall progs s, reachable HS progs s ->
  inited s = true /\ forall t reg, pcs s t = F2 reg -> reg = true.
Proof. intros Hpre progs s. exact (preinit_always_registered HS progs s parent_side_ok Hpre). Qed.

(** the parent: the steps of a fork change nothing but the forking thread's program counter and the mutex, which the forking
    thread has given back when fork() returns; the other threads keep making progress (C09_progress covers forks) *)
Theorem C10_parent_unaffected : forall progs s t l s', reachable HS progs s -> step HS t s = Next l s' ->
  match pcs s t with F1 | F2 _ | F3 _ => True | _ => False end ->
  repo s' = repo s /\ cnt s' = cnt s /\ inited s' = inited s /\ todo s' = todo s /\ reads s' = reads s /\ counts s' = counts s /\ trace s' = trace s
  /\ (forall u, u <> t -> pcs s' u = pcs s u)
  /\ (pcs s' t = Out -> forall d, mtx s' <> Some (Thr t, d)).
Proof.
  intros progs s t l s' R Hs Hp. destruct (fork_steps_frame HS s t l s' Hs Hp) as [H1 [H2 [H3 [H4 [H5 [H6 [H7 H8]]]]]]].
  repeat (split; [assumption|]). intros Hout d Hm.
  assert (I' : Inv HS s') by (eapply step_inv; [exact parent_side_ok|exact (reachable_inv HS parent_side_ok progs s R)|exact Hs]).
  destruct (I_mwf HS s' I') as [E|[u E]]; [congruence|]. rewrite E in Hm. injection Hm as -> <-.
  apply (I_thr HS s' I' t) in E. rewrite Hout in E. discriminate.
Qed.
Theorem C10_parent_progress : forall progs s, reachable HS progs s -> (exists t, ~ finished s t) -> exists t l s', step HS t s = Next l s'.
Proof. exact (progress HS parent_side_ok). Qed.

(** what the search looks for: without handlers there is a reachable parent state whose child blocks for ever; a child
    handler that unlocks instead of re-initialising blocks every child; and with the repaired handlers, a fork that began
    before the one-time initialisation ran still yields a blocked child *)
Lemma C10_without_handlers_refuted :
  exists s reg, reachable no_handlers progs_fork s /\ pcs s 0 = F2 reg /\ todo s 0 = [Call []] /\
                forall n, 3 <= n -> run_alone no_handlers n 0 (child_of no_handlers s 0 reg) = None.
Proof. exact no_handlers_child_blocks. Qed.
Lemma C10_unlocking_child_refuted :
  reachable unlocking_handlers progs_single parent_single /\ pcs parent_single 0 = F2 true /\
  forall n, 3 <= n -> run_alone unlocking_handlers n 0 (child_of unlocking_handlers parent_single 0 true) = None.
Proof. exact unlocking_child_blocks. Qed.
Lemma C10_first_call_race_refuted :
  reachable repaired_handlers progs_fork race_parent /\ pcs race_parent 0 = F2 false /\ todo race_parent 0 = [Call []] /\
  forall n, 3 <= n -> run_alone repaired_handlers n 0 (child_of repaired_handlers race_parent 0 false) = None.
Proof. exact first_call_race. Qed.

(** non-vacuity: thread 1 is inside the constructor's critical section, thread 0 has just got through the prepare handler *)
Definition sched_nv : list tid := [1; 1; 1; 1; 1; 1; 0; 0].
Example C10_nonvacuous :
  let s := fst (run_sched HS sched_nv (init HS progs_fork)) in
  treachable HS progs_fork s /\ pcs s 0 = F2 true /\ todo s 0 = [Call []] /\ registered (pcs s 1) = true.
Proof.
  split.
  - assert (G : forall sch s0, treachable HS progs_fork s0 -> treachable HS progs_fork (fst (run_sched HS sch s0))).
    { induction sch as [|t sch IH]; intros s0 R; simpl; [assumption|].
      destruct (step HS t s0) as [| |l s1] eqn:E; simpl; try assumption.
      specialize (IH s1 (T_step HS progs_fork s0 t l s1 R E)). destruct (run_sched HS sch s1). exact IH. }
    apply G, T_init.
  - vm_compute. repeat split.
Qed.

Print Assumptions C10_child_completes.
Print Assumptions C10_registered.
Print Assumptions C10_parent_unaffected.
Print Assumptions C10_parent_progress.
Print Assumptions C10_without_handlers_refuted.
Print Assumptions C10_unlocking_child_refuted.
Print Assumptions C10_first_call_race_refuted.
