(** C11 — Each call sees only the current configuration, nothing carried over.
    Statements over the life-cycle skeletons regenerated from the source (Gen_CfgLife: clang AST of configuration.c,
    configfile.c, tsrm.c, init-deinit.c in the thread-safe AND the non-thread-safe configuration). *)
From Coq Require Import String ZArith List Bool.
From Snoopy Require Import Lib.Skel Lib.ResFlow CfgLife.Model CfgLife.Proofs.
From Gen Require Import Gen_CfgLife.
Import ListNotations.
Local Open Scope string_scope.

Definition G := Gen_CfgLife.gen.

(** computed obligations: value facts of the skeletons; the ownership state space (every option's parser run from every
    reachable state of the record, every branch) is closed, free of leaks and invalid releases, and the dtor maps all of it to one clean state *)
Lemma facts_ok : vfacts_ok G = true.
Proof. vm_compute. reflexivity. Qed.
Lemma own_ok_ts : own_ok G TS = true.
Proof. vm_compute. reflexivity. Qed.
Lemma own_ok_nts : own_ok G NTS = true.
Proof. vm_compute. reflexivity. Qed.
Lemma own_ok_all v : own_ok G v = true.
Proof. destruct v; [exact own_ok_ts|exact own_ok_nts]. Qed.

(** For every file -> settings function that depends on the record's fields only, every history of files (rewritten, emptied,
    deleted = None, corrupted), every garbage in freshly allocated records, WHATEVER the use phase of a call writes into the record's settings
    ([h_use]; the skeleton facts show it writes no pointer field and no flag), both variants, from a fresh process (or any state
    in which the record is uninitialised or at its defaults): the effective configuration of call k is [parse defaults file_k]. *)
Theorem C11_history_free : forall (val file : Type) (dv : cfg val) (parse : cfg val -> option file -> cfg val),
    (forall c c' fl, (forall f, In f (g_fields G) -> c f = c' f) -> forall f, In f (g_fields G) -> parse c fl f = parse c' fl f) ->
    forall (v : variant) (h : list (hcall val file)) (s : vstate val) (k : nat) (c : hcall val file),
      (v_init s = false \/ forall f, In f (g_fields G) -> v_cfg s f = dv f) ->
      nth_error h k = Some c ->
      exists e, nth_error (effs G val file dv parse v s h) k = Some e /\ forall f, In f (g_fields G) -> e f = parse dv (h_file c) f.
Proof. intros val file dv parse Hext v h s k c Hs Hk. exact (history_free_nth G val file dv parse facts_ok Hext v h s k c Hs Hk). Qed.

(** For every history of option sequences handed to the callback (any file content reduces to one; duplicates included), both variants,
    every branch of every value parser: no boundary state of any call carries an invalid release (double free, free of a constant or
    of a dangling pointer) or an unreachable block ... *)
Theorem C11_no_double_free : forall v h trs s', hist_rel G v (process_start G v) h trs s' ->
    forall x, In x trs -> leaks x = [] /\ bad x = [].
Proof.
  intros v h trs s' H. destruct (own_history G v (own_ok_all v)) as [sb [_ [_ Hh]]]. exact (proj2 (Hh h trs s' H)).
Qed.

(** ... and after every call the record is in one and the same state, which holds no configuration block: n calls leave what one call leaves *)
Theorem C11_no_growth : forall v, exists sb, clean G sb = true /\ live_blocks sb = 0 /\
    forall h trs s', hist_rel G v (process_start G v) h trs s' -> h <> [] -> s' = sb.
Proof.
  intros v. destruct (own_history G v (own_ok_all v)) as [sb [_ [C Hh]]]. exists sb. split; [assumption|]. split; [now apply (clean_no_blocks G)|].
  intros h trs s' H Hne. destruct (proj1 (Hh h trs s' H)) as [E|E]; [contradiction|assumption].
Qed.

(** non-vacuity: a concrete history with duplicate string options, outputs with and without argument, an unknown output, an empty file *)
Definition sample_history : list (list string) :=
  [["message_format"; "message_format"; "output"; "output"; "syslog_ident"; "filter_chain"; "syslog_facility"; "error_logging"; "no_such_option"];
   []; ["output"; "log_message_max_length"; "datasource_message_max_length"; "syslog_level"]].
Lemma sample_runs v : match hist_first G v (process_start G v) sample_history with Some s' => Nat.eqb (live_blocks s') 0 | None => false end = true.
Proof. destruct v; vm_compute; reflexivity. Qed.
Example C11_history_nonvacuous : forall v, exists trs s', hist_rel G v (process_start G v) sample_history trs s' /\ live_blocks s' = 0.
Proof.
  intros v. pose proof (sample_runs v) as H. destruct (hist_first G v (process_start G v) sample_history) as [s'|] eqn:E; [|discriminate].
  apply PeanoNat.Nat.eqb_eq in H. destruct (hist_first_sound G v _ _ _ E) as [trs Ht]. exact (ex_intro _ trs (ex_intro _ s' (conj Ht H))).
Qed.
(** during a call blocks ARE held (the theorem is not about an empty heap) *)
Example C11_blocks_held_mid_call : exists s, In s (reach_set G NTS) /\ live_blocks s = 5.
Proof.
  assert (H : existsb (fun s => Nat.eqb (live_blocks s) 5) (reach_set G NTS) = true) by (vm_compute; reflexivity).
  apply existsb_exists in H as [s [Hs E]]. apply PeanoNat.Nat.eqb_eq in E. exact (ex_intro _ s (conj Hs E)).
Qed.
(** a parser in the sense of the hypothesis of C11_history_free *)
Example C11_parse_law_nonvacuous :
  let parse := fun (c : cfg nat) (fl : option nat) => match fl with Some n => fun f => if String.eqb f "log_message_max_length" then n else c f | None => c end in
  (forall c c' fl, (forall f, In f (g_fields G) -> c f = c' f) -> forall f, In f (g_fields G) -> parse c fl f = parse c' fl f)
  /\ In "log_message_max_length" (g_fields G).
Proof.
  split.
  - intros c c' [n|] H f Hf; simpl; [destruct (String.eqb f "log_message_max_length"); auto|auto].
  - vm_compute. tauto.
Qed.

Print Assumptions C11_history_free.
Print Assumptions C11_no_double_free.
Print Assumptions C11_no_growth.
