(** C11 joined with C08 and the end-to-end model (System/History.v): the life-cycle model over the regenerated skeletons,
    instantiated with the real file -> settings function (Config.Model.load over the regenerated option tables). *)
From Coq Require Import String List Bool.
From Snoopy Require Import Lib.CStr Lib.Skel Lib.ResFlow CfgLife.Model CfgLife.Proofs Config.Model Config.Exec Filter.Model System.Compose System.History.
From Gen Require Import Gen_CfgLife Gen_Config Gen_Filter Gen_Expand Gen_Output Gen_Errors Gen_Sys.
Import ListNotations.

Definition G := Gen_CfgLife.gen.
Definition CC := Gen_Config.consts.
Definition SC : sys_consts :=
  {| sc_cfg := Gen_Config.consts; sc_flt := Gen_Filter.consts; sc_exp := Gen_Expand.consts; sc_out := Gen_Output.consts;
     sc_err := Gen_Errors.err_append_text; sc_filtering := Gen_Sys.filtering_compiled |}.

Lemma facts_ok : vfacts_ok G = true.
Proof. vm_compute. reflexivity. Qed.
(** the regenerated option tables, defaults and parser constants are the ones the C08 theorems hold for *)
Lemma cfg_gen_ok : config_consts_ok Gen_Config.consts = true.
Proof. vm_compute. reflexivity. Qed.
(** the ten settings the INI layer can change are fields of the C record as regenerated from configuration.h *)
Lemma setting_fields_ok : forallb (fun f => str_in f (g_fields G)) setting_fields = true.
Proof. vm_compute. reflexivity. Qed.

(** the record as setDefaults leaves it: the built-in defaults of Gen_Config in the ten settings *)
Definition dv : rcfg := embed (defaults CC) (fun _ => SVother).
Lemma dv_defaults : proj dv = defaults CC.
Proof. apply proj_embed. Qed.

(** For EVERY history of configuration files (rewritten, emptied, deleted, corrupted: any bytes), any garbage in freshly allocated
    records, whatever the use phase writes, thread-safe and non-thread-safe variant, from a fresh process: the settings in force for
    call k are [settings file_k] - the built-in defaults overlaid with file k, nothing of the earlier calls ... *)
Theorem C11_effective_settings : forall v (h : list (hcall sval (list byte))) s k c,
    (v_init s = false \/ forall f, In f (g_fields G) -> v_cfg s f = dv f) ->
    nth_error h k = Some c ->
    exists e, nth_error (effs G sval (list byte) dv (parse_real CC) v s h) k = Some e /\ proj e = settings SC (h_file c).
Proof. exact (effective_settings CC G facts_ok setting_fields_ok dv dv_defaults). Qed.

(** ... hence what call k hands to the sinks is what the same call hands to them as the first call of a fresh process *)
Theorem C11_records_depend_on_current_file_only : forall fverdict known ds pid v (h : list (hcall sval (list byte))) s k c,
    (v_init s = false \/ forall f, In f (g_fields G) -> v_cfg s f = dv f) ->
    nth_error h k = Some c ->
    exists e, nth_error (effs G sval (list byte) dv (parse_real CC) v s h) k = Some e
              /\ log_with SC fverdict known ds pid (proj e) = log_exec SC fverdict known ds pid (h_file c).
Proof.
  intros fverdict known ds pid v h s k c Hs Hk.
  destruct (C11_effective_settings v h s k c Hs Hk) as [e [He Hp]]. exists e. split; [exact He|].
  unfold log_exec. now rewrite Hp.
Qed.

Print Assumptions C11_effective_settings.
Print Assumptions C11_records_depend_on_current_file_only.

(** non-vacuity: a three-call history (file sets a format; file removed; garbage file) in the non-thread-safe variant *)
Example C11_sys_nonvacuous :
  let mk := fun fl => {| h_file := fl; h_garbage := fun _ => SVother; h_ginit := false; h_use := fun c => c; h_use_init := fun b => b |} in
  exists e, nth_error (effs G sval (list byte) dv (parse_real CC) NTS {| v_init := false; v_cfg := fun _ => SVother |}
                            [mk (Some (bytes "[snoopy]
message_format = x
")); mk None; mk (Some (bytes "garbage"))]) 1 = Some e /\ proj e = defaults CC.
Proof.
  intros mk.
  destruct (C11_effective_settings NTS [mk (Some (bytes "[snoopy]
message_format = x
")); mk None; mk (Some (bytes "garbage"))] {| v_init := false; v_cfg := fun _ => SVother |} 1 (mk None) (or_introl eq_refl) eq_refl) as [e [He Hp]].
  exists e. split; [exact He|exact Hp].
Qed.
