(** C12 — identity and environment data sources report the process's true state. *)
From Coq Require Import String ZArith NArith List.
From Snoopy Require Import Lib.CStr Datasource.Cmdline DsTruth.Model.
From Gen Require Import Gen_Ds Gen_Cmdline.

Definition G := Gen_Ds.gen.
Definition CC := Gen_Cmdline.consts.

Lemma gen_ok : ds_consts_ok G = true.
Proof. vm_compute. reflexivity. Qed.
