(** C12 — identity and environment data sources report the process's true state.

    G  = what vlib/tr_ds.py read from the current tree (clang AST of every data source the registry binds:
         queries and formats as decision trees; constants of the loop-based sources).
    CC = the separator / fallback literals of cmdline.c (vlib/translate.py).
    [eval_ds G CC name st arg sz]  the outcome the generated description gives in process state [st];
    [documented ... name]          the hand-written table taken from etc/snoopy.ini.in and the source headers. *)
From Coq Require Import String ZArith NArith List Lia.
From Snoopy Require Import Lib.CStr Datasource.Cmdline DsTruth.Model DsTruth.Proofs DsTruth.Procfs.
From Gen Require Import Gen_Ds Gen_Cmdline.
Import ListNotations.
Local Open Scope Z_scope.

Definition G := Gen_Ds.gen.
Definition CC := Gen_Cmdline.consts.

Lemma gen_ok : ds_consts_ok G = true.
Proof. vm_compute. reflexivity. Qed.
Lemma cmdline_ok : cmdline_consts_ok CC = true.
Proof. vm_compute. reflexivity. Qed.

(** for every process state and every data source of the simple class: the generated description returns the documented value.
    [in_domain]: ranges the kernel guarantees for ids/pids/clock ([wf_pstate]), NUL-free argument, and the four stated exclusions
    (timestamp below [ts_exact_below G]; env_all with a buffer of at least 4 bytes; filename/cmdline while an exec call is logged) *)
Theorem C12_table : forall name st arg sz, In name simple_class -> in_domain G name st arg sz ->
  eval_ds G CC name st arg sz = documented (g_consts G) st arg sz name.
Proof. exact (table_general G CC gen_ok cmdline_ok). Qed.

(** uid/euid/gid/egid/pid/ppid/sid/tid/tid_kernel: constant in every field of the state but their own ... *)
Theorem C12_id_only_own_field : forall name f, id_field name = Some f -> forall st1 st2 a1 a2 sz,
  wf_pstate st1 -> wf_pstate st2 -> nonul a1 -> nonul a2 -> f st1 = f st2 ->
  eval_ds G CC name st1 a1 sz = eval_ds G CC name st2 a2 sz.
Proof. exact (id_only_own_field G CC gen_ok cmdline_ok). Qed.
(** ... and injective in it (which is what confusing getuid/geteuid/getgid, or %d/%u for ids >= 2^31, breaks) *)
Theorem C12_id_injective : forall name f, id_field name = Some f -> forall st1 st2 a1 a2 sz,
  wf_pstate st1 -> wf_pstate st2 -> nonul a1 -> nonul a2 -> (66 <= sz)%N ->
  eval_ds G CC name st1 a1 sz = eval_ds G CC name st2 a2 sz -> f st1 = f st2.
Proof. exact (id_injective G CC gen_ok cmdline_ok). Qed.

(** env_all: the entries joined by commas; when the buffer is short, the first size-4 bytes of that text and "..."; never beyond the buffer;
    environ == NULL gives the empty string *)
Theorem C12_env_all : forall env sz, (4 <= sz)%N ->
  env_all (g_consts G) env sz = Some (env_all_spec env sz) /\ (len (env_all_spec env sz) < sz)%N.
Proof. exact (env_all_general G gen_ok). Qed.

(** cgroup: for every text of /proc/<pid>/cgroup and every pattern, the entry selected by the code (strstr loop with start-of-line
    test for a hierarchy number; strtok_r lines and controller-list scan for a name) is the documented one: the first line
    "<number>:..." resp. the first line whose second colon-separated field (non-empty, of at least three) names the controller *)
Theorem C12_cgroup_line : forall content arg, cgroup_select content arg = cgroup_spec content arg.
Proof. exact cgroup_select_spec. Qed.

(** rpname: reading "Name"/"PPid" back from a status text, and the walk: along every ancestor chain (each member's status file
    well formed, the last member's parent being pid 1 or 0) the result is the name of that last member, the root ancestor *)
Theorem C12_rpname_root : forall status_of ch top, chain_ok status_of ch top -> forall fuel, (length ch <= fuel)%nat ->
  rpname_walk (g_consts G) status_of fuel (n_pid (hd {| n_pid := 0; n_name := []; n_mid := []; n_tail := [] |} ch)) =
  Some (takeN (rp_val_max (g_consts G)) (n_name (last ch {| n_pid := 0; n_name := []; n_mid := []; n_tail := [] |}))).
Proof. exact (rpname_general G gen_ok). Qed.

(** the time below which [timestamp] is exact: 2^31 for the int cast of the current source, 2^63 for the full-width form *)
Lemma C12_timestamp_bound : two31 <= ts_exact_below G.
Proof. exact (ts_bound_general G). Qed.

(** non-vacuity: a well-formed state with pairwise distinct ids, one of them >= 2^31 and without passwd entry *)
Definition st_example : pstate :=
  {| ruid := 4294967294; euid := 1002; suid := 1003; rgid := 2001; egid := 1; sgid := 2003;
     pid := 4242; ppid := 4000; sid := 3999; pgid := 4242; pthread_id := 140737353971520; ktid := 4243;
     cwd := Some (lit "/tmp/x"); hostname := lit "vm";
     fd_tty := fun fd => if fd =? 0 then TtyName (lit "/dev/pts/3") else TtyErr ENOTTY;
     file_owner := fun p => if list_eqb p (lit "/dev/pts/3") then Some 2147483653 else None;
     login_name := None; environ := Some [lit "AB=2"; lit "A=1"; lit "LOGNAME=bob"];
     passwd := fun u => if u =? 1002 then Some (lit "alice") else None;
     groupdb := fun g => if g =? 1 then Some (lit "daemon") else None;
     cgroup_file := None; proc_status := fun _ => None; clock_sec := 1790000000; clock_usec := 4567;
     tz_strftime := fun t f => lit "2026-09-22"; exec_file := Some (lit "/bin/ls"); exec_argv := Some [lit "ls"; lit "-l"] |}.

Example C12_nonvacuous_wf : wf_pstate st_example.
Proof.
  constructor; unfold is_id, is_pid, two31, two32, two63, two64; cbn -[Z.lt Z.le list_eqb Z.eqb]; try lia.
  - intros p u. match goal with |- context[list_eqb ?a ?b] => destruct (list_eqb a b) end; [|discriminate]. intros E. injection E as E. subst u. lia.
  - intros fd. destruct (fd =? 0); discriminate.
  - intros env e E I. injection E as <-. cbn in I. repeat (destruct I as [<-|I]; [vm_compute; reflexivity|]). contradiction.
Qed.
Example C12_nonvacuous_values :
  map (fun n => option_map (fun o => (o_ret o, option_map string_of_list_byte (o_buf o))) (eval_ds G CC n st_example (lit "A") 64))
      ["uid"; "euid"; "gid"; "egid"; "username"; "eusername"; "tty_uid"; "tty_username"; "env"; "login"]%string
  = [Some (10, Some "4294967294"); Some (4, Some "1002"); Some (4, Some "2001"); Some (1, Some "1"); Some (15, Some "user-4294967294");
     Some (5, Some "alice"); Some (10, Some "2147483653"); Some (15, Some "user-2147483653"); Some (1, Some "1"); Some (3, Some "bob")]%string.
Proof. vm_compute. reflexivity. Qed.
Example C12_nonvacuous_env_all :
  option_map string_of_list_byte (env_all (g_consts G) (Some [lit "A=1"; lit "LOGNAME=bob"; lit "AB=2"]) 20) = Some "A=1,LOGNAME=bob,..."%string.
Proof. vm_compute. reflexivity. Qed.

Example C12_nonvacuous_cgroup :
  let text := lit "11:cpu,cpuacct:/a
x1:pids:/no
1:name=systemd:/user.slice
0::/c
" in
  map (fun a => option_map string_of_list_byte (cgroup_select text (lit a))) ["1"; "cpuacct"; "name=systemd"; "0"; "pids"; "7"]%string
  = [Some "1:name=systemd:/user.slice"; Some "11:cpu,cpuacct:/a"; Some "1:name=systemd:/user.slice"; Some "0::/c"; Some "x1:pids:/no"; None]%string.
Proof. vm_compute. reflexivity. Qed.

Definition status_example (name : string) (ppid : N) : list byte :=
  status_text (lit name) [(lit "Umask", lit "0022"); (lit "Pid", lit "77")] ppid [lit "Uid:	0	0"; lit "no colon line"].
Definition proc_example (p : Z) : option (list byte) :=
  if p =? 4242 then Some (status_example "leaf" 4000) else if p =? 4000 then Some (status_example "mid (x)" 331)
  else if p =? 331 then Some (status_example "root anc" 1) else None.
Example C12_nonvacuous_rpname :
  option_map string_of_list_byte (rpname_walk (g_consts G) proc_example 4 4242) = Some "root anc"%string
  /\ option_map string_of_list_byte (rpname_walk (g_consts G) proc_example 4 5) = Some "(unknown)"%string.
Proof. vm_compute. split; reflexivity. Qed.

Print Assumptions C12_table.
Print Assumptions C12_cgroup_line.
Print Assumptions C12_rpname_root.
Print Assumptions C12_id_only_own_field.
Print Assumptions C12_id_injective.
Print Assumptions C12_env_all.
