(** C13 — Registered names bind to their own implementation in every build configuration.
    Only statements, each closed by [exact] of a general theorem (Registry/Proofs.v, proved for ALL guarded
    tables by induction, nothing enumerated) instantiated with the tables regenerated from the source
    (Gen.Gen_Registry: the two arrays of each registry as written, with their #ifdef nesting), plus
    non-vacuity examples.  [cfg : string -> bool] ranges over ALL assignments of the guard macros. *)
From Coq Require Import String List Bool ZArith.
From Snoopy Require Import Registry.Model Registry.Proofs Registry.Exec Registry.Options.
From Gen Require Import Gen_Registry.
Import ListNotations.
Local Open Scope string_scope.
Local Open Scope list_scope.

Definition C := Gen_Registry.consts.
Definition SENT := rc_sentinel C.

(** the regenerated tables pass the computed check: lexer recognised everything; per registry the names array is
    body ++ [sentinel], no body name is the sentinel, body and pointer array are aligned row by row (same guard
    nesting, pointer = naming convention applied to the name), no name twice, every switchable row is switched by
    its own feature guard; configure.ac / config.h.in switches = guards used; lookup functions of the modelled shape *)
Lemma gen_ok : registry_consts_ok C = true.
Proof. vm_compute. reflexivity. Qed.

Lemma wf_ds : well_formed SENT (rc_ds C) = true.   Proof. exact (proj1 (consts_parts C gen_ok)). Qed.
Lemma wf_flt : well_formed SENT (rc_flt C) = true. Proof. exact (proj1 (proj2 (consts_parts C gen_ok))). Qed.
Lemma wf_out : well_formed SENT (rc_out C) = true. Proof. exact (proj1 (proj2 (proj2 (consts_parts C gen_ok)))). Qed.
Lemma wf_all : forall k, well_formed SENT (reg_of C k) = true.
Proof. intros [| |]; [exact wf_ds | exact wf_flt | exact wf_out]. Qed.
Lemma kind_all : forall k, r_kind (reg_of C k) = k.
Proof. intros [| |]; vm_compute; reflexivity. Qed.

(** In EVERY configuration, each available name invokes its own implementation:
    %{X} runs snoopy_datasource_X, filter X runs snoopy_filter_X, output X runs snoopy_output_Xoutput. *)
Theorem C13_lookup_own : forall k cfg n, In n (names SENT (reg_of C k) cfg) -> call SENT (reg_of C k) cfg n = Called (impl_of k n).
Proof. intros k cfg n H. generalize (lookup_own SENT (reg_of C k) (wf_all k) cfg n H). now rewrite kind_all. Qed.

(** A feature that is switched off is simply an unknown name (the lookup fails cleanly, nothing is called),
    and every other name's binding is the one of the all-on configuration. *)
Theorem C13_off_is_unknown : forall k cfg n, enabled (reg_of C k) cfg n = false ->
    call SENT (reg_of C k) cfg n = Unknown
    /\ forall m, In m (names SENT (reg_of C k) cfg) ->
         In m (names SENT (reg_of C k) all_on) /\ call SENT (reg_of C k) cfg m = call SENT (reg_of C k) all_on m.
Proof.
  intros k cfg n H. split; [exact (off_is_unknown SENT _ (wf_all k) cfg n H) | exact (same_as_all_on SENT _ (wf_all k) cfg)].
Qed.

(** availability is exactly "the guards around (a row of) the name all hold" *)
Theorem C13_available_iff_enabled : forall k cfg n, In n (names SENT (reg_of C k) cfg) <-> enabled (reg_of C k) cfg n = true.
Proof. intros k. exact (names_enabled SENT _ (wf_all k)). Qed.

(** the enable switch of the feature itself, SNOOPY_CONF_<KIND>_ENABLED_<name>, off => unknown name
    (the fixed entries noop / failure have no switch) *)
Theorem C13_feature_switch_off : forall k cfg n, cfg (feature_guard k n) = false -> ~ In n (fixed_names (reg_of C k)) ->
    call SENT (reg_of C k) cfg n = Unknown.
Proof. intros k cfg n H. apply (feature_off_is_unknown SENT _ (wf_all k)). now rewrite kind_all. Qed.

(** no shift: turning ANY switch off never changes what another still-available name invokes *)
Theorem C13_no_shift : forall k cfg g n, In n (names SENT (reg_of C k) (switch_off g cfg)) ->
    In n (names SENT (reg_of C k) cfg) /\ call SENT (reg_of C k) (switch_off g cfg) n = call SENT (reg_of C k) cfg n.
Proof. intros k. exact (switch_off_no_shift SENT _ (wf_all k)). Qed.

Theorem C13_config_independent : forall k cfg cfg' n, In n (names SENT (reg_of C k) cfg) -> In n (names SENT (reg_of C k) cfg') ->
    call SENT (reg_of C k) cfg n = call SENT (reg_of C k) cfg' n.
Proof. intros k. exact (no_shift SENT _ (wf_all k)). Qed.

(** the sentinel ends the names array exactly where the pointer array ends, in every configuration
    (getCount = number of pointers; no lookup can index past either array) *)
Theorem C13_sentinel_index : forall k cfg,
    get_count SENT (names_arr (reg_of C k) cfg) = Some (length (ptrs_arr (reg_of C k) cfg))
    /\ nth_error (names_arr (reg_of C k) cfg) (length (ptrs_arr (reg_of C k) cfg)) = Some SENT
    /\ length (names_arr (reg_of C k) cfg) = S (length (ptrs_arr (reg_of C k) cfg))
    /\ length (names SENT (reg_of C k) cfg) = length (ptrs_arr (reg_of C k) cfg).
Proof. intros k. exact (sentinel_index SENT _ (wf_all k)). Qed.

Theorem C13_never_out_of_bounds : forall k cfg n, call SENT (reg_of C k) cfg n <> Fault.
Proof. intros k. exact (never_faults SENT _ (wf_all k)). Qed.

(** call by id: id i runs the implementation of the i-th available name, every other id is refused *)
Theorem C13_call_by_id_own : forall k cfg (i : Z),
    call_id SENT (reg_of C k) cfg i =
    match (if (0 <=? i)%Z then nth_error (names SENT (reg_of C k) cfg) (Z.to_nat i) else None) with
    | Some n => Called (impl_of k n)
    | None => Unknown
    end.
Proof. intros k cfg i. generalize (call_id_own SENT _ (wf_all k) cfg i). now rewrite kind_all. Qed.

(** no configuration lists a name twice *)
Theorem C13_names_NoDup : forall k cfg, NoDup (names SENT (reg_of C k) cfg).
Proof. intros k. exact (names_NoDup SENT _ (wf_all k)). Qed.

(** the switches ./configure can define are exactly the feature guards the registries test (no guard misspelt on
    either side; config.h.in agrees), and every other guard in a registry is a switch configure.ac defines *)
Theorem C13_guards_match :
    (forall g, is_feature_guard g = true -> (In g (all_guards C) <-> In g (rc_configure_features C)))
    /\ (forall g, In g (rc_configure_features C) <-> In g (rc_confighin C))
    /\ (forall g, In g (all_guards C) -> In g (rc_configure_features C) \/ In g (rc_configure_generic C)).
Proof. exact (guards_match_spec C (proj1 (proj2 (proj2 (proj2 (proj2 (proj2 (proj2 (consts_parts C gen_ok))))))))). Qed.

(** snoopy_outputregistry_dispatch (the entry point the logging path uses): the configured output name CFG->output goes through
    the very same lookup - an available name runs its own output, a switched-off (or any unknown) name runs NOTHING, in every
    configuration; there is no fallback to another slot.  [rc_entries_ok] (part of gen_ok) says these are all the entry points:
    every function of the three registry files is one of getCount/doesIdExist/doesNameExist/getIdFromName/getName/callById/
    callByName/dispatch in the modelled shape, and no other source file touches the arrays. *)
Theorem C13_dispatch_is_call : forall cfg n, dispatch C cfg n = call SENT (rc_out C) cfg n.
Proof. exact (dispatch_is_call C gen_ok). Qed.
Theorem C13_dispatch_own : forall cfg n, In n (names SENT (rc_out C) cfg) -> dispatch C cfg n = Called (impl_of Output n).
Proof. intros cfg n H. rewrite C13_dispatch_is_call. exact (C13_lookup_own Output cfg n H). Qed.
Theorem C13_dispatch_off_is_unknown : forall cfg n, enabled (rc_out C) cfg n = false -> dispatch C cfg n = Unknown.
Proof. intros cfg n H. rewrite C13_dispatch_is_call. exact (proj1 (C13_off_is_unknown Output cfg n H)). Qed.
Example C13_dispatch_nonvacuous :
  let cfg := switch_off "SNOOPY_CONF_OUTPUT_ENABLED_devlog" all_on in
  dispatch C cfg "devlog" = Unknown /\ dispatch C cfg "devnull" = Called "snoopy_output_devnulloutput"
  /\ dispatch C all_on "devlog" = Called "snoopy_output_devlogoutput" /\ dispatch C all_off "noop" = Called "snoopy_output_noopoutput".
Proof. vm_compute. repeat split. Qed.

(** a walk over a chain of filter names (filtering.c) runs exactly the own implementations of the elements that are enabled, in
    order: a switched-off (unknown) name in front is skipped and neither ends the walk nor changes what the following names run *)
Theorem C13_chain_skips_unknown : forall cfg elems,
    chain_calls SENT (rc_flt C) cfg elems = map (impl_of Filter) (filter (enabled (rc_flt C) cfg) elems).
Proof. intros cfg elems. generalize (chain_calls_spec SENT _ (wf_all Filter) cfg elems). now rewrite (kind_all Filter). Qed.
Example C13_chain_nonvacuous :
  chain_calls SENT (rc_flt C) (switch_off "SNOOPY_CONF_FILTER_ENABLED_only_tty" all_on) ["only_tty"; "exclude_uid"; "nosuch"; "only_uid"]
  = ["snoopy_filter_exclude_uid"; "snoopy_filter_only_uid"].
Proof. vm_compute. reflexivity. Qed.

(** the logging path of one exec as a whole (action/log-syscall-exec.c: filter chain, format expansion, dispatch; filters answering
    PASS, message non-empty): exactly the own implementations of the enabled chain elements, of the format's data sources up to the
    first unknown one, and of the configured output iff it is enabled - in every configuration *)
Theorem C13_exec_path_runs_own : forall cfg chain fmt output,
    exec_calls C cfg chain fmt output =
    map (impl_of Filter) (filter (enabled (rc_flt C) cfg) chain)
    ++ map (impl_of Datasource) (take_while (enabled (rc_ds C) cfg) fmt)
    ++ (if enabled (rc_out C) cfg output then [impl_of Output output] else []).
Proof. exact (exec_calls_spec C gen_ok). Qed.
Example C13_exec_path_nonvacuous :
  exec_calls C (switch_off "SNOOPY_CONF_OUTPUT_ENABLED_devlog" all_on) ["only_uid"; "nosuch"] ["cmdline"; "uid"] "devtty"
  = ["snoopy_filter_only_uid"; "snoopy_datasource_cmdline"; "snoopy_datasource_uid"; "snoopy_output_devttyoutput"]
  /\ exec_calls C (switch_off "SNOOPY_CONF_OUTPUT_ENABLED_devlog" all_on) [] ["cmdline"] "devlog" = ["snoopy_datasource_cmdline"].
Proof. vm_compute. split; reflexivity. Qed.

(** the registries are used only by the format expansion, the filter chain, the `output` option parser and the message dispatch,
    through doesNameExist / callByName / dispatch only: ids never leave the registries and no data source, filter or output
    implementation calls back into a registry (its meaning would then depend on other features' switches) *)
Theorem C13_callers_known : forall f fn, In (f, fn) (rc_callers C) -> In (f, fn) allowed_callers.
Proof. exact (callers_known C gen_ok). Qed.

(** the executable specification evaluated on the implementation's answers accepts the model everywhere *)
Theorem C13_model_meets_spec : forall k defined probe, spec_C13_ok C k defined probe (model_call C k defined probe) = true.
Proof. exact (model_meets_spec C gen_ok). Qed.

(** ** non-vacuity *)
(* all-on: every name of every table is available and runs its own implementation *)
Example C13_all_on_nonvacuous :
  forallb (fun k => forallb (fun n => match call SENT (reg_of C k) all_on n with Called p => String.eqb p (impl_of k n) | _ => false end)
                            (model_all_names C k) && negb (Nat.leb (length (names SENT (reg_of C k) all_on)) 1))
          [Datasource; Filter; Output] = true.
Proof. vm_compute. reflexivity. Qed.
(* all-off: only the fixed entries remain, still bound to themselves; a switchable name is unknown *)
Example C13_all_off_nonvacuous :
  names SENT (rc_ds C) all_off = fixed_names (rc_ds C) /\ fixed_names (rc_ds C) <> []
  /\ call SENT (rc_ds C) all_off "noop" = Called "snoopy_datasource_noop"
  /\ call SENT (rc_ds C) all_off "cmdline" = Unknown
  /\ call SENT (rc_out C) all_off "noop" = Called "snoopy_output_noopoutput".
Proof. vm_compute. repeat split; discriminate. Qed.
(* one switch off in the middle: the neighbours keep their implementations *)
Example C13_single_off_nonvacuous :
  let cfg := switch_off "SNOOPY_CONF_DATASOURCE_ENABLED_egid" all_on in
  call SENT (rc_ds C) cfg "egid" = Unknown
  /\ call SENT (rc_ds C) cfg "domain" = Called "snoopy_datasource_domain"
  /\ call SENT (rc_ds C) cfg "egroup" = Called "snoopy_datasource_egroup"
  /\ call SENT (rc_ds C) cfg "username" = Called "snoopy_datasource_username".
Proof. vm_compute. repeat split. Qed.
(* nested guards: snoopy_threads needs its own switch AND thread safety *)
Example C13_nested_guard_nonvacuous :
  call SENT (rc_ds C) (switch_off "SNOOPY_CONF_THREAD_SAFETY_ENABLED" all_on) "snoopy_threads" = Unknown
  /\ call SENT (rc_ds C) (switch_off "SNOOPY_CONF_THREAD_SAFETY_ENABLED" all_on) "snoopy_version" = Called "snoopy_datasource_snoopy_version"
  /\ call SENT (rc_ds C) all_on "snoopy_threads" = Called "snoopy_datasource_snoopy_threads".
Proof. vm_compute. repeat split. Qed.
(* the check is not trivially true: a table with one pointer row missing is rejected, and really misbinds *)
Example C13_check_rejects_misaligned :
  let bad := {| r_kind := Filter; r_names := [(["A"], "a"); (["B"], "b"); ([], "")];
                r_ptrs := [(["B"], "snoopy_filter_b")]; r_lex_ok := true |} in
  well_formed "" bad = false /\ call "" bad all_on "a" = Called "snoopy_filter_b" /\ call "" bad all_on "b" = Fault.
Proof. vm_compute. repeat split. Qed.
Example C13_check_rejects_guard_mismatch :
  let bad := {| r_kind := Filter; r_names := [(["SNOOPY_CONF_FILTER_ENABLED_a"], "a"); (["SNOOPY_CONF_FILTER_ENABLED_b"], "b"); ([], "")];
                r_ptrs := [(["SNOOPY_CONF_FILTER_ENABLED_b"], "snoopy_filter_a"); (["SNOOPY_CONF_FILTER_ENABLED_b"], "snoopy_filter_b")]; r_lex_ok := true |} in
  well_formed "" bad = false
  /\ call "" bad (switch_off "SNOOPY_CONF_FILTER_ENABLED_a" all_on) "b" = Called "snoopy_filter_a".
Proof. vm_compute. repeat split. Qed.

(** ** EXTENSION (not one of the three registries the property names): the option registry of src/configfile.c.
    In every configuration an option name of snoopy.ini selects its own parser snoopy_configfile_parseValue_<name> and
    its own getter snoopy_configfile_getOptionValueAsString_<name>; any other name is "not supported"; the loops stay in the array. *)
Lemma gen_options_ok : opt_well_formed Gen_Registry.options = true.
Proof. vm_compute. reflexivity. Qed.
Theorem C13ext_option_own_parser_getter : forall cfg n,
    match opt_find Gen_Registry.options cfg n with
    | OFound _ p g => opt_enabled Gen_Registry.options cfg n = true /\ p = parser_of n /\ g = getter_of n
    | ONotSupported => opt_enabled Gen_Registry.options cfg n = false
    | OOutOfBounds => False
    end.
Proof. exact (opt_lookup_own Gen_Registry.options gen_options_ok). Qed.
Example C13ext_options_nonvacuous :
  opt_find Gen_Registry.options all_on "filter_chain" = OFound 1 "snoopy_configfile_parseValue_filter_chain" "snoopy_configfile_getOptionValueAsString_filter_chain"
  /\ opt_find Gen_Registry.options all_off "filter_chain" = ONotSupported
  /\ opt_find Gen_Registry.options all_off "message_format" = OFound 1 "snoopy_configfile_parseValue_message_format" "snoopy_configfile_getOptionValueAsString_message_format"
  /\ opt_find Gen_Registry.options all_on "" = ONotSupported.
Proof. vm_compute. repeat split. Qed.

Print Assumptions C13_lookup_own.
Print Assumptions C13_off_is_unknown.
Print Assumptions C13_available_iff_enabled.
Print Assumptions C13_feature_switch_off.
Print Assumptions C13_no_shift.
Print Assumptions C13_config_independent.
Print Assumptions C13_sentinel_index.
Print Assumptions C13_never_out_of_bounds.
Print Assumptions C13_call_by_id_own.
Print Assumptions C13_names_NoDup.
Print Assumptions C13_guards_match.
Print Assumptions C13_model_meets_spec.
Print Assumptions C13_callers_known.
Print Assumptions C13_chain_skips_unknown.
Print Assumptions C13_exec_path_runs_own.
Print Assumptions C13_dispatch_is_call.
Print Assumptions C13_dispatch_own.
Print Assumptions C13_dispatch_off_is_unknown.
Print Assumptions C13ext_option_own_parser_getter.
