(** C14 — UID filters decide by exact membership of the real uid. *)
From Snoopy Require Import Lib.CStr Filter.Model.
From Gen Require Import Gen_Filter.
Local Open Scope N_scope.

Definition C := Gen_Filter.consts.
Lemma gen_ok : filter_consts_ok C = true.
Proof. vm_compute. reflexivity. Qed.
