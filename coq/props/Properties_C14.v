(** C14 — UID filters decide by exact membership of the real uid.
    Statements over the constants regenerated from the source (id query, conversion function, cast chain,
    csv delimiter, sizeof(long), sizeof(uid_t)). *)
From Coq Require Import String.
From Snoopy Require Import Lib.CStr Filter.Model Filter.Proofs Filter.Uid.
From Gen Require Import Gen_Filter.
Local Open Scope N_scope.
Local Open Scope list_scope.

Definition C := Gen_Filter.consts.
Lemma gen_ok : uid_consts_ok C = true.
Proof. vm_compute. reflexivity. Qed.

(** for every real uid below 2^32 and every non-empty list of well-formed numerals (any length, any order,
    duplicates, leading zeros, value < 2^32): PASS iff the real uid is one of the values *)
Theorem C14_only : forall ps L, ruid ps < 2 ^ 32 -> L <> [] -> Forall wf_uid_numeral L ->
    (only_uid C ps (join [COMMA] L) = true <-> In (ruid ps) (map digits_val L)).
Proof. exact (only_uid_spec C gen_ok). Qed.
Theorem C14_exclude : forall ps L, ruid ps < 2 ^ 32 -> L <> [] -> Forall wf_uid_numeral L ->
    (exclude_uid C ps (join [COMMA] L) = true <-> ~ In (ruid ps) (map digits_val L)).
Proof. exact (exclude_uid_spec C gen_ok). Qed.
Theorem C14_only_root : forall ps, ruid ps < 2 ^ 32 -> (only_root C ps = true <-> ruid ps = 0).
Proof. exact (only_root_spec C gen_ok). Qed.

(** for EVERY argument string, well formed or not, and every process state the two list filters disagree *)
Theorem C14_complement : forall ps a, only_uid C ps a <> exclude_uid C ps a.
Proof. exact (never_agree C gen_ok). Qed.

(** the decisions are functions of the real uid: two states with the same real uid (any effective uids) decide alike *)
Theorem C14_real_uid : forall ps ps' a, ruid ps = ruid ps' ->
    only_uid C ps a = only_uid C ps' a /\ exclude_uid C ps a = exclude_uid C ps' a /\ only_root C ps = only_root C ps'.
Proof. exact (real_uid_only C gen_ok). Qed.

(** csvToArgList on a non-empty NUL-free string: the entries are the ','-fields, argCount their number *)
Theorem C14_csv_split : forall raw, nonul raw -> raw <> [] ->
    csv_items (csv_split COMMA raw) = split_on COMMA raw /\ csv_argc (csv_split COMMA raw) = length (split_on COMMA raw).
Proof. exact (csv_split_spec COMMA). Qed.

Local Open Scope string_scope.
Definition big : pstate := {| ruid := 4294967294; euid := 0; stdin_tty := false; spawns := fun _ => true |}.
Example C14_nonvacuous :
  Forall wf_uid_numeral [bytes "007"; bytes "4294967294"; bytes "0"; bytes "007"]
  /\ only_uid C big (join [COMMA] [bytes "007"; bytes "4294967294"; bytes "0"; bytes "007"]) = true
  /\ exclude_uid C big (bytes "429496729,4294967295,294967294,42949672940") = true
  /\ only_root C big = false.
Proof.
  split; [|vm_compute; repeat split; reflexivity].
  repeat constructor; try discriminate; vm_compute; reflexivity.
Qed.
(** malformed items are not covered by C14_only: an empty item or garbage converts to 0 *)
Example C14_malformed_reads_as_zero :
  only_uid C {| ruid := 0; euid := 9; stdin_tty := false; spawns := fun _ => true |} (bytes "1000,") = true.
Proof. vm_compute. reflexivity. Qed.

Print Assumptions C14_only.
Print Assumptions C14_exclude.
Print Assumptions C14_only_root.
Print Assumptions C14_complement.
Print Assumptions C14_real_uid.
Print Assumptions C14_csv_split.
