(** C15 — exclude_spawns_of drops exactly descendants of listed programs.
    Only statements, each closed by [exact] of a general theorem instantiated with the constants
    regenerated from /repo (Gen.Gen_Spawns), plus non-vacuity examples. *)
From Coq Require Import ZArith.
From Snoopy Require Import Lib.CStr Spawns.Model Spawns.Exec.
From Gen Require Import Gen_Spawns.

Lemma gen_ok : spawns_consts_ok Gen_Spawns.consts = true.
Proof. vm_compute. reflexivity. Qed.
