(** C15 — exclude_spawns_of drops exactly descendants of listed programs.
    Only statements, each closed by [exact] of a general theorem instantiated with the constants
    regenerated from /repo (Gen.Gen_Spawns), plus non-vacuity examples. *)
From Coq Require Import ZArith Strings.String.
From Snoopy Require Import Lib.CStr Spawns.Model Spawns.Exec Spawns.Tokens Spawns.Stat Spawns.Walk Spawns.SpecOk.
From Gen Require Import Gen_Spawns.
Local Open Scope nat_scope.

Lemma gen_ok : spawns_consts_ok Gen_Spawns.consts = true.
Proof. vm_compute. reflexivity. Qed.

Notation C := Gen_Spawns.consts.

(** ** the stat round trip
    for every pid (up to 20 digits), every name of 0..15 bytes of any non-NUL bytes (spaces, parentheses, ...),
    every state byte (not white space, NUL or ')'), every parent in the range of pid_t and every continuation
    [rest] that holds no ')' and does not begin with a digit (the kernel continues with " <pgrp> <session> ..."),
    wherever the ST_BUF_SIZE-1 read cuts [rest] *)
Theorem C15_stat_roundtrip : forall pid comm st ppid rest,
    (0 <= pid < 10 ^ 20)%Z -> (0 <= ppid < 2147483648)%Z -> nonul comm -> length comm <= 15 -> state_ok st ->
    ~ In RP rest -> nodigit_head rest ->
    parse_stat C (render_stat pid comm st ppid ++ rest) = Some (comm, ppid).
Proof. exact (stat_roundtrip_15 C gen_ok). Qed.

(** the same for every name the length window admits (kernel workers have longer names), with the exact
    condition on the continuation: only what the loop sees of it (inside the window, before a NUL) matters *)
Theorem C15_stat_roundtrip_window : forall pid comm st ppid rest,
    (0 <= pid < 10 ^ 20)%Z -> (0 <= ppid < 2147483648)%Z -> nonul comm ->
    (N.of_nat (length comm) < sp_comm_max C)%N -> state_ok st ->
    let head := render_stat pid comm st ppid in
    ~ In RP (visible C (length head) rest) -> nodigit_head (visible C (length head) rest) ->
    parse_stat C (head ++ rest) = Some (comm, ppid).
Proof. exact (stat_roundtrip_visible C gen_ok). Qed.

(** the rendered head always lies inside the read window: the cut falls in [rest], never in the head *)
Theorem C15_head_in_window : forall pid comm st ppid,
    (0 <= pid < 10 ^ 20)%Z -> (0 <= ppid < 2147483648)%Z -> (N.of_nat (length comm) < sp_comm_max C)%N ->
    8 <= length (render_stat pid comm st ppid) <= N.to_nat (sp_buf_size C - 1).
Proof. exact (render_fits C gen_ok). Qed.

(** ** the name list: the array holds the non-empty comma-separated items, the lookup is exact equality *)
Theorem C15_lookup_exact : forall arg comm, arg <> [] ->
    exists arr, token_array C arg = Some arr /\ find_string comm arr = Ok (existsb (list_eqb comm) (names_of arg)).
Proof. exact (lookup_exact C gen_ok). Qed.

Theorem C15_names_of_list : forall L : list (list byte), (forall x, In x L -> ~ In COMMA x) ->
    names_of (join [COMMA] L) = ne L.
Proof. exact names_of_join. Qed.

(** ** exactness on the bytes: every tree of stat contents without cycles and with finitely many files *)
Theorem C15_exact_bytes : forall (tree : Z -> option (list byte)) (dom : list Z),
    (forall p, tree p <> None -> In p dom) -> acyclic (pt_of C tree) ->
    forall arg self ppid,
      (filter C tree arg self ppid (S (length dom)) = Ok DROP <-> listed_ancestor (pt_of C tree) (names_of arg) ppid)
      /\ (filter C tree arg self ppid (S (length dom)) = Ok PASS <-> ~ listed_ancestor (pt_of C tree) (names_of arg) ppid).
Proof. exact (filter_exact C gen_ok). Qed.

(** ** C15_exact: every well-founded process table as the kernel renders it, every list of names *)
Theorem C15_exact : forall (ptab : Z -> option proc) (WF : forall pid e, ptab pid = Some e -> proc_ok C pid e) (dom : list Z),
    (forall p, ptab p <> None -> In p dom) -> acyclic (proc_abs ptab) ->
    forall (L : list (list byte)) self ppid, (forall x, In x L -> ~ In COMMA x) ->
      (filter C (proc_tree ptab) (join [COMMA] L) self ppid (S (length dom)) = Ok DROP
         <-> listed_ancestor (proc_abs ptab) (ne L) ppid)
      /\ (filter C (proc_tree ptab) (join [COMMA] L) self ppid (S (length dom)) = Ok PASS
         <-> ~ listed_ancestor (proc_abs ptab) (ne L) ppid).
Proof. exact (filter_exact_procs_list C gen_ok). Qed.

(** ... and every argument string *)
Theorem C15_exact_arg : forall (ptab : Z -> option proc) (WF : forall pid e, ptab pid = Some e -> proc_ok C pid e) (dom : list Z),
    (forall p, ptab p <> None -> In p dom) -> acyclic (proc_abs ptab) ->
    forall arg self ppid,
      (filter C (proc_tree ptab) arg self ppid (S (length dom)) = Ok DROP <-> listed_ancestor (proc_abs ptab) (names_of arg) ppid)
      /\ (filter C (proc_tree ptab) arg self ppid (S (length dom)) = Ok PASS <-> ~ listed_ancestor (proc_abs ptab) (names_of arg) ppid).
Proof. exact (filter_exact_procs C gen_ok). Qed.

(** ** termination: as many rounds as there are stat files, plus one; no other fault exists *)
Theorem C15_terminates : forall (tree : Z -> option (list byte)) (dom : list Z),
    (forall p, tree p <> None -> In p dom) -> acyclic (pt_of C tree) ->
    forall arg self ppid, exists v, filter C tree arg self ppid (S (length dom)) = Ok v.
Proof. exact (filter_terminates C gen_ok). Qed.

Theorem C15_no_fault : forall tree arg self ppid fuel e, filter C tree arg self ppid fuel = Fault e -> e = Out_of_fuel.
Proof. exact (filter_fault C gen_ok). Qed.

(** whenever the walk finishes, for any fuel and any tree (cyclic or not) *)
Theorem C15_exact_any_fuel : forall tree arg self ppid fuel v,
    filter C tree arg self ppid fuel = Ok v -> (v = DROP <-> listed_ancestor (pt_of C tree) (names_of arg) ppid).
Proof. exact (filter_exact_fuel C gen_ok). Qed.

(** ** the caller's own entry is never consulted *)
Theorem C15_not_self_pid : forall tree arg self self' ppid fuel,
    filter C tree arg self ppid fuel = filter C tree arg self' ppid fuel.
Proof. exact (filter_not_self_pid C gen_ok). Qed.

Theorem C15_not_self : forall (tree tree' : Z -> option (list byte)) self,
    (forall p, p <> self -> tree p = tree' p) ->
    forall arg ppid fuel, ppid <> self -> ~ anc (pt_of C tree) ppid self ->
    filter C tree arg self ppid fuel = filter C tree' arg self ppid fuel.
Proof. exact (filter_not_self C gen_ok). Qed.

(** ** any read or parse error met before a listed name means PASS; so does reaching pid 0 *)
Theorem C15_error_pass : forall tree arg self ppid q fuel,
    reaches (pt_of C tree) (names_of arg) ppid q -> q <> 0%Z -> pt_of C tree q = None ->
    filter C tree arg self ppid fuel = Ok PASS \/ filter C tree arg self ppid fuel = Fault Out_of_fuel.
Proof. exact (filter_error_pass C gen_ok). Qed.

Theorem C15_top_pass : forall tree arg self ppid fuel,
    reaches (pt_of C tree) (names_of arg) ppid 0%Z ->
    filter C tree arg self ppid fuel = Ok PASS \/ filter C tree arg self ppid fuel = Fault Out_of_fuel.
Proof. exact (filter_top_pass C gen_ok). Qed.

(** ** the checker run on the implementation's verdicts decides the specification *)
Theorem C15_spec_checker : forall arg ppid pl v, acyclic (lookup pl) ->
    (spec_C15_ok arg ppid pl v = true <-> (v = DROP <-> listed_ancestor (lookup pl) (names_of arg) ppid)).
Proof. exact spec_C15_ok_correct. Qed.

Print Assumptions C15_stat_roundtrip.
Print Assumptions C15_stat_roundtrip_window.
Print Assumptions C15_head_in_window.
Print Assumptions C15_lookup_exact.
Print Assumptions C15_names_of_list.
Print Assumptions C15_exact_bytes.
Print Assumptions C15_exact.
Print Assumptions C15_exact_arg.
Print Assumptions C15_terminates.
Print Assumptions C15_no_fault.
Print Assumptions C15_exact_any_fuel.
Print Assumptions C15_not_self_pid.
Print Assumptions C15_not_self.
Print Assumptions C15_error_pass.
Print Assumptions C15_top_pass.
Print Assumptions C15_spec_checker.

(** ** non-vacuity: a concrete process table  cron(7) <- "a b)"(50) <- ""(60) <- sh(70) <- caller(80), init = 1 *)
Definition ex_rest : list byte := [x20; x31; x20; x2d; x31; x0a].          (* " 1 -1\n" *)
Definition ex_ptab (p : Z) : option proc :=
  if (p =? 1)%Z then Some {| p_comm := [x69; x6e; x69; x74]; p_state := x53; p_ppid := 0; p_rest := ex_rest |}            (* init *)
  else if (p =? 7)%Z then Some {| p_comm := [x63; x72; x6f; x6e]; p_state := x53; p_ppid := 1; p_rest := ex_rest |}       (* cron *)
  else if (p =? 50)%Z then Some {| p_comm := [x61; x20; x62; x29]; p_state := x53; p_ppid := 7; p_rest := ex_rest |}      (* "a b)" *)
  else if (p =? 60)%Z then Some {| p_comm := []; p_state := x53; p_ppid := 50; p_rest := ex_rest |}                       (* empty name *)
  else if (p =? 70)%Z then Some {| p_comm := [x73; x68]; p_state := x53; p_ppid := 60; p_rest := ex_rest |}               (* sh *)
  else if (p =? 80)%Z then Some {| p_comm := [x6c; x73]; p_state := x52; p_ppid := 70; p_rest := ex_rest |}               (* ls, the caller *)
  else None.
Definition ex_dom : list Z := [1; 7; 50; 60; 70; 80]%Z.

Example C15_exact_nonvacuous_wf : forall pid e, ex_ptab pid = Some e -> proc_ok C pid e.
Proof.
  intros pid e H. apply proc_okb_ok. revert H. unfold ex_ptab.
  repeat (match goal with |- context [(pid =? ?k)%Z] => destruct (pid =? k)%Z eqn:?E end;
          [apply Z.eqb_eq in E; subst pid; intros H; injection H as <-; vm_compute; reflexivity|clear E]).
  discriminate.
Qed.

Example C15_exact_nonvacuous_dom : forall p, ex_ptab p <> None -> In p ex_dom.
Proof.
  intros p. unfold ex_ptab, ex_dom.
  repeat (match goal with |- context [(p =? ?k)%Z] => destruct (p =? k)%Z eqn:?E end;
          [apply Z.eqb_eq in E; subst p; intros _; cbn; tauto|clear E]).
  congruence.
Qed.

(** listed far up ("cron", behind a name with ')' and an empty name): DROP; duplicates and empty items are harmless *)
Example C15_drop_example : filter C (proc_tree ex_ptab) (bytes "x,,cron,cron,") 80 70 (S (length ex_dom)) = Ok DROP.
Proof. vm_compute. reflexivity. Qed.
(** only a proper prefix / an extension of an ancestor's name listed, or only the caller's own name: PASS *)
Example C15_prefix_example : filter C (proc_tree ex_ptab) (bytes "cro,cronx,s,shh,a b,ls") 80 70 (S (length ex_dom)) = Ok PASS.
Proof. vm_compute. reflexivity. Qed.
(** the name with a space and a parenthesis is matched exactly *)
Example C15_paren_example : filter C (proc_tree ex_ptab) (bytes "a b)") 80 70 (S (length ex_dom)) = Ok DROP.
Proof. vm_compute. reflexivity. Qed.
(** an unreadable ancestor (pid 60 removed) below the listed one: PASS *)
Example C15_error_example :
  filter C (fun p => if (p =? 60)%Z then None else proc_tree ex_ptab p) (bytes "cron") 80 70 (S (length ex_dom)) = Ok PASS.
Proof. vm_compute. reflexivity. Qed.
(** the hypothesis on the continuation is needed: a ')' inside the window moves the right parenthesis *)
Example C15_roundtrip_needs_no_rparen :
  parse_stat C (render_stat 5 [x61] x53 1 ++ [x20; x29; x20; x52; x20; x39]) = Some ([x61; x29; x20; x53; x20; x31; x20], 9%Z).
Proof. vm_compute. reflexivity. Qed.
(** 15-byte name with parentheses and spaces, 7-digit pids, kernel-like tail *)
Example C15_roundtrip_example :
  parse_stat C (render_stat 4194303 (bytes "(a) b (c)) (d e") x74 4194302 ++ bytes " 4194303 4194303 34816 -1 4194560 0 0 0 0 0 0 0 0 20 0 1 0 123 456")
  = Some (bytes "(a) b (c)) (d e", 4194302%Z).
Proof. vm_compute. reflexivity. Qed.
