(** C16 — The wrapper leaves no residue in the calling process.
    Statements over Gen_Resid (clang AST of EVERY library function: complete direct callee lists, skeletons of all functions that
    reach an acquisition/release function, address-taken functions), Gen_Calls (nm -u call set, indirect call sites),
    Gen_Wrapper / Gen_CfgLife (the wrapper's and the life cycle's skeletons). *)
From Coq Require Import String ZArith List Bool.
From Snoopy Require Import Lib.Skel Lib.ResFlow Lib.ResFlowLoop Wrapper.Model Residue.Model.
From Gen Require Import Gen_Resid Gen_Calls Gen_Wrapper Gen_CfgLife.
Import ListNotations.
Local Open Scope string_scope.
Local Open Scope list_scope.

(** judged by correspondence only:
    - snoopy_tsrm_atfork_child releases the thread records INHERITED by a forked child (entries it reads out of the global list; the
      semantics cannot attribute them to this function); it runs in the child only, never on the path of a wrapped call (C10). *)
Definition exempt : list string := ["snoopy_tsrm_atfork_child"].

(** * no process-state mutator anywhere in the library: the linker's view (nm -u) and the compiler's view (AST callees) *)
Theorem C16_no_state_calls : (forall f, In f external_calls -> ~ In f state_mutators) /\ (forall f, In f ast_externals -> ~ In f state_mutators).
Proof. split; apply disjointb_spec; vm_compute; reflexivity. Qed.

(** * no state retained in static storage, no inheritable socket *)
(** the library defines no object with static storage beyond the inventory of the verified tree (a new file-scope variable or function-local
    `static` is where a result, a descriptor or a verdict would be kept from one call to the next) *)
Theorem C16_no_new_retained_state : forall o, In o static_objects -> In o known_static_objects.
Proof.
  assert (H : new_static_objects static_objects = []) by (vm_compute; reflexivity).
  intros o Ho. destruct (str_in o known_static_objects) eqn:E; [apply str_in_In; exact E|].
  assert (I : In o (new_static_objects static_objects)) by (apply filter_In; split; [exact Ho|rewrite E; reflexivity]).
  rewrite H in I. destruct I.
Qed.
(** every socket() call of the library carries SOCK_CLOEXEC in its type argument (and there is one) *)
Theorem C16_sockets_cloexec : sockets_cloexec lib_fns = true /\ socket_calls lib_fns <> [].
Proof. split; [vm_compute; reflexivity|vm_compute; discriminate]. Qed.

(** * every path of every function that touches a resource is balanced *)
Lemma lib_ok_gen : lib_ok lib_fns ast_externals call_cycles exempt = true.
Proof. vm_compute. reflexivity. Qed.

(** For every library function that (transitively) calls an acquisition or release function, run against the summaries of its callees,
    and for EVERY path through its skeleton — every way each undetermined condition goes, success and failure of every fopen / open /
    socket / callee that may return NULL, every number of loop iterations —: the path ends (no untranslated construct), nothing it
    acquired is left unreachable, nothing is released twice, nothing foreign (a static string, a caller's descriptor) is released, no
    utmp/syslog session stays open.  What it acquired is released, returned, handed to an out-parameter or stored in a structure. *)
Theorem C16_balanced : forall e, In e (entries lib_fns ast_externals) -> ~ In (lf_name (e_fn e)) exempt ->
    forall o, In o (entry_outcomes e) -> exists s r, o = FDone s r /\ leaks s = [] /\ bad s = [] /\ sess s = 0%Z.
Proof. exact (balanced lib_fns ast_externals call_cycles exempt lib_ok_gen). Qed.

(** "every number of loop iterations": for every table, loop and state, whatever outcome the loop can produce after ANY number of iterations
    (one element of the test, then one outcome of the body, per iteration) is among the outcomes computed for it, unless the computation
    reports that its fuel ran out — which [C16_balanced] excludes, every outcome being a normal end *)
Theorem C16_loops_explored : forall T c b s, ~ In FUEL (exec1 T (SLoop c b) s) ->
    forall o, loop_rel (cond T c) (exec T b) s o -> In o (exec1 T (SLoop c b) s).
Proof. exact while_complete. Qed.

(** nothing is analysed away: a function without skeleton calls no resource function, directly or through library callees *)
Theorem C16_unanalysed_touch_nothing : forall f, In f lib_fns -> lf_skel f = None ->
    forall c, In c (lf_calls f) -> classified c = false.
Proof.
  assert (H : forallb (fun f => match lf_skel f with Some _ => true | None => forallb (fun c => negb (classified c)) (lf_calls f) end) lib_fns = true) by (vm_compute; reflexivity).
  intros f Hf Hn c Hc. rewrite forallb_forall in H. specialize (H f Hf). rewrite Hn in H. rewrite forallb_forall in H. specialize (H c Hc).
  apply negb_true_iff in H. exact H.
Qed.

(** calls through pointers: every function whose address is taken is ownership-neutral, except the option registry's value getters
    (they return a fresh string; the one function that calls through that pointer is used by snoopyctl only and returns the string on) *)
Definition getter_site := "snoopy_configfile_optionRegistry_getOptionValueAsString:getValueAsStringPtr".
Definition is_getter (f : string) : bool := String.prefix "snoopy_configfile_getOptionValueAsString_" f.
Theorem C16_indirect_targets_neutral :
    forall t, In t address_taken -> is_getter t = true \/
      forall e, In e (entries lib_fns ast_externals) -> lf_name (e_fn e) = t -> summary_eqb (e_sum e) neutral_summary = true.
Proof.
  assert (H : let E := entries lib_fns ast_externals in
              forallb (fun t => is_getter t || forallb (fun e => negb (String.eqb (lf_name (e_fn e)) t) || summary_eqb (e_sum e) neutral_summary) E) address_taken = true)
    by (vm_compute; reflexivity).
  cbv zeta in H. intros t Ht. rewrite forallb_forall in H. specialize (H t Ht). apply orb_true_iff in H as [H|H]; [left; exact H|right].
  intros e He En. rewrite forallb_forall in H. specialize (H e He). apply orb_true_iff in H as [H|H]; [|exact H].
  apply negb_true_iff in H. apply String.eqb_neq in H. exfalso. exact (H En).
Qed.
Theorem C16_getter_pointer_used_once : forall s, In s indirect_calls -> String.prefix "snoopy_configfile_optionRegistry_getOptionValueAsString:" s = true -> s = getter_site.
Proof.
  assert (H : forallb (fun s => negb (String.prefix "snoopy_configfile_optionRegistry_getOptionValueAsString:" s) || String.eqb s getter_site) indirect_calls = true) by (vm_compute; reflexivity).
  intros s Hs Hp. rewrite forallb_forall in H. specialize (H s Hs). rewrite Hp in H. simpl in H. apply String.eqb_eq. exact H.
Qed.

(** * resources parked in structures, and who takes them out again *)
Definition allowed_holders : list string :=
  ["snoopy_tsrm_createNewThreadData"; "snoopy_util_list_push";
   "snoopy_configfile_parseValue_filter_chain"; "snoopy_configfile_parseValue_message_format"; "snoopy_configfile_parseValue_output"; "snoopy_configfile_parseValue_syslog_ident"].
(** only the thread record, the list node and the configuration strings (C11_no_growth: released by the dtor of the same call) *)
Theorem C16_holders : forall h, In h (holders lib_fns ast_externals) -> In (fst h) allowed_holders.
Proof.
  set (HL := holders lib_fns ast_externals).
  assert (H : forallb (fun h => str_in (fst h) allowed_holders) HL = true) by (vm_compute; reflexivity).
  clearbody HL. intros h Hh. rewrite forallb_forall in H. apply str_in_In. exact (H h Hh).
Qed.
(** the thread record: what createNewThreadData parks in it is exactly what tsrm's dtor releases from it (plus the record itself, returned / released) *)
Definition cells_of (l : list (string * list key)) (f : string) : list string := flat_map (fun h => if String.eqb (fst h) f then map field_of (snd h) else []) l.
Theorem C16_thread_record_paired :
    let held := cells_of (holders lib_fns ast_externals) "snoopy_tsrm_createNewThreadData" in
    let freed := cells_of (freers lib_fns ast_externals) "snoopy_tsrm_dtor" in
    held <> [] /\ (forall c, In c held <-> In c freed).
Proof.
  intros held freed.
  assert (N : match held with [] => false | _ => true end = true) by (vm_compute; reflexivity).
  assert (H : forallb (fun c => str_in c freed) held && forallb (fun c => str_in c held) freed = true) by (vm_compute; reflexivity).
  clearbody held freed. split; [destruct held; [discriminate N|discriminate]|].
  apply andb_true_iff in H as [A B]. rewrite forallb_forall in A, B. intros c. split; intros Hc; apply str_in_In; [exact (A c Hc)|exact (B c Hc)].
Qed.

(** * n calls leave what 0 calls leave *)
Definition names_of (sk_wrapper sk_init' sk_cleanup' : fn_skel) : list string :=
  match run [] (sk_body sk_wrapper) with
  | Some (tr, RReal) =>
    flatten [("snoopy_entrypoint_execve_wrapper_init", sk_wrapper_init); ("snoopy_entrypoint_execve_wrapper_exit", sk_wrapper_exit);
             ("snoopy_init", sk_init'); ("snoopy_cleanup", sk_cleanup')]
            (map (fun e => match e with EvCall f _ => f | EvReal _ _ => REAL end) tr)
  | _ => []
  end.
Definition all_variants : list (list string) :=
  [names_of sk_execve sk_life_init_ts sk_life_cleanup_ts; names_of sk_execv sk_life_init_ts sk_life_cleanup_ts;
   names_of sk_execve sk_life_init_nts sk_life_cleanup_nts; names_of sk_execv sk_life_init_nts sk_life_cleanup_nts].
Lemma variants_ok : forallb (fun ns => match shape_of (map phase_of ns) with Some _ => wrapper_names_ok lib_fns ast_externals ns | None => false end) all_variants = true.
Proof. vm_compute. reflexivity. Qed.

(** execv and execve, thread-safe and non-thread-safe: the wrapper's calls are, in this order, neutral ones, [tsrm ctor], the configuration
    ctor, neutral ones (input data, the three stores, the logging action), the configuration dtor, [tsrm dtor], then the real exec; every
    call classified neutral IS a balanced function with a neutral summary.  Hence for every number [k] of thread-record blocks, every
    sequence [cs] of per-call configuration block counts (any history) and every starting count: the live resources at the real exec of
    every call and after n calls are those at entry. *)
Theorem C16_n_calls : forall ns, In ns all_variants ->
    wrapper_names_ok lib_fns ast_externals ns = true /\
    forall k (cs : list nat) l, l_cfg l = 0 -> fold_left (fun l c => run_phases k c (map phase_of ns) l) cs l = l.
Proof.
  intros ns Hn. pose proof variants_ok as H. rewrite forallb_forall in H. specialize (H ns Hn).
  destruct (shape_of (map phase_of ns)) as [[[ts n] m]|] eqn:E; [|discriminate]. split; [exact H|].
  intros k. exact (n_calls_of_shape _ _ _ _ k E).
Qed.
Theorem C16_at_real_exec : forall ns, In ns all_variants ->
    forall k c l, l_cfg l = 0 -> run_phases k c (removelast (map phase_of ns)) l = l /\ run_phases k c (map phase_of ns) l = l.
Proof.
  intros ns Hn. pose proof variants_ok as H. rewrite forallb_forall in H. specialize (H ns Hn).
  destruct (shape_of (map phase_of ns)) as [[[ts n] m]|] eqn:E; [|discriminate].
  intros k c. exact (at_real_exec_of_shape _ _ _ _ k c E).
Qed.

(** non-vacuity: functions with several acquisitions and many paths are in the analysed set and do have outcomes *)
Example C16_balanced_nonvacuous :
  existsb (fun e => String.eqb (lf_name (e_fn e)) "snoopy_util_file_getSmallTextFileContent" && Nat.leb 2 (length (entry_outcomes e))) (entries lib_fns ast_externals) = true
  /\ existsb (fun e => String.eqb (lf_name (e_fn e)) "snoopy_output_socketoutput" && Nat.leb 3 (length (entry_outcomes e))) (entries lib_fns ast_externals) = true
  /\ Nat.leb 40 (length (entries lib_fns ast_externals)) = true.
Proof. vm_compute. repeat split. Qed.
Example C16_n_calls_nonvacuous : exists ns, In ns all_variants /\ In "snoopy_tsrm_ctor" ns /\ In "snoopy_action_log_syscall_exec" ns /\ In REAL ns.
Proof. eexists. split; [left; reflexivity|]. vm_compute. tauto. Qed.

Print Assumptions C16_no_state_calls.
Print Assumptions C16_no_new_retained_state.
Print Assumptions C16_sockets_cloexec.
Print Assumptions C16_balanced.
Print Assumptions C16_loops_explored.
Print Assumptions C16_indirect_targets_neutral.
Print Assumptions C16_holders.
Print Assumptions C16_thread_record_paired.
Print Assumptions C16_n_calls.
Print Assumptions C16_at_real_exec.
