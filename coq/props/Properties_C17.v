(** C17 — File records are appended whole; concurrent writers never interleave. *)
From Snoopy Require Import Lib.CStr Output.Model Output.Append.
From Coq Require Import Permutation.
From Gen Require Import Gen_Output.

Definition C := Gen_Output.consts.
Lemma gen_ok : output_consts_ok C = true.
Proof. vm_compute. reflexivity. Qed.

(** the file output opens for appending without truncation and emits each framed record as ONE write(2) *)
Theorem C17_one_write : forall B msg, emit_writes C B msg = [msg ++ [NL]] /\ file_open_append C = true.
Proof.
  intros B msg. destruct (ok_single C gen_ok) as [E1 [E2 E3]]. split; [|exact E2].
  unfold emit_writes. now rewrite E1, E3.
Qed.

Theorem C17_whole_records : forall B init (wss : list (list (list byte))) sched,
    Merge (map (writer C B) wss) sched ->
    exists p, Permutation p (map (fun m => m ++ [NL]) (concat wss)) /\ file_after init sched = init ++ concat p.
Proof. exact (whole_records C gen_ok). Qed.

Example C17_nonvacuous : exists sched, Merge (map (writer C 4096) [[[x61]; [x62]]; [[x63]]]) sched.
Proof.
  exists [[x61; x0a]; [x63; x0a]; [x62; x0a]].
  assert (E : map (writer C 4096) [[[x61]; [x62]]; [[x63]]] = [[[x61; x0a]; [x62; x0a]]; [[x63; x0a]]]) by (vm_compute; reflexivity).
  rewrite E.
  apply (M_pick [] [x61; x0a] [[x62; x0a]] [[[x63; x0a]]]). simpl.
  apply (M_pick [[[x62; x0a]]] [x63; x0a] [] []). simpl.
  apply (M_pick [] [x62; x0a] [] [[]]). simpl.
  apply M_done. repeat constructor.
Qed.

Print Assumptions C17_one_write.
Print Assumptions C17_whole_records.
