(** C18 - snoopyctl enable adds exactly one entry and preserves the file.
    Only statements, each closed by [exact] of a general theorem instantiated with the constants regenerated
    from /repo (Gen.Gen_Preload), plus non-vacuity examples.  [lines s] is the split of [s] at '\n'. *)
From Snoopy Require Import Lib.CStr Preload.Lines Preload.Model Preload.Exec Preload.FindProofs Preload.Proofs Preload.Main.
From Gen Require Import Gen_Preload.
Local Open Scope nat_scope.

Lemma gen_ok : preload_consts_ok Gen_Preload.consts = true.
Proof. vm_compute. reflexivity. Qed.

Notation c := Gen_Preload.consts.

(** the own-entry search loop returns the offset of the first line that starts with the path followed by
    end of line, '#', space or tab - for every content without NUL and every non-empty newline-free path *)
Theorem find_entry_spec : forall content path, dom content path ->
    find_entry c content path = first_line (entry_line path) content.
Proof. exact (FindProofs.find_entry_spec c gen_ok). Qed.
Theorem find_entry_lines : forall content path, dom content path ->
    (exists e, find_entry c content path = Some e) <-> exists l, is_line content l /\ entry_line path l = true.
Proof. exact (Main.find_entry_lines c gen_ok). Qed.

(** the foreign-instance search loop (backwards scan bounded by the start of the content) returns the offset of
    the first line that does not start with '#' and contains "libsnoopy.so" *)
Theorem noncomment_spec : forall content, find_noncomment c content LIB = first_line mention_line content.
Proof. exact (FindProofs.noncomment_spec c gen_ok). Qed.
Theorem noncomment_lines : forall content,
    (exists r, find_noncomment c content LIB = Some r) <-> exists l, is_line content l /\ hd NUL l <> HASH /\ strstr l LIB <> None.
Proof. exact (Main.noncomment_lines c gen_ok). Qed.

(** enable: byte-identical (entry active and no second active mention), refusal (another active line mentions the
    library), or old content + newline if it lacked one + path + newline *)
Theorem C18_enable : forall content path, dom content path ->
    enable c content path =
      if has_entry path content then (if 2 <=? active_mentions content then Refuse else Unchanged)
      else if 1 <=? active_mentions content then Refuse
      else Write (content ++ nl_if_missing content ++ path ++ [NL]).
Proof. exact (Proofs.enable_is_spec c gen_ok). Qed.

(** comment lines never count: they are neither active mentions nor entries, and a file of comments and blank
    lines is always extended *)
Theorem C18_comment_never_active : forall l, hd NUL l = HASH -> mention_line l = false.
Proof. exact Main.comment_never_active. Qed.
Theorem C18_comment_never_entry : forall path l, path <> [] -> hd NUL path <> HASH -> hd NUL l = HASH -> entry_line path l = false.
Proof. exact Main.comment_never_entry. Qed.
Theorem C18_only_comments : forall content path, dom content path -> hd NUL path <> HASH ->
    (forall l, is_line content l -> l = [] \/ hd NUL l = HASH) ->
    enable c content path = Write (content ++ nl_if_missing content ++ path ++ [NL]).
Proof. exact (Main.enable_only_comments c gen_ok). Qed.

(** enabling twice equals enabling once *)
Theorem C18_idempotent : forall content path new, dom content path ->
    enable c content path = Write new -> enable c new path = Unchanged.
Proof. exact (Main.enable_idempotent c gen_ok). Qed.
Theorem C18_idempotent_file : forall content path, dom content path ->
    let once := after content (enable c content path) in after once (enable c once path) = once.
Proof. exact (Main.enable_idempotent_file c gen_ok). Qed.

(** afterwards status reports the entry as present (for a library path that mentions the library name and does
    not start with '#': every installed path is <libdir>/libsnoopy.so) *)
Theorem C18_status_after : forall content path, dom content path -> status_dom path = true ->
    enable c content path <> Refuse -> status c (after content (enable c content path)) path = StPresent.
Proof. exact (Main.status_after c gen_ok). Qed.
Theorem C18_status : forall content path, dom content path -> status c content path = status_spec content path.
Proof. exact (Proofs.status_is_spec c gen_ok). Qed.

(** non-vacuity: a concrete file (comment with two mentions, foreign entry, no final newline) *)
Definition ex_path : list byte := [x2f; x6c; x2f] ++ LIB.                                   (* "/l/libsnoopy.so" *)
Definition ex_content : list byte := [x23; x20] ++ LIB ++ [x20] ++ LIB ++ [NL; x2f; x61].    (* "# libsnoopy.so libsnoopy.so\n/a" *)
Example C18_dom_nonvacuous : dom ex_content ex_path.
Proof. apply domb_dom. vm_compute. reflexivity. Qed.
Example C18_enable_nonvacuous : enable c ex_content ex_path = Write (ex_content ++ [NL] ++ ex_path ++ [NL])
                                /\ status c (ex_content ++ [NL] ++ ex_path ++ [NL]) ex_path = StPresent /\ status_dom ex_path = true.
Proof. vm_compute. auto. Qed.

(** D23 witness: without the guard in enable's "already enabled" branch (the code before the repair), enable says
    "already enabled" on a file on which status then aborts with "Multiple Snoopy references" *)
Example C18_status_after_unguarded_refuted :
  let c0 := {| lib_name := lib_name c; entry_delims := entry_delims c; comment_ch := comment_ch c; dis_blanks := dis_blanks c;
               dis_stops := dis_stops c; enable_guard := false |} in
  let content := ex_path ++ [NL; x2f; x6f; x2f] ++ LIB ++ [NL] in                            (* "/l/libsnoopy.so\n/o/libsnoopy.so\n" *)
  enable c0 content ex_path = Unchanged /\ status c0 content ex_path = StMultiple.
Proof. vm_compute. auto. Qed.

Print Assumptions find_entry_spec.
Print Assumptions noncomment_spec.
Print Assumptions C18_enable.
Print Assumptions C18_only_comments.
Print Assumptions C18_idempotent.
Print Assumptions C18_idempotent_file.
Print Assumptions C18_status_after.
Print Assumptions find_entry_lines.
Print Assumptions noncomment_lines.
Print Assumptions C18_comment_never_active.
Print Assumptions C18_comment_never_entry.
Print Assumptions C18_status.
