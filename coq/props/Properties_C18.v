(** C18 - snoopyctl enable adds exactly one entry and preserves the file. *)
From Snoopy Require Import Lib.CStr Preload.Lines Preload.Model Preload.Exec.
From Gen Require Import Gen_Preload.

Lemma gen_ok : preload_consts_ok Gen_Preload.consts = true.
Proof. vm_compute. reflexivity. Qed.
