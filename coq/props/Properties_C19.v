(** C19 - snoopyctl disable removes only its own entry.
    Only statements, each closed by [exact] of a general theorem instantiated with the constants regenerated
    from /repo (Gen.Gen_Preload), plus non-vacuity examples.  [lines s] is the split of [s] at '\n';
    [tokens s] are the whitespace-separated fields before '#', line by line, in file order. *)
From Snoopy Require Import Lib.CStr Preload.Lines Preload.Model Preload.Exec Preload.FindProofs Preload.Proofs Preload.Derived Preload.TokenProofs Preload.Main.
From Gen Require Import Gen_Preload.
Local Open Scope nat_scope.

Lemma gen_ok : preload_consts_ok Gen_Preload.consts = true.
Proof. vm_compute. reflexivity. Qed.

Notation c := Gen_Preload.consts.

(** disable, line by line: refusal when two active lines mention the library; otherwise the first entry line loses
    the entry and the blanks after it - the whole line (with its newline) when nothing or only a comment follows,
    else only the entry; no entry line: nothing is written *)
Theorem C19_disable : forall content path, dom content path -> disable c content path = disable_spec content path.
Proof. exact (Proofs.disable_is_spec c gen_ok). Qed.

(** entry absent, or duplicate active entries: the file is left untouched; a write happens only otherwise *)
Theorem C19_untouched : forall content path, dom content path ->
    (2 <= active_mentions content -> disable c content path = Refuse)
    /\ (active_mentions content < 2 -> has_entry path content = false -> disable c content path = Unchanged)
    /\ (forall new, disable c content path = Write new -> has_entry path content = true /\ active_mentions content < 2).
Proof. exact (Main.disable_untouched c gen_ok). Qed.

(** every other line is byte-identical and in the same order; the entry's line is gone or keeps what followed the entry *)
Theorem C19_lines_preserved : forall content path new, dom content path -> disable c content path = Write new ->
    exists ls1 l ls2, lines content = ls1 ++ l :: ls2
      /\ forallb (fun x => negb (entry_line path x)) ls1 = true /\ entry_line path l = true
      /\ lines new = ls1 ++ match strip_entry path l with Some rest => rest :: ls2 | None => match ls2 with [] => [[]] | _ => ls2 end end.
Proof. exact (Main.disable_lines_preserved c gen_ok). Qed.
(** ... where the entry's line is: path, blanks, then other entries ([Some rest]: kept) or nothing / a comment ([None]) *)
Theorem C19_entry_line_shape : forall path l, entry_line path l = true ->
    exists bl, forallb is_blank bl = true /\
      match strip_entry path l with
      | Some rest => l = path ++ bl ++ rest /\ bl <> [] /\ is_blank (hd NUL rest) = false /\ hd NUL rest <> HASH /\ rest <> []
      | None => exists cm, l = path ++ bl ++ cm /\ (cm = [] \/ hd NUL cm = HASH)
      end.
Proof. exact Derived.strip_entry_shape. Qed.

(** every other library listed in the file - on other lines or sharing the entry's line - is still there, in order:
    the token sequence loses exactly one token, the path *)
Theorem C19_tokens_preserved : forall content path new, dom content path -> tokenlike path = true ->
    disable c content path = Write new -> exists t1 t2, tokens content = t1 ++ path :: t2 /\ tokens new = t1 ++ t2.
Proof. exact (Main.disable_tokens_preserved c gen_ok). Qed.

(** disabling right after enabling restores the original content whenever it was empty or newline-terminated
    (enable wrote, so the library was not active before) *)
Theorem C19_roundtrip : forall content path new, dom content path -> ends_nl_or_empty content = true ->
    enable c content path = Write new -> disable c new path = Write content.
Proof. exact (Main.roundtrip c gen_ok). Qed.

(** non-vacuity *)
Definition ex_path : list byte := [x2f; x6c; x2f] ++ LIB.                                     (* "/l/libsnoopy.so" *)
Definition ex_shared : list byte := [x61; NL] ++ ex_path ++ [SP; TAB; x2f; x62; SP; HASH; x63; NL; x64].   (* "a\n/l/libsnoopy.so \t/b #c\nd" *)
Example C19_dom_nonvacuous : dom ex_shared ex_path /\ tokenlike ex_path = true.
Proof. split; [apply domb_dom|]; vm_compute; reflexivity. Qed.
Example C19_shared_line_nonvacuous :
  disable c ex_shared ex_path = Write ([x61; NL; x2f; x62; SP; HASH; x63; NL; x64])            (* "a\n/b #c\nd" *)
  /\ tokens ex_shared = [[x61]; ex_path; [x2f; x62]; [x64]].
Proof. vm_compute. auto. Qed.
Example C19_roundtrip_nonvacuous :
  enable c [x61; NL] ex_path = Write ([x61; NL] ++ ex_path ++ [NL]) /\ disable c ([x61; NL] ++ ex_path ++ [NL]) ex_path = Write [x61; NL].
Proof. vm_compute. auto. Qed.

Print Assumptions C19_disable.
Print Assumptions C19_untouched.
Print Assumptions C19_lines_preserved.
Print Assumptions C19_tokens_preserved.
Print Assumptions C19_roundtrip.
Print Assumptions C19_entry_line_shape.
