(** C19 - snoopyctl disable removes only its own entry. *)
From Snoopy Require Import Lib.CStr Preload.Lines Preload.Model Preload.Exec.
From Gen Require Import Gen_Preload.

Lemma gen_ok : preload_consts_ok Gen_Preload.consts = true.
Proof. vm_compute. reflexivity. Qed.
