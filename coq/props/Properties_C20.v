(** C20 - ld.so.preload is never left half-written.
    Statements over the body of etcLdSoPreload_writeFile regenerated from clang's AST (Gen_PreloadSkel). *)
From Coq Require Import String List Bool.
From Snoopy Require Import Lib.CStr Lib.Skel Preload.Model Preload.WriteFile Preload.WriteSkel Preload.WriteProofs.
From Gen Require Import Gen_PreloadSkel Gen_Preload.
Import ListNotations.

Eval vm_compute in (diagnose sk_writeFile).

(** the shape obligation: the body compiles to a file-operation program that the safety analysis accepts, the analysis
    ends in "renamed", and the temporary file is a sibling of the preload file *)
Lemma gen_ok : writefile_ok sk_writeFile = true.
Proof. vm_compute. reflexivity. Qed.

(** the extracted model that predicts the new content in the system-level tie runs on constants the C18/C19 theorems hold for
    (if the translator misses one, the search falls back to the reference constants instead of predicting with a wrong model) *)
Lemma consts_ok : preload_consts_ok Gen_Preload.consts = true.
Proof. vm_compute. reflexivity. Qed.

(** enable / disable write through etcLdSoPreload_writeFile only, exactly once, not in a loop *)
Lemma actions_ok : action_ok sk_enable = true /\ action_ok sk_disable = true.
Proof. split; vm_compute; reflexivity. Qed.

Definition prog : list cmd := the_prog sk_writeFile.

(** For every previous state of the two directory entries, every new content, and every plan of operation failures,
    partial writes and process deaths (before or after any operation): the preload path holds its previous content or
    the complete new content, no NULL FILE* is ever used, and only a flushed and fsynced file is ever renamed.
    (rename(2) itself is atomic: assumption [rename_atomic], see Preload/WriteFile.v.) *)
Theorem C20_atomic : forall new plan s0, init_ok s0 ->
    let s := run new prog plan s0 in
    ub s = false /\ bad_rename s = false
    /\ (content_at s TPath = content_at s0 TPath \/ content_at s TPath = Some new).
Proof.
  destruct (writefile_ok_safe _ gen_ok) as [af [S _]]. exact (writefile_atomic prog af S).
Qed.

(** and when nothing fails and nothing kills the process, the path holds the new content *)
Theorem C20_success : forall new plan s0, init_ok s0 -> all_ok plan -> content_at (run new prog plan s0) TPath = Some new.
Proof.
  destruct (writefile_ok_safe _ gen_ok) as [af [S D]]. exact (writefile_success prog af S D).
Qed.

(** non-vacuity: a concrete initial state (old file = inode 0, a stale temp file = inode 1), a plan in which the flush
    fails after 2 bytes (ENOSPC): the old content survives; the same state without failures: the new content *)
Definition s_ex : st :=
  {| dir := fun t => match t with TPath => Some 0 | TTmp => Some 1 end;
     files := fun i => match i with 0 => [x6f; x6c; x64] | _ => [x6a; x75; x6e; x6b] end;
     fresh := 2; handle := None; pending := []; synced := false; halted := false; ub := false; bad_rename := false |}.
Example C20_init_nonvacuous : init_ok s_ex.
Proof.
  unfold init_ok, s_ex; simpl. repeat split; intros; try reflexivity;
    match goal with H : Some _ = Some _ |- _ => inversion H; subst end; auto; discriminate.
Qed.
Example C20_enospc_keeps_old :
  content_at (run [x6e; x65; x77] prog [dec_ok; dec_ok; dec_ok; {| d_fail := true; d_crash := false; d_n := 2 |}] s_ex) TPath = Some [x6f; x6c; x64].
Proof. vm_compute. reflexivity. Qed.
Example C20_kill_after_rename_has_new :
  content_at (run [x6e; x65; x77] prog [dec_ok; dec_ok; dec_ok; dec_ok; dec_ok; dec_ok; {| d_fail := false; d_crash := true; d_n := 0 |}] s_ex) TPath = Some [x6e; x65; x77].
Proof. vm_compute. reflexivity. Qed.

(** the write-in-place program of the unrepaired code (D21) is refuted in the same semantics: killed right after the
    truncating open, the path holds neither the old nor the new content *)
Example C20_in_place_refuted : exists plan,
  content_at (run [x6e; x65; x77] [CTry [AFopenW TPath] [AExit]; CDo AFprintf; CDo AFclose] plan s_ex) TPath = Some [].
Proof. exists [{| d_fail := false; d_crash := true; d_n := 0 |}]. vm_compute. reflexivity. Qed.

Eval vm_compute in (trace_string prog).

Print Assumptions C20_atomic.
Print Assumptions C20_success.
