(** C11: the life cycle of the configuration record over a history of wrapped calls.

    Two views of one call  [ctor (get; parse the file); use; dtor (get; release; setDefaults)]:

    - *ownership* ([own_*]): the generated skeletons of get / setDefaults / the option registry's value
      parsers / the dtor are RUN by the collecting semantics of Lib/ResFlow.v on the record's pointer
      cells and [_malloced] flags.  The configuration file enters as the list of options the INI layer
      hands to the callback (any list: rewritten, emptied, deleted or corrupted files all are lists);
    - *values* ([v*]): what the settings are.  The file -> settings function is a section variable
      [parse]; which fields the ctor/dtor/get (re)set comes from facts computed from the skeletons.

    [variant]: TS = the record is allocated per call by tsrm (arbitrary content, marked
    uninitialised), NTS = one global record in static storage. *)
From Coq Require Import String ZArith List Bool Lia.
From Snoopy Require Import Lib.Skel Lib.ResFlow.
Import ListNotations.
Local Open Scope string_scope.
Local Open Scope list_scope.

Inductive variant := TS | NTS.

Record cfg_gen := {
  g_fields : list string; g_ptr_fields : list string;
  g_ctor : fn_skel; g_dtor : fn_skel; g_defaults : fn_skel; g_uninit : fn_skel;
  g_get_ts : fn_skel; g_get_nts : fn_skel; g_load : fn_skel; g_callback : fn_skel;
  g_tsrm_new : fn_skel; g_tsrm_ctor : fn_skel; g_tsrm_dtor : fn_skel;
  g_init_ts : fn_skel; g_cleanup_ts : fn_skel; g_init_nts : fn_skel; g_cleanup_nts : fn_skel;
  g_parsers : list (string * fn_skel);
  g_neutral : list string;            (* callees of the above that (transitively) call no allocation / release function *)
  g_static_uninit : bool;             (* NTS: the global record's static initialiser leaves [initialized] at SNOOPY_FALSE *)
  g_writers : list (string * list string)   (* every library function that assigns a field of the record, with the fields (raw AST, whole library) *)
}.

Definition CFG : sexpr := XVar "CFG".
Definition DEFAULTS := "snoopy_configuration_setDefaults".
Definition suffix_malloced (f : string) : string := f ++ "_malloced".

(** the flag fields: [X_malloced] for a pointer field X, plus [initialized] *)
Definition flag_fields (G : cfg_gen) : list string :=
  "initialized" :: filter (fun f => str_in f (g_fields G)) (map suffix_malloced (g_ptr_fields G)).

Definition cfg_tab (G : cfg_gen) : rtab :=
  {| t_acq := [("malloc", KHeap); ("calloc", KHeap); ("strdup", KHeap); ("strndup", KHeap)];
     t_rel := [("free", KHeap)];
     t_sopen := []; t_sclose := [];
     t_summ := [];
     t_neutral := g_neutral G;
     t_indirect_ok := false;
     t_track := flag_fields G;
     t_scalar := filter (fun f => negb (str_in f (g_ptr_fields G))) (g_fields G);
     t_heap_fails := false |}.

(** bodies with the record addressed as [CFG] throughout and setDefaults inlined *)
Definition defaults_body (G : cfg_gen) : list sstmt := map (ssubst [CFG]) (sk_body (g_defaults G)).
Definition with_defaults (G : cfg_gen) (b : list sstmt) : list sstmt := inline DEFAULTS (sk_body (g_defaults G)) b.
Definition get_body (G : cfg_gen) (v : variant) : list sstmt :=
  with_defaults G (sk_body (match v with TS => g_get_ts G | NTS => g_get_nts G end)).
Definition dtor_body (G : cfg_gen) : list sstmt := with_defaults G (sk_body (g_dtor G)).
Definition parser_body (p : fn_skel) : list sstmt := map (ssubst [XParam 0; CFG]) (sk_body p).
Definition uninit_body (G : cfg_gen) : list sstmt := map (ssubst [CFG]) (sk_body (g_uninit G)).

Definition cell (f : string) : key := KC (KV "CFG") f.

(** the record before anything touched it *)
Definition rec_zero (G : cfg_gen) : rs :=        (* static storage: all zero *)
  {| vars := map (fun f => (cell f, VNull)) (g_ptr_fields G);
     ints := map (fun f => (cell f, Some 0%Z)) (flag_fields G);
     consumed := []; outp := []; freed_cells := []; sess := 0; leaks := []; bad := [] |}.
Definition rec_garbage (G : cfg_gen) : rs :=     (* fresh malloc: nothing known *)
  {| vars := map (fun f => (cell f, VOther)) (g_ptr_fields G);
     ints := map (fun f => (cell f, None)) (flag_fields G);
     consumed := []; outp := []; freed_cells := []; sess := 0; leaks := []; bad := [] |}.

Section Own.
  Variable G : cfg_gen.
  Let T := cfg_tab G.

  Definition done (l : list fres) : list rs := flat_map (fun r => match r with FDone s _ => [s] | FFail _ => [] end) l.
  Definition fails (l : list fres) : list string := flat_map (fun r => match r with FFail w => [w] | _ => [] end) l.

  Definition own_get (v : variant) (s : rs) : list fres := run_fn T (get_body G v) s.
  Definition own_dtor (s : rs) : list fres := run_fn T (dtor_body G) s.
  Definition own_event (s : rs) (opt : string) : list fres :=
    match assoc String.eqb (g_parsers G) opt with
    | Some p => run_fn T (parser_body p) s
    | None => [FDone s VOther]            (* option not in the registry: the callback does nothing *)
    end.

  (** the record as a call finds it: NTS keeps what the previous call left, TS allocates afresh and marks it uninitialised *)
  Definition entry_states (v : variant) (s : rs) : list fres :=
    match v with NTS => [FDone s VOther] | TS => run_fn T (uninit_body G) (rec_garbage G) end.
  Definition process_start (v : variant) : rs := match v with NTS => rec_zero G | TS => rec_garbage G end.

  (** ** one wrapped call and a history, as relations over the collecting semantics;
         [tr] lists the states at the step boundaries of the call (after get, after every option, after the dtor's get, at the end) *)
  Inductive ev_run : rs -> list string -> list rs -> rs -> Prop :=
  | ev_nil s : ev_run s [] [] s
  | ev_cons s o evs s1 r mid s2 : In (FDone s1 r) (own_event s o) -> ev_run s1 evs mid s2 -> ev_run s (o :: evs) (s1 :: mid) s2.

  Definition call_rel (v : variant) (s : rs) (evs : list string) (tr : list rs) (s' : rs) : Prop :=
    exists s0 r0 s1 r1 mid s2 s3 r3 r',
      In (FDone s0 r0) (entry_states v s) /\ In (FDone s1 r1) (own_get v s0) /\ ev_run s1 evs mid s2
      /\ In (FDone s3 r3) (own_get v s2) /\ In (FDone s' r') (own_dtor s3) /\ tr = s1 :: mid ++ [s3; s'].

  (** a history: the list of option sequences the calls find in the file; [trs] collects every boundary state *)
  Inductive hist_rel (v : variant) : rs -> list (list string) -> list rs -> rs -> Prop :=
  | hist_nil s : hist_rel v s [] [] s
  | hist_cons s evs h tr s1 trs s2 : call_rel v s evs tr s1 -> hist_rel v s1 h trs s2 -> hist_rel v s (evs :: h) (tr ++ trs) s2.

  (** ** the finite reachability computation *)
  Definition opts : list string := map fst (g_parsers G).
  Definition mem (s : rs) (l : list rs) : bool := memb rs_eqb s l.
  Fixpoint bfs (n : nat) (todo seen : list rs) : option (list rs) :=
    match n with
    | O => None
    | S n' =>
      match todo with
      | [] => Some seen
      | s :: todo' =>
        if mem s seen then bfs n' todo' seen
        else match leaks s, bad s with
             | [], [] => bfs n' (todo' ++ flat_map (fun o => done (own_event s o)) opts) (s :: seen)
             | _, _ => None          (* a leak or an invalid release is reachable *)
             end
      end
    end.

  (** candidates for "the record between calls": what get+dtor leave when run on what get produces from the start state *)
  Definition between (v : variant) : option rs :=
    match flat_map (fun s0 => done (own_get v s0)) (done (entry_states v (process_start v))) with
    | s1 :: _ => match flat_map (fun s => done (own_dtor s)) (done (own_get v s1)) with s' :: _ => Some s' | [] => None end
    | [] => None
    end.

  Definition clean (s : rs) : bool :=
    forallb (fun '(_, x) => match x with VOwn _ | VDead => false | _ => true end) (vars s)
    && match leaks s, bad s, consumed s, outp s, freed_cells s with [], [], [], [], [] => true | _, _, _, _, _ => false end
    && (sess s =? 0)%Z
    && forallb (fun f => match geti s (cell (suffix_malloced f)) with Some 0%Z => true | _ => negb (str_in (suffix_malloced f) (g_fields G)) end) (g_ptr_fields G).

  Definition all_done (l : list fres) : bool := forallb (fun r => match r with FDone _ _ => true | FFail _ => false end) l.
  Definition nonempty {A} (l : list A) : bool := match l with [] => false | _ => true end.

  (** starts of a call: the process start and the between-calls state *)
  Definition starts (v : variant) (sb : rs) : list rs := [process_start v; sb].
  Definition after_entry_get (v : variant) (sb : rs) : list fres :=
    flat_map (fun s => flat_map (fun r => match r with FDone s0 _ => own_get v s0 | FFail w => [FFail w] end) (entry_states v s)) (starts v sb).

  Definition own_ok (v : variant) : bool :=
    match between v with
    | None => false
    | Some sb =>
      clean sb
      && all_done (after_entry_get v sb) && nonempty (after_entry_get v sb)
      && match bfs 4000 (done (after_entry_get v sb)) [] with
         | None => false
         | Some R =>
           (* closed under every option's parser, no failure anywhere *)
           forallb (fun s => forallb (fun o => all_done (own_event s o) && nonempty (own_event s o) && forallb (fun s' => mem s' R) (done (own_event s o))) opts) R
           (* from every reachable state the get + dtor end exactly in the between-calls state *)
           && forallb (fun s => all_done (own_get v s) && nonempty (own_get v s) && forallb (fun s3 => mem s3 R) (done (own_get v s))
                                && forallb (fun s3 => all_done (own_dtor s3) && nonempty (own_dtor s3)
                                                      && forallb (fun s' => rs_eqb s' sb) (done (own_dtor s3))) (done (own_get v s))) R
         end
    end.

  Definition reach_set (v : variant) : list rs :=
    match between v with Some sb => match bfs 4000 (done (after_entry_get v sb)) [] with Some R => R | None => [] end | None => [] end.
  (** number of live configuration blocks in a state *)
  Definition live_blocks (s : rs) : nat := length (filter (fun '(_, x) => match x with VOwn _ => true | _ => false end) (vars s)) + length (leaks s).
End Own.

(** * Values *)
Definition is_const (e : sexpr) : bool := match e with XStr _ => true | _ => match cint e with Some _ => true | None => false end end.
Definition lit_assign (s : sstmt) : option (string * sexpr) :=
  match s with
  | SAssign (XMember (XVar "CFG") f) rhs => if is_const rhs then Some (f, rhs) else None
  | _ => None
  end.
Definition is_some {A} (o : option A) : bool := match o with Some _ => true | None => false end.

Section Facts.
  Variable G : cfg_gen.
  (** fields setDefaults assigns (it must consist of constant assignments to the record only) *)
  Definition vf_assigned : list string := flat_map (fun s => match lit_assign s with Some (f, _) => [f] | None => [] end) (defaults_body G).
  Definition vf_defaults_pure : bool := forallb (fun s => is_some (lit_assign s)) (defaults_body G).
  Definition vf_defaults_sets_init : bool :=
    existsb (fun s => match lit_assign s with Some (f, e) => String.eqb f "initialized" && match cint e with Some 1%Z => true | _ => false end | None => false end) (defaults_body G).
  (** the dtor ends, on every path, with an unconditional setDefaults(CFG) *)
  Definition vf_dtor_defaults : bool :=
    match rev (sk_body (g_dtor G)) with
    | SExpr (XCall f [XVar "CFG"]) :: before => String.eqb f DEFAULTS && negb (existsb has_return before) && negb (existsb s_has_other (sk_body (g_dtor G)))
    | _ => false
    end.
  (** get(): an uninitialised record is defaulted before it is handed out *)
  Definition get_inits_body (b : list sstmt) : bool :=
    existsb (fun s => match s with
                      | SIf (XOp op [XInt 1%Z; XMember (XVar "CFG") "initialized"]) [SExpr (XCall f [XVar "CFG"])] []
                      | SIf (XOp op [XMember (XVar "CFG") "initialized"; XInt 1%Z]) [SExpr (XCall f [XVar "CFG"])] [] => String.eqb op "!=" && String.eqb f DEFAULTS
                      | _ => false end) b
    && negb (existsb s_has_other b)
    && match rev b with SReturn (Some (XVar "CFG")) :: before => negb (existsb has_return before) | _ => false end.
  Definition vf_get_inits (v : variant) : bool := get_inits_body (sk_body (match v with TS => g_get_ts G | NTS => g_get_nts G end)).
  Definition vf_get_source (v : variant) : bool :=     (* where the record comes from *)
    match v with
    | TS => existsb (fun s => match s with SAssign (XVar "CFG") (XCall "snoopy_tsrm_get_configuration" []) => true | _ => false end) (sk_body (g_get_ts G))
    | NTS => existsb (fun s => match s with SAssign (XVar "CFG") (XAddr (XVar "snoopy_configuration_data")) => true | _ => false end) (sk_body (g_get_nts G))
    end.

  (** the ctor re-reads the file on every call: all paths through it, with every condition going either way, either leave at once because
      parsing is switched off for the process (test hook) or call snoopy_configfile_load exactly once; no static local, no condition on
      anything but the two process-wide switches *)
  Fixpoint evars (e : sexpr) : list string :=
    match e with
    | XVar v => [v]
    | XCast a | XDeref a | XAddr a => evars a
    | XMember a f => f :: evars a
    | XIndex a b => evars a ++ evars b
    | XCall _ l | XOp _ l => flat_map evars l
    | XCallPtr p l => evars p ++ flat_map evars l
    | _ => []
    end.
  Fixpoint paths (fuel : nat) (l : list sstmt) : list (list string * bool) :=     (* (calls made, returned early?) *)
    match fuel with O => [] | S n =>
    match l with
    | [] => [([], false)]
    | s :: rest =>
      let cont (pre : list (list string * bool)) : list (list string * bool) :=
        flat_map (fun cr : list string * bool => if snd cr then [(fst cr, true)] else map (fun cr2 : list string * bool => (fst cr ++ fst cr2, snd cr2)) (paths n rest)) pre in
      match s with
      | SReturn e => [(match e with Some x => ecalls x | None => [] end, true)]
      | SIf c t e => cont (map (fun cr : list string * bool => (ecalls c ++ fst cr, snd cr)) (paths n t ++ paths n e))
      | SSeq b => cont (paths n b)
      | _ => cont [(scalls s, false)]
      end
    end end.
  Fixpoint cond_vars (s : sstmt) : list string :=
    match s with
    | SIf c t e => evars c ++ flat_map cond_vars t ++ flat_map cond_vars e
    | SLoop c b => evars c ++ flat_map cond_vars b
    | SSeq l => flat_map cond_vars l
    | _ => []
    end.
  Fixpoint has_static (s : sstmt) : bool :=
    match s with
    | SDecl _ st _ => st
    | SIf _ t e => existsb has_static t || existsb has_static e
    | SLoop _ b => true
    | SSeq l => existsb has_static l
    | _ => false
    end.
  Definition LOAD := "snoopy_configfile_load".
  Definition count_load (c : list string) : nat := length (filter (String.eqb LOAD) c).
  Definition vf_ctor_reparses : bool :=
    let b := sk_body (g_ctor G) in
    negb (existsb s_has_other b) && negb (existsb has_static b)
    && forallb (fun v => str_in v ["snoopy_configuration_configFileParsingEnabled"; "snoopy_configuration_altConfigFilePath"]) (flat_map cond_vars b)
    && forallb (fun '(c, _) => Nat.eqb (count_load c) 1 || Nat.eqb (length c) 0) (paths 50 b)
    && existsb (fun '(c, _) => Nat.eqb (count_load c) 1) (paths 50 b)
    (* load hands the file to the INI parser with the callback, unconditionally *)
    && match paths 50 (sk_body (g_load G)) with
       | [] => false
       | ps => forallb (fun '(c, _) => str_in "snoopy_ini_parse" c) ps
       end
    && negb (existsb has_static (sk_body (g_load G))) && negb (existsb s_has_other (sk_body (g_load G))).
  (** thread-safe build: the record is allocated in createNewThreadData, marked uninitialised there, and released in tsrm's dtor;
      snoopy_init / snoopy_cleanup call tsrm ctor first / tsrm dtor last *)
  Definition vf_ts_fresh : bool :=
    existsb (fun s => match s with SAssign (XMember (XVar "tData") "configuration") (XCall "malloc" _) => true | _ => false end) (sk_body (g_tsrm_new G))
    && existsb (fun s => match s with SExpr (XCall "snoopy_configuration_setUninitialized" [XMember (XVar "tData") "configuration"]) => true | _ => false end) (sk_body (g_tsrm_new G))
    && existsb (fun s => match s with SAssign (XMember (XVar "CFG") "initialized") (XInt 0%Z) => true | _ => false end) (uninit_body G)
    && existsb (fun s => match s with SExpr (XCall "free" [XMember (XVar "tData") "configuration"]) => true | _ => false end) (sk_body (g_tsrm_dtor G))
    && existsb (fun s => match s with SAssign (XVar "tData") (XCall "snoopy_util_list_remove" _) => true | _ => false end) (sk_body (g_tsrm_dtor G))
    && match body_calls (sk_body (g_init_ts G)) with "snoopy_tsrm_ctor" :: rest => str_in "snoopy_configuration_ctor" rest | _ => false end
    && match rev (body_calls (sk_body (g_cleanup_ts G))) with "snoopy_tsrm_dtor" :: rest => str_in "snoopy_configuration_dtor" rest | _ => false end.
  Definition vf_nts_life : bool :=
    str_in "snoopy_configuration_ctor" (body_calls (sk_body (g_init_nts G))) && str_in "snoopy_configuration_dtor" (body_calls (sk_body (g_cleanup_nts G)))
    && negb (str_in "snoopy_tsrm_ctor" (body_calls (sk_body (g_init_nts G)))) && g_static_uninit G.

  (** between ctor and dtor ("use": filters, message, data sources, outputs, error handler) nobody writes a pointer field or a flag of the
      record: every writer is one of the life-cycle functions / value parsers, or writes plain settings only (error.c toggles error_logging) *)
  Definition life_cycle_writers : list string :=
    [sk_name (g_defaults G); sk_name (g_uninit G); sk_name (g_dtor G); sk_name (g_load G)] ++ map (fun p => sk_name (snd p)) (g_parsers G).
  Definition vf_writers_ok : bool :=
    forallb (fun w => str_in (fst w) life_cycle_writers
                      || forallb (fun f => negb (str_in f (g_ptr_fields G)) && negb (str_in f (flag_fields G))) (snd w)) (g_writers G).

  Definition vfacts_ok : bool :=
    forallb (fun f => str_in f vf_assigned) (g_fields G) && vf_defaults_pure && vf_defaults_sets_init && vf_dtor_defaults
    && vf_get_inits TS && vf_get_inits NTS && vf_get_source TS && vf_get_source NTS && vf_ctor_reparses && vf_ts_fresh && vf_nts_life && vf_writers_ok.
End Facts.

Section Values.
  Variable G : cfg_gen.
  Variables (val file : Type).
  Definition cfg := string -> val.
  Variable dv : cfg.                                    (* the constant setDefaults assigns to a field *)
  Variable parse : cfg -> option file -> cfg.            (* the INI layer + value parsers; [None]: file absent or unreadable *)

  Record vstate := { v_init : bool; v_cfg : cfg }.
  Definition apply_defaults (c : cfg) : cfg := fun f => if str_in f (vf_assigned G) then dv f else c f.
  Definition vdefault (s : vstate) : vstate := {| v_init := v_init s || vf_defaults_sets_init G; v_cfg := apply_defaults (v_cfg s) |}.
  Definition vget (v : variant) (s : vstate) : vstate := if v_init s then s else if vf_get_inits G v then vdefault s else s.
  Definition vctor (v : variant) (s : vstate) (fl : option file) : vstate :=
    let s1 := vget v s in
    if vf_ctor_reparses G then {| v_init := v_init s1; v_cfg := parse (v_cfg s1) fl |} else s1.
  Definition vdtor (v : variant) (s : vstate) : vstate :=
    let s1 := vget v s in if vf_dtor_defaults G then vdefault s1 else s1.

  (** one element of a history: the file as the call finds it, and (TS) the arbitrary content of the freshly allocated record *)
  Record hcall := { h_file : option file; h_garbage : cfg; h_ginit : bool;
                    h_use : cfg -> cfg; h_use_init : bool -> bool }.     (* whatever the use phase writes into the record's settings *)
  Definition ventry (v : variant) (s : vstate) (c : hcall) : vstate :=
    match v with
    | NTS => s
    | TS => {| v_init := if vf_ts_fresh G then false else h_ginit c; v_cfg := h_garbage c |}
    end.
  (** one wrapped call: ctor (get; parse the file over what the previous call left) ; use ; dtor  ->  (state left behind, effective configuration) *)
  Definition cfg_call (v : variant) (s : vstate) (c : hcall) : vstate * cfg :=
    let s1 := vctor v (ventry v s c) (h_file c) in
    let s2 := {| v_init := h_use_init c (v_init s1); v_cfg := h_use c (v_cfg s1) |} in
    (vdtor v s2, v_cfg s1).
  (** effective configuration of every call of a history *)
  Fixpoint effs (v : variant) (s : vstate) (h : list hcall) : list cfg :=
    match h with
    | [] => []
    | c :: h' => snd (cfg_call v s c) :: effs v (fst (cfg_call v s c)) h'
    end.
  Definition dflt : cfg := dv.
End Values.
Arguments v_init {val} _.
Arguments v_cfg {val} _.
Arguments h_file {val file} _.
Arguments h_garbage {val file} _.
Arguments h_ginit {val file} _.
Arguments h_use {val file} _ _.
Arguments h_use_init {val file} _ _.
