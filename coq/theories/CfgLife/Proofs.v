(** C11: general theorems (for every generated skeleton set passing the computed checks). *)
From Coq Require Import String ZArith List Bool Lia.
From Snoopy Require Import Lib.Skel Lib.ResFlow CfgLife.Model.
Import ListNotations.
Local Open Scope string_scope.
Local Open Scope list_scope.

Lemma in_done l s : In s (done l) <-> exists r, In (FDone s r) l.
Proof.
  unfold done. rewrite in_flat_map. split.
  - intros [x [Hx Hs]]. destruct x; simpl in Hs; [|contradiction]. destruct Hs as [<-|[]]. eauto.
  - intros [r H]. exists (FDone s r). split; [assumption|now left].
Qed.

Lemma assoc_in_fst {B} (l : list (string * B)) k v : assoc String.eqb l k = Some v -> In k (map fst l).
Proof.
  induction l as [|[k' v'] l IH]; simpl; [discriminate|]. destruct (String.eqb k k') eqn:E.
  - apply String.eqb_eq in E. intros _. now left.
  - intros H. right. now apply IH.
Qed.

Lemma mem_In s l : mem s l = true -> In s l.
Proof. apply memb_In. apply rs_eqb_eq. Qed.

Section OwnProofs.
  Variable G : cfg_gen.

  Definition tidy (s : rs) : Prop := leaks s = [] /\ bad s = [].

  Lemma bfs_spec n : forall todo seen R, bfs G n todo seen = Some R ->
      (forall s, In s seen -> tidy s) -> incl seen R /\ (forall s, In s todo -> In s R) /\ (forall s, In s R -> tidy s).
  Proof.
    induction n as [|n IH]; intros todo seen R H Hs; [discriminate|]. cbn [bfs] in H.
    destruct todo as [|s todo].
    - inversion H; subst. split; [apply incl_refl|]. split; [intros ? []|assumption].
    - destruct (mem s seen) eqn:M.
      + destruct (IH _ _ _ H Hs) as [A [B C]]. split; [assumption|]. split; [|assumption].
        intros x [<-|Hx]; [apply A; now apply mem_In|now apply B].
      + destruct (leaks s) eqn:L; [|discriminate]. destruct (bad s) eqn:Bd; [|discriminate].
        assert (Hs' : forall x, In x (s :: seen) -> tidy x).
        { intros x [<-|Hx]; [split; assumption|now apply Hs]. }
        destruct (IH _ _ _ H Hs') as [A [B C]]. split; [intros x Hx; apply A; now right|]. split; [|assumption].
        intros x [<-|Hx]; [apply A; now left|]. apply B. apply in_or_app. now left.
  Qed.

  Variable v : variant.
  Hypothesis OK : own_ok G v = true.

  (** the between-calls state and the reachable set, with everything [own_ok] established about them *)
  Lemma own_facts : exists sb R,
      between G v = Some sb /\ clean G sb = true /\ reach_set G v = R
      /\ (forall s s0 r0 s1 r1, In s (starts G v sb) -> In (FDone s0 r0) (entry_states G v s) -> In (FDone s1 r1) (own_get G v s0) -> In s1 R)
      /\ (forall s, In s R -> tidy s)
      /\ (forall s o s' r, In s R -> In (FDone s' r) (own_event G s o) -> In s' R)
      /\ (forall s s3 r3, In s R -> In (FDone s3 r3) (own_get G v s) -> In s3 R)
      /\ (forall s s3 r3 s' r', In s R -> In (FDone s3 r3) (own_get G v s) -> In (FDone s' r') (own_dtor G s3) -> s' = sb).
  Proof.
    pose proof OK as K. unfold own_ok in K. unfold reach_set. destruct (between G v) as [sb|] eqn:B; [|discriminate].
    apply andb_true_iff in K as [K H]. apply andb_true_iff in K as [K _]. apply andb_true_iff in K as [K _].
    destruct (bfs G 4000 (done (after_entry_get G v sb)) []) as [R|] eqn:E; [|discriminate].
    apply andb_true_iff in H as [Hcl Hdt].
    destruct (bfs_spec _ _ _ _ E (fun x (Hx : In x []) => match Hx with end)) as [_ [Hin Htidy]].
    exists sb, R. split; [reflexivity|]. split; [exact K|]. split; [reflexivity|].
    split; [|split; [exact Htidy|split; [|split]]].
    - intros s s0 r0 s1 r1 Hs H0' H1'. apply Hin. apply in_done. exists r1.
      unfold after_entry_get. apply in_flat_map. exists s. split; [assumption|].
      apply in_flat_map. exists (FDone s0 r0). split; assumption.
    - intros s o s' r Hs Ho. rewrite forallb_forall in Hcl. specialize (Hcl s Hs).
      unfold own_event in Ho. destruct (assoc String.eqb (g_parsers G) o) as [p|] eqn:A.
      + rewrite forallb_forall in Hcl. specialize (Hcl o (assoc_in_fst _ _ _ A)).
        apply andb_true_iff in Hcl as [_ Hcl]. rewrite forallb_forall in Hcl. apply mem_In. apply Hcl.
        apply in_done. exists r. unfold own_event. now rewrite A.
      + destruct Ho as [Ho|[]]. inversion Ho; subst. assumption.
    - intros s s3 r3 Hs H3. rewrite forallb_forall in Hdt. specialize (Hdt s Hs).
      apply andb_true_iff in Hdt as [Hdt _]. apply andb_true_iff in Hdt as [_ Hdt].
      rewrite forallb_forall in Hdt. apply mem_In. apply Hdt. apply in_done. eauto.
    - intros s s3 r3 s' r' Hs H3 Hd. rewrite forallb_forall in Hdt. specialize (Hdt s Hs).
      apply andb_true_iff in Hdt as [_ Hdt]. rewrite forallb_forall in Hdt.
      assert (I3 : In s3 (done (own_get G v s))) by (apply in_done; eauto).
      specialize (Hdt s3 I3). apply andb_true_iff in Hdt as [_ Hdt]. rewrite forallb_forall in Hdt.
      apply rs_eqb_eq. apply Hdt. apply in_done. eauto.
  Qed.

  Lemma ev_run_closed (R : list rs) :
    (forall s o s' r, In s R -> In (FDone s' r) (own_event G s o) -> In s' R) ->
    forall s evs mid s2, ev_run G s evs mid s2 -> In s R -> In s2 R /\ (forall x, In x mid -> In x R).
  Proof.
    intros Hcl s evs mid s2 E. induction E; intros Hs.
    - split; [assumption|intros ? []].
    - assert (In s1 R) by eauto. destruct (IHE H0) as [A B]. split; [assumption|]. intros x [<-|Hx]; auto.
  Qed.

  (** one call, started at the process start or at the between-calls state, ends in the between-calls state;
      no boundary state of the call carries a leak or an invalid release *)
  Theorem own_call : exists sb, between G v = Some sb /\ clean G sb = true /\
      forall s evs tr s', In s (starts G v sb) -> call_rel G v s evs tr s' -> s' = sb /\ (forall x, In x tr -> tidy x).
  Proof.
    destruct own_facts as [sb [R [B [C [_ [Hstart [Htidy [Hev [Hget Hdt]]]]]]]]].
    exists sb. split; [assumption|]. split; [assumption|].
    intros s evs tr s' Hs [s0 [r0 [s1 [r1 [mid [s2 [s3 [r3 [r' [E0 [E1 [E2 [E3 [E4 ->]]]]]]]]]]]]]].
    assert (I1 : In s1 R) by eauto.
    destruct (ev_run_closed R Hev _ _ _ _ E2 I1) as [I2 Imid].
    assert (I3 : In s3 R) by eauto.
    assert (Es : s' = sb) by eauto. split; [assumption|].
    assert (Tsb : tidy sb).
    { unfold clean in C. repeat (apply andb_true_iff in C as [C ?]). split.
      - destruct (leaks sb); [reflexivity|discriminate].
      - destruct (leaks sb); [|discriminate]. destruct (bad sb); [reflexivity|discriminate]. }
    intros x [<-|Hx]; [now apply Htidy|]. apply in_app_or in Hx as [Hx|[<-|[<-|[]]]]; [apply Htidy; now apply Imid|now apply Htidy|now subst].
  Qed.

  (** every history: after every call the record is in the same clean state, nothing leaked or was released twice on the way *)
  Theorem own_history : exists sb, between G v = Some sb /\ clean G sb = true /\
      forall h trs s', hist_rel G v (process_start G v) h trs s' ->
        (h = [] \/ s' = sb) /\ (forall x, In x trs -> tidy x).
  Proof.
    destruct own_call as [sb [B [C Hcall]]]. exists sb. split; [assumption|]. split; [assumption|].
    assert (Gen : forall s h trs s', hist_rel G v s h trs s' -> In s (starts G v sb) -> (h = [] \/ s' = sb) /\ (forall x, In x trs -> tidy x)).
    { intros s h trs s' Hh. induction Hh; intros Hs.
      - split; [now left|intros ? []].
      - destruct (Hcall _ _ _ _ Hs H) as [-> Ht]. destruct IHHh as [A Bx]; [right; now left|].
        split.
        + right. destruct A as [->|A]; [|assumption]. inversion Hh; subst. reflexivity.
        + intros x Hx. apply in_app_or in Hx as [Hx|Hx]; auto. }
    intros h trs s' Hh. apply (Gen _ _ _ _ Hh). now left.
  Qed.
End OwnProofs.

(** an executable witness of [hist_rel] (first outcome at every step), for the non-vacuity examples *)
Section Witness.
  Variable G : cfg_gen.
  Definition first_done (l : list fres) : option rs := match done l with s :: _ => Some s | [] => None end.
  Lemma first_done_in l s : first_done l = Some s -> exists r, In (FDone s r) l.
  Proof. unfold first_done. destruct (done l) as [|x d] eqn:E; [discriminate|]. intros H. inversion H; subst. apply in_done. rewrite E. now left. Qed.
  Fixpoint ev_first (s : rs) (evs : list string) : option rs :=
    match evs with [] => Some s | o :: evs' => match first_done (own_event G s o) with Some s1 => ev_first s1 evs' | None => None end end.
  Lemma ev_first_sound : forall evs s s2, ev_first s evs = Some s2 -> exists mid, ev_run G s evs mid s2.
  Proof.
    induction evs as [|o evs IH]; intros s s2 H; simpl in H.
    - inversion H; subst. exists []. constructor.
    - destruct (first_done (own_event G s o)) as [s1|] eqn:E; [|discriminate]. destruct (first_done_in _ _ E) as [r Hr].
      destruct (IH _ _ H) as [mid Hm]. exists (s1 :: mid). econstructor; eassumption.
  Qed.
  Definition call_first (v : variant) (s : rs) (evs : list string) : option rs :=
    match first_done (entry_states G v s) with None => None | Some s0 =>
    match first_done (own_get G v s0) with None => None | Some s1 =>
    match ev_first s1 evs with None => None | Some s2 =>
    match first_done (own_get G v s2) with None => None | Some s3 => first_done (own_dtor G s3) end end end end.
  Lemma call_first_sound v s evs s' : call_first v s evs = Some s' -> exists tr, call_rel G v s evs tr s'.
  Proof.
    unfold call_first. destruct (first_done (entry_states G v s)) as [s0|] eqn:E0; [|discriminate].
    destruct (first_done (own_get G v s0)) as [s1|] eqn:E1; [|discriminate].
    destruct (ev_first s1 evs) as [s2|] eqn:E2; [|discriminate].
    destruct (first_done (own_get G v s2)) as [s3|] eqn:E3; [|discriminate]. intros E4.
    destruct (first_done_in _ _ E0) as [r0 H0]. destruct (first_done_in _ _ E1) as [r1 H1].
    destruct (ev_first_sound _ _ _ E2) as [mid H2]. destruct (first_done_in _ _ E3) as [r3 H3]. destruct (first_done_in _ _ E4) as [r' H4].
    eexists. exists s0, r0, s1, r1, mid, s2, s3, r3, r'. repeat split; eassumption || reflexivity.
  Qed.
  Fixpoint hist_first (v : variant) (s : rs) (h : list (list string)) : option rs :=
    match h with [] => Some s | evs :: h' => match call_first v s evs with Some s1 => hist_first v s1 h' | None => None end end.
  Lemma hist_first_sound v : forall h s s', hist_first v s h = Some s' -> exists trs, hist_rel G v s h trs s'.
  Proof.
    induction h as [|evs h IH]; intros s s' H; simpl in H.
    - inversion H; subst. exists []. constructor.
    - destruct (call_first v s evs) as [s1|] eqn:E; [|discriminate]. destruct (call_first_sound _ _ _ _ E) as [tr Ht].
      destruct (IH _ _ H) as [trs Hh]. exists (tr ++ trs). econstructor; eassumption.
  Qed.
End Witness.

(** the between-calls state holds no configuration block *)
Lemma clean_no_blocks G s : clean G s = true -> live_blocks s = 0.
Proof.
  unfold clean, live_blocks. intros H. repeat (apply andb_true_iff in H as [H ?]).
  destruct (leaks s); [|discriminate]. simpl. rewrite Nat.add_0_r.
  induction (vars s) as [|[k x] l IH]; [reflexivity|]. simpl in H. apply andb_true_iff in H as [Hx Hl].
  simpl. destruct x; try discriminate; auto.
Qed.

(** * Values: the effective configuration of every call is the file's, parsed over the defaults *)
Section ValueProofs.
  Variable G : cfg_gen.
  Variables (val file : Type).
  Variable dv : cfg val.
  Variable parse : cfg val -> option file -> cfg val.
  Hypothesis FOK : vfacts_ok G = true.
  (** the only law needed of the parser: it is a function of the record's fields *)
  Hypothesis parse_ext : forall c c' fl, (forall f, In f (g_fields G) -> c f = c' f) -> forall f, In f (g_fields G) -> parse c fl f = parse c' fl f.

  Let fields := g_fields G.
  Definition at_defaults (c : cfg val) : Prop := forall f, In f fields -> c f = dv f.
  Definition Inv (s : vstate val) : Prop := v_init s = false \/ at_defaults (v_cfg s).

  Lemma facts : (forall f, In f fields -> str_in f (vf_assigned G) = true) /\ vf_defaults_sets_init G = true /\ vf_dtor_defaults G = true
                /\ vf_get_inits G TS = true /\ vf_get_inits G NTS = true /\ vf_ctor_reparses G = true /\ vf_ts_fresh G = true.
  Proof.
    unfold vfacts_ok in FOK. repeat (apply andb_true_iff in FOK as [FOK ?]). rewrite forallb_forall in FOK. repeat split; assumption.
  Qed.

  Lemma defaults_at c : at_defaults (apply_defaults G val dv c).
  Proof. intros f Hf. unfold apply_defaults. destruct facts as [A _]. now rewrite (A f Hf). Qed.

  Lemma vget_defaults v s : Inv s -> at_defaults (v_cfg (vget G val dv v s)) /\ v_init (vget G val dv v s) = true.
  Proof.
    destruct facts as [_ [Hi [_ [Gt [Gn _]]]]]. intros [H|H]; unfold vget.
    - rewrite H. assert (E : vf_get_inits G v = true) by (destruct v; assumption). rewrite E. simpl. split; [apply defaults_at|]. rewrite Hi. apply orb_true_r.
    - destruct (v_init s) eqn:E; [split; [assumption|exact E]|].
      assert (E' : vf_get_inits G v = true) by (destruct v; assumption). rewrite E'. simpl. split; [apply defaults_at|]. rewrite Hi. apply orb_true_r.
  Qed.

  Lemma vctor_eff v s fl : Inv s -> forall f, In f fields -> v_cfg (vctor G val file dv parse v s fl) f = parse dv fl f.
  Proof.
    intros H f Hf. destruct facts as [_ [_ [_ [_ [_ [Hc _]]]]]]. unfold vctor. rewrite Hc. simpl.
    apply parse_ext; [|assumption]. apply (vget_defaults v s H).
  Qed.

  Lemma vdtor_inv v s : Inv (vdtor G val dv v s).
  Proof.
    destruct facts as [_ [_ [Hd _]]]. unfold vdtor. rewrite Hd. right. simpl. apply defaults_at.
  Qed.

  Lemma ventry_inv v s c : Inv s -> Inv (ventry G val file v s c).
  Proof.
    destruct facts as [_ [_ [_ [_ [_ [_ Ht]]]]]]. intros H. destruct v; simpl; [|assumption]. left. simpl. now rewrite Ht.
  Qed.

  Definition eq_on_fields (a b : cfg val) : Prop := forall f, In f fields -> a f = b f.

  (** for EVERY history (any file contents, any garbage in freshly allocated records), both variants, from a fresh
      process or from any state in which the record is uninitialised or at its defaults: the effective configuration
      of the k-th call is that of its own file parsed over the built-in defaults *)
  Theorem history_free v : forall h s, Inv s ->
      Forall2 eq_on_fields (effs G val file dv parse v s h) (map (fun c => parse dv (h_file c)) h).
  Proof.
    induction h as [|c h IH]; intros s Hs; cbn [effs map]; constructor.
    - intros f Hf. apply vctor_eff; [|assumption]. now apply ventry_inv.
    - apply IH. apply vdtor_inv.
  Qed.

  Corollary history_free_nth v : forall h s k c, Inv s -> nth_error h k = Some c ->
      exists e, nth_error (effs G val file dv parse v s h) k = Some e /\ eq_on_fields e (parse dv (h_file c)).
  Proof.
    induction h as [|c0 h IH]; intros s k c Hs Hk; [destruct k; discriminate|].
    destruct k as [|k]; cbn [effs nth_error] in *.
    - inversion Hk; subst. eexists. split; [reflexivity|]. intros f Hf. apply vctor_eff; [|assumption]. now apply ventry_inv.
    - apply IH; [apply vdtor_inv|assumption].
  Qed.
End ValueProofs.
