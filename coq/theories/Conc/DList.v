(** C09 (a): [src/util/list.c] on an explicit heap.

    [push], [remove], [fetchNext] follow the C text statement by statement.  Address 0 is NULL.  A result
    [None] means "the C program would dereference an unallocated node here" (undefined behaviour); the
    refinement theorems show it never happens under the representation invariant.

    The representation is segment based ([seg h a p xs b]: following [next] from [a] spells [xs] and ends at
    [b]); the [prev] pointer of the FIRST node of the whole list is deliberately unconstrained, because
    [snoopy_util_list_remove] does not clear it when it removes the first node (it dangles), and the proofs show
    it is never read. *)
From Coq Require Import List Arith Lia Bool Permutation.
Import ListNotations.

Definition addr := nat.
Record node := mkNode { next : addr; prev : addr; value : nat }.
Definition heap := addr -> option node.
Record dlist := mkList { first : addr; last : addr; count : nat }.

Definition hupd (h : heap) (a : addr) (n : option node) : heap := fun x => if Nat.eqb x a then n else h x.
Lemma hupd_same h a n : hupd h a n a = n. Proof. unfold hupd. now rewrite Nat.eqb_refl. Qed.
Lemma hupd_other h a n x : x <> a -> hupd h a n x = h x.
Proof. unfold hupd. intros H. destruct (Nat.eqb_spec x a); [contradiction|reflexivity]. Qed.

Definition empty_heap : heap := fun _ => None.
Definition empty_list : dlist := mkList 0 0 0.

(** ** snoopy_util_list_push.  [a] is what calloc returned (0 = allocation failure: SNOOPY_ERROR, nothing changes).
    Result: new heap, new list header, success flag. *)
Definition push (h : heap) (l : dlist) (a : addr) (v : nat) : option (heap * dlist * bool) :=
  if Nat.eqb a 0 then Some (h, l, false)
  else
    (* newNode->value = newNodeValue on the zero-filled node *)
    let h0 := hupd h a (Some (mkNode 0 0 v)) in
    if Nat.eqb (last l) 0
    then Some (h0, mkList a a (S (count l)), true)
    else match h0 (last l) with
         | Some ln =>
           let h1 := hupd h0 (last l) (Some (mkNode a (prev ln) (value ln))) in     (* list->last->next = newNode *)
           match h1 a with
           | Some nn => Some (hupd h1 a (Some (mkNode 0 (last l) (value nn))),     (* newNode->prev = list->last; ->next = NULL *)
                              mkList (first l) a (S (count l)), true)
           | None => None
           end
         | None => None
         end.

(** ** snoopy_util_list_remove.  Result: heap, header, returned value pointer ([None] = NULL with an error message). *)
Definition remove (h : heap) (l : dlist) (n : addr) : option (heap * dlist * option nat) :=
  if Nat.eqb (first l) 0 || Nat.eqb (last l) 0 then Some (h, l, None)
  else if Nat.eqb n 0 then Some (h, l, None)
  else
    let step1 : option (heap * dlist) :=
      if Nat.eqb n (first l) && Nat.eqb n (last l) then Some (h, mkList 0 0 (count l))
      else if Nat.eqb n (first l) then
        match h n with Some nd => Some (h, mkList (next nd) (last l) (count l)) | None => None end
      else if Nat.eqb n (last l) then
        match h n with
        | Some nd =>
          match h (prev nd) with
          | Some pn => Some (hupd h (prev nd) (Some (mkNode 0 (prev pn) (value pn))), mkList (first l) (prev nd) (count l))
          | None => None
          end
        | None => None
        end
      else
        match h n with
        | Some nd =>
          match h (next nd) with
          | Some an =>
            let h1 := hupd h (next nd) (Some (mkNode (next an) (prev nd) (value an))) in    (* nodeAfter->prev = nodeBefore *)
            match h1 (prev nd) with
            | Some bn => Some (hupd h1 (prev nd) (Some (mkNode (next nd) (prev bn) (value bn))), l)   (* nodeBefore->next = nodeAfter *)
            | None => None
            end
          | None => None
          end
        | None => None
        end in
    match step1 with
    | None => None
    | Some (h1, l1) =>
      match h1 n with
      | Some nd => Some (hupd h1 n None, mkList (first l1) (last l1) (pred (count l1)), Some (value nd))   (* count--, retVal, free *)
      | None => None
      end
    end.

(** ** snoopy_util_list_fetchNextNode *)
Definition fetchNext (h : heap) (l : dlist) (cur : addr) : option addr :=
  if Nat.eqb (first l) 0 || Nat.eqb (last l) 0 then Some 0
  else if Nat.eqb cur 0 then Some (first l)
  else match h cur with Some nd => Some (next nd) | None => None end.

(** ** Representation *)
Fixpoint seg (h : heap) (a : addr) (p : option addr) (xs : list (addr * nat)) (b : addr) : Prop :=
  match xs with
  | [] => a = b
  | (x, v) :: xs' => a = x /\ x <> 0 /\
      exists nd, h x = Some nd /\ value nd = v /\ (match p with Some q => prev nd = q | None => True end) /\
                 seg h (next nd) (Some x) xs' b
  end.

Definition last_addr (xs : list (addr * nat)) : addr := match rev xs with [] => 0 | (x, _) :: _ => x end.
Definition first_addr (xs : list (addr * nat)) : addr := match xs with [] => 0 | (x, _) :: _ => x end.
Definition last_or (p : option addr) (xs : list (addr * nat)) : option addr :=
  match rev xs with [] => p | (x, _) :: _ => Some x end.

Record repr (h : heap) (l : dlist) (xs : list (addr * nat)) : Prop := {
  R_seg   : seg h (first l) None xs 0;
  R_last  : last l = last_addr xs;
  R_count : count l = length xs;
  R_nodup : NoDup (map fst xs);
}.

Lemma NoDup_app_l {A} (l m : list A) : NoDup (l ++ m) -> NoDup l.
Proof.
  induction l as [|a l IH]; simpl; intros H; [constructor|]. inversion H as [|? ? Ha Hl]; subst.
  constructor; [rewrite in_app_iff in Ha; tauto | now apply IH].
Qed.
Lemma NoDup_app_r {A} (l m : list A) : NoDup (l ++ m) -> NoDup m.
Proof. induction l as [|a l IH]; simpl; intros H; [assumption|]. inversion H; subst. now apply IH. Qed.

Lemma last_or_snoc p xs x v : last_or p (xs ++ [(x, v)]) = Some x.
Proof. unfold last_or. now rewrite rev_app_distr. Qed.
Lemma last_or_cons p y xs : last_or p (y :: xs) = last_or (Some (fst y)) xs.
Proof. unfold last_or. simpl. destruct (rev xs) as [|[z w] r]; simpl; [destruct y; reflexivity|reflexivity]. Qed.
Lemma last_addr_snoc xs x v : last_addr (xs ++ [(x, v)]) = x.
Proof. unfold last_addr. now rewrite rev_app_distr. Qed.
Lemma rev_nil_inv {A} (l : list A) : rev l = [] -> l = [].
Proof. intros H. apply (f_equal (@rev A)) in H. now rewrite rev_involutive in H. Qed.
Lemma last_addr_app xs ys : ys <> [] -> last_addr (xs ++ ys) = last_addr ys.
Proof.
  intros H. unfold last_addr. rewrite rev_app_distr.
  destruct (rev ys) as [|[z w] r] eqn:E; [apply rev_nil_inv in E; contradiction|reflexivity].
Qed.
Lemma last_addr_in ys : ys <> [] -> In (last_addr ys) (map fst ys).
Proof.
  intros H. unfold last_addr. destruct (rev ys) as [|[z w] r] eqn:E; [apply rev_nil_inv in E; contradiction|].
  assert (In (z, w) ys) by (apply in_rev; rewrite E; now left). change z with (fst (z, w)). now apply in_map.
Qed.

Lemma seg_app h : forall xs a p ys c,
  seg h a p (xs ++ ys) c <-> exists b, seg h a p xs b /\ seg h b (last_or p xs) ys c.
Proof.
  induction xs as [|[x v] xs IH]; intros a p ys c; simpl.
  - split; [intros H; exists a; split; [reflexivity|exact H] | intros [b [-> H]]; exact H].
  - rewrite last_or_cons. simpl fst. split.
    + intros [-> [Hx [nd [Hh [Hv [Hp Hs]]]]]]. apply IH in Hs. destruct Hs as [b [H1 H2]].
      exists b. split; [|exact H2]. split; [reflexivity|]. split; [assumption|]. exists nd. auto.
    + intros [b [[-> [Hx [nd [Hh [Hv [Hp Hs]]]]]] H2]]. split; [reflexivity|]. split; [assumption|].
      exists nd. repeat split; try assumption. apply IH. exists b. now split.
Qed.

Lemma seg_frame h b n : forall xs a p c, ~ In b (map fst xs) -> seg h a p xs c -> seg (hupd h b n) a p xs c.
Proof.
  induction xs as [|[y v] xs IH]; simpl; intros a p c Hn H; [assumption|].
  destruct H as [-> [Hy [nd [Hh [Hv [Hp Hc]]]]]]. split; [reflexivity|]. split; [assumption|].
  exists nd. rewrite hupd_other by tauto. repeat split; try assumption. apply IH; [tauto|assumption].
Qed.

(** the expected prev of the first node may be forgotten: this is what makes the dangling prev harmless *)
Lemma seg_forget_prev h xs a p c : seg h a p xs c -> seg h a None xs c.
Proof.
  destruct xs as [|[x v] xs]; simpl; [auto|].
  intros [-> [Hx [nd [Hh [Hv [_ Hs]]]]]]. split; [reflexivity|]. split; [assumption|]. exists nd. auto.
Qed.

Lemma seg_set_end h : forall xs a p x v c c' nd,
  NoDup (map fst (xs ++ [(x, v)])) -> seg h a p (xs ++ [(x, v)]) c -> h x = Some nd ->
  seg (hupd h x (Some (mkNode c' (prev nd) (value nd)))) a p (xs ++ [(x, v)]) c'.
Proof.
  intros xs a p x v c c' nd ND H Hx. apply seg_app in H. destruct H as [b [H1 H2]]. apply seg_app. exists b. split.
  - apply seg_frame; [|exact H1]. rewrite map_app in ND. simpl in ND. apply NoDup_remove_2 in ND. rewrite app_nil_r in ND. exact ND.
  - simpl in H2 |- *. destruct H2 as [-> [Hx0 [nd' [Hh [Hv [Hp _]]]]]]. rewrite Hx in Hh. injection Hh as <-.
    split; [reflexivity|]. split; [assumption|]. exists (mkNode c' (prev nd) (value nd)). rewrite hupd_same. auto.
Qed.

Lemma seg_set_prev h x v xs q nd p c :
  ~ In x (map fst xs) -> seg h x p ((x, v) :: xs) c -> h x = Some nd ->
  seg (hupd h x (Some (mkNode (next nd) q (value nd)))) x (Some q) ((x, v) :: xs) c.
Proof.
  intros Hn H Hx. simpl in H |- *. destruct H as [_ [Hx0 [nd' [Hh [Hv [_ Hs]]]]]]. rewrite Hx in Hh. injection Hh as <-.
  split; [reflexivity|]. split; [assumption|]. exists (mkNode (next nd) q (value nd)). rewrite hupd_same.
  repeat split; try assumption. cbn [next]. now apply seg_frame.
Qed.

Lemma seg_in_nonzero h : forall xs a p c x, seg h a p xs c -> In x (map fst xs) -> x <> 0.
Proof.
  induction xs as [|[y v] xs IH]; simpl; intros a p c x H Hin; [contradiction|].
  destruct H as [_ [Hy [nd [_ [_ [_ Hs]]]]]]. destruct Hin as [<-|Hin]; [assumption|]. eapply IH; eassumption.
Qed.

Lemma seg_in_alloc h : forall xs a p c x, seg h a p xs c -> In x (map fst xs) -> exists nd, h x = Some nd.
Proof.
  induction xs as [|[y v] xs IH]; simpl; intros a p c x H Hin; [contradiction|].
  destruct H as [_ [Hy [nd [Hh [_ [_ Hs]]]]]]. destruct Hin as [<-|Hin]; [eauto|]. eapply IH; eassumption.
Qed.

Lemma seg_first h x v xs a p c : seg h a p ((x, v) :: xs) c ->
  a = x /\ exists nd, h x = Some nd /\ value nd = v /\ seg h (next nd) (Some x) xs c
                      /\ match p with Some q => prev nd = q | None => True end.
Proof. simpl. intros [-> [_ [nd [Hh [Hv [Hp Hs]]]]]]. split; [reflexivity|]. exists nd. auto. Qed.

Lemma repr_first h l xs : repr h l xs -> first l = first_addr xs.
Proof. intros [Hs _ _ _]. destruct xs as [|[x v] xs]; simpl in *; [assumption|tauto]. Qed.

Lemma repr_empty : repr empty_heap empty_list [].
Proof. split; simpl; [reflexivity|reflexivity|reflexivity|constructor]. Qed.

Lemma repr_nonempty_nonzero h l x v xs : repr h l ((x, v) :: xs) -> first l <> 0 /\ last l <> 0.
Proof.
  intros R. pose proof (repr_first _ _ _ R) as Hf. destruct R as [Hs Hl _ _]. simpl in Hf. split.
  - rewrite Hf. eapply seg_in_nonzero; [exact Hs|]. now left.
  - rewrite Hl. eapply seg_in_nonzero; [exact Hs|]. apply last_addr_in. discriminate.
Qed.

(** ** push refines [xs ++ [(a, v)]] *)
Theorem push_refines h l xs a v :
  repr h l xs -> a <> 0 -> h a = None ->
  exists h' l', push h l a v = Some (h', l', true) /\ repr h' l' (xs ++ [(a, v)]) /\
                (forall x, x <> a -> ~ In x (map fst xs) -> h' x = h x).
Proof.
  intros R Ha Hfree.
  assert (Hfresh : ~ In a (map fst xs)).
  { intros Hin. destruct R as [Hs _ _ _]. destruct (seg_in_alloc _ _ _ _ _ _ Hs Hin) as [nd E]. congruence. }
  unfold push. destruct (Nat.eqb_spec a 0) as [|_]; [contradiction|].
  destruct xs as [|[x0 w0] xs0] using rev_ind; [|clear IHxs0].
  - (* empty list *)
    destruct R as [Hs Hl Hc ND]. simpl in Hs. unfold last_addr in Hl. simpl in Hl. rewrite Hl. simpl.
    eexists _, _. split; [reflexivity|]. split.
    + split; cbn [first last count app].
      * simpl. split; [reflexivity|]. split; [assumption|]. exists (mkNode 0 0 v). rewrite hupd_same. auto.
      * reflexivity.
      * now rewrite Hc.
      * simpl. constructor; [tauto|constructor].
    + intros x Hx _. now rewrite hupd_other.
  - (* non-empty: the old last node x0 gets next := a *)
    destruct R as [Hs Hl Hc ND]. rewrite last_addr_snoc in Hl.
    assert (Hx0 : x0 <> 0). { eapply seg_in_nonzero; [exact Hs|]. rewrite map_app, in_app_iff. right. now left. }
    assert (Hx0a : x0 <> a). { intros ->. apply Hfresh. rewrite map_app, in_app_iff. right. now left. }
    rewrite Hl. destruct (Nat.eqb_spec x0 0) as [|_]; [contradiction|].
    destruct (seg_in_alloc _ _ _ _ _ x0 Hs) as [ln Hln]; [rewrite map_app, in_app_iff; right; now left|].
    rewrite hupd_other by assumption. rewrite Hln.
    rewrite hupd_other by congruence. rewrite hupd_same. cbn [value].
    eexists _, _. split; [reflexivity|]. split.
    + split; cbn [first last count].
      * apply seg_app. exists a. split.
        -- apply seg_frame; [exact Hfresh|].
           assert (Hs1 : seg (hupd h a (Some (mkNode 0 0 v))) (first l) None (xs0 ++ [(x0, w0)]) 0) by (apply seg_frame; assumption).
           eapply (seg_set_end _ xs0 (first l) None x0 w0 0 a ln) in Hs1; [exact Hs1|exact ND|].
           now rewrite hupd_other by assumption.
        -- rewrite last_or_snoc. simpl. split; [reflexivity|]. split; [assumption|].
           exists (mkNode 0 x0 v). rewrite hupd_same. auto.
      * now rewrite last_addr_snoc.
      * rewrite !app_length in *. simpl in *. lia.
      * rewrite map_app. simpl.
        apply Permutation_NoDup with (l := a :: map fst (xs0 ++ [(x0, w0)])); [apply Permutation_cons_append|].
        constructor; assumption.
    + intros x Hx Hnx. rewrite hupd_other by assumption. rewrite hupd_other.
      * now rewrite hupd_other.
      * intros ->. apply Hnx. rewrite map_app, in_app_iff. right. now left.
Qed.

(** a failed allocation changes nothing *)
Lemma push_alloc_failure h l v : push h l 0 v = Some (h, l, false).
Proof. reflexivity. Qed.

(** ** remove refines deletion of that node *)
Theorem remove_refines h l pre n v post :
  repr h l (pre ++ (n, v) :: post) ->
  exists h' l', remove h l n = Some (h', l', Some v) /\ h' n = None /\ repr h' l' (pre ++ post).
Proof.
  intros R.
  assert (Hne : first l <> 0 /\ last l <> 0).
  { destruct pre as [|[p0 q0] pre0]; eapply repr_nonempty_nonzero; exact R. }
  destruct R as [Hs Hl Hc ND].
  assert (Hn0 : n <> 0).
  { eapply seg_in_nonzero; [exact Hs|]. rewrite map_app, in_app_iff. right. now left. }
  pose proof Hs as Hs0. apply seg_app in Hs. destruct Hs as [b [Hpre Hrest]].
  apply seg_first in Hrest. destruct Hrest as [-> [nd [Hh [Hv [Hpost Hp]]]]].
  assert (NDn : ~ In n (map fst pre) /\ ~ In n (map fst post)).
  { rewrite map_app in ND. simpl in ND. apply NoDup_remove_2 in ND. rewrite in_app_iff in ND. tauto. }
  assert (NDpp : NoDup (map fst (pre ++ post))).
  { rewrite map_app in *. simpl in ND. now apply NoDup_remove_1 in ND. }
  unfold remove.
  destruct (Nat.eqb_spec (first l) 0) as [|_]; [tauto|]. destruct (Nat.eqb_spec (last l) 0) as [|_]; [tauto|]. cbn [orb].
  destruct (Nat.eqb_spec n 0) as [|_]; [contradiction|].
  destruct pre as [|[x0 v0] pre'] using rev_ind; [|clear IHpre'].
  - (* n is the first node *)
    simpl in Hpre. subst n. rewrite Nat.eqb_refl. cbn [andb app] in *.
    destruct post as [|[y u] post'] using rev_ind; [|clear IHpost'].
    + (* ... and the last: the list becomes empty *)
      unfold last_addr in Hl. simpl in Hl. rewrite <- Hl, Nat.eqb_refl in *. rewrite Hh. cbn [first last count].
      eexists _, _. split; [now rewrite Hv|]. split; [apply hupd_same|].
      split; cbn [first last count]; [reflexivity|reflexivity| simpl in Hc |- *; lia | constructor].
    + (* first but not last: first := next; the new first node keeps a dangling prev *)
      assert (Hfl : first l <> last l).
      { rewrite Hl. rewrite app_comm_cons, last_addr_snoc. intros E. apply (proj2 NDn). rewrite E, map_app, in_app_iff. right. now left. }
      destruct (Nat.eqb_spec (first l) (last l)); [contradiction|]. rewrite Hh. cbn [first last count]. rewrite Hh.
      eexists _, _. split; [now rewrite Hv|]. split; [apply hupd_same|].
      split; cbn [first last count].
      * apply seg_frame; [tauto|]. eapply seg_forget_prev. exact Hpost.
      * rewrite Hl. now rewrite app_comm_cons, !last_addr_snoc.
      * simpl in Hc. rewrite Hc. reflexivity.
      * assumption.
  - (* n is not the first node: prev nd = x0, the last node of pre *)
    rewrite last_or_snoc in Hp. simpl in Hp.
    assert (Hfirst : first l <> n).
    { intros E. apply (proj1 NDn). rewrite <- E. apply seg_app in Hpre. destruct Hpre as [b' [H1 _]].
      destruct pre' as [|[z w] pre'']; simpl in H1.
      - destruct H1. subst. rewrite map_app, in_app_iff. right. simpl.
        apply seg_app in Hs0. destruct Hs0 as [b2 [H3 _]]. simpl in H3. destruct H3 as [-> _]. now left.
      - destruct H1 as [-> _]. now left. }
    destruct (Nat.eqb_spec n (first l)); [congruence|]. cbn [andb].
    assert (Hx0n : x0 <> n).
    { intros ->. apply (proj1 NDn). rewrite map_app, in_app_iff. right. now left. }
    assert (exists pn, h x0 = Some pn) as [pn Hpn].
    { apply seg_app in Hpre. destruct Hpre as [b' [_ H2]]. simpl in H2. destruct H2 as [_ [_ [pn [Hh' _]]]]. eauto. }
    destruct post as [|[y u] post'].
    + (* n is the last node: the new last is x0, its next becomes NULL *)
      rewrite app_nil_r in *. rewrite last_addr_snoc in Hl. rewrite Hl, Nat.eqb_refl, Hh, Hp, Hpn. cbn [first last count].
      rewrite hupd_other by congruence. rewrite Hh.
      eexists _, _. split; [now rewrite Hv|]. split; [apply hupd_same|].
      split; cbn [first last count].
      * apply seg_frame; [exact (proj1 NDn)|].
        apply (seg_set_end h pre' (first l) None x0 v0 n 0 pn); [|exact Hpre|exact Hpn].
        rewrite map_app in ND. apply NoDup_app_l in ND. exact ND.
      * now rewrite last_addr_snoc.
      * rewrite app_length in Hc. simpl in Hc. lia.
      * assumption.
    + (* n is in the middle: splice x0 and y together *)
      assert (Hnl : n <> last l).
      { rewrite Hl. intros E. apply (proj2 NDn). rewrite E.
        replace ((pre' ++ [(x0, v0)]) ++ (n, v) :: (y, u) :: post') with (((pre' ++ [(x0, v0)]) ++ [(n, v)]) ++ (y, u) :: post')
          by (rewrite <- !app_assoc; reflexivity).
        rewrite last_addr_app by discriminate. apply last_addr_in. discriminate. }
      destruct (Nat.eqb_spec n (last l)); [congruence|].
      apply seg_first in Hpost. destruct Hpost as [Hny [an [Han [Hav [Hpost' Hanp]]]]].
      assert (Hyn : y <> n) by (intros ->; apply (proj2 NDn); now left).
      assert (Hyx0 : y <> x0).
      { intros ->. rewrite map_app in NDpp. rewrite map_app in NDpp. simpl in NDpp.
        rewrite <- app_assoc in NDpp. simpl in NDpp. apply NoDup_remove_2 in NDpp. apply NDpp.
        rewrite in_app_iff. right. now left. }
      rewrite Hh, Hny, Han, Hp. rewrite hupd_other by congruence. rewrite Hpn.
      rewrite hupd_other by congruence. rewrite hupd_other by congruence. rewrite Hh.
      eexists _, _. split; [now rewrite Hv|]. split; [apply hupd_same|].
      split; cbn [first last count].
      * apply seg_frame; [rewrite map_app, in_app_iff; tauto|].
        apply seg_app. exists y. split.
        -- assert (Hy_pre : ~ In y (map fst (pre' ++ [(x0, v0)]))).
           { intros Hin. clear - Hin ND. rewrite map_app in ND. simpl in ND.
             assert (NoDup (map fst (pre' ++ [(x0, v0)]) ++ y :: map fst post')) as N2.
             { apply NoDup_remove_1 in ND. exact ND. }
             apply NoDup_remove_2 in N2. apply N2. rewrite in_app_iff. now left. }
           assert (Hseg1 : seg (hupd h y (Some (mkNode (next an) x0 (value an)))) (first l) None (pre' ++ [(x0, v0)]) n).
           { apply seg_frame; assumption. }
           apply (seg_set_end _ pre' (first l) None x0 v0 n y pn) in Hseg1.
           ++ exact Hseg1.
           ++ rewrite map_app in ND. apply NoDup_app_l in ND. exact ND.
           ++ rewrite hupd_other by congruence. exact Hpn.
        -- rewrite last_or_snoc.
           assert (Hx0_post : ~ In x0 (map fst ((y, u) :: post'))).
           { intros Hin. rewrite map_app in NDpp. rewrite map_app in NDpp. simpl in NDpp. rewrite <- app_assoc in NDpp. simpl in NDpp.
             apply NoDup_remove_2 in NDpp. apply NDpp. rewrite in_app_iff. right. exact Hin. }
           apply seg_frame; [exact Hx0_post|].
           assert (Hy_post : ~ In y (map fst post')).
           { rewrite map_app in NDpp. apply NoDup_app_r in NDpp. simpl in NDpp. now apply NoDup_cons_iff in NDpp. }
           assert (Hseg2 : seg h y (Some n) ((y, u) :: post') 0).
           { simpl. split; [reflexivity|]. split; [eapply seg_in_nonzero; [exact Hs0|]; rewrite map_app, in_app_iff; right; right; now left|].
             exists an. auto. }
           apply (seg_set_prev h y u post' x0 an (Some n) 0 Hy_post Hseg2 Han).
      * rewrite Hl. unfold last_addr. rewrite !rev_app_distr. simpl. rewrite <- !app_assoc. simpl.
        destruct (rev post') as [|[z w] r]; reflexivity.
      * rewrite !app_length in *. simpl in *. lia.
      * assumption.
Qed.

(** ** fetchNext refines "first element" / "successor" *)
Theorem fetch_first_refines h l xs : repr h l xs -> fetchNext h l 0 = Some (first_addr xs).
Proof.
  intros R. unfold fetchNext. destruct xs as [|[x v] xs].
  - destruct R as [Hs _ _ _]. simpl in Hs. rewrite Hs. reflexivity.
  - destruct (repr_nonempty_nonzero _ _ _ _ _ R) as [Hf Hl]. rewrite (repr_first _ _ _ R) in *. simpl in *.
    destruct (Nat.eqb_spec x 0); [contradiction|]. destruct (Nat.eqb_spec (last l) 0); [contradiction|]. reflexivity.
Qed.

Theorem fetch_next_refines h l pre n v post :
  repr h l (pre ++ (n, v) :: post) -> fetchNext h l n = Some (first_addr post).
Proof.
  intros R.
  assert (Hne : first l <> 0 /\ last l <> 0).
  { destruct pre as [|[p0 q0] pre0]; eapply repr_nonempty_nonzero; exact R. }
  destruct R as [Hs _ _ _].
  assert (Hn0 : n <> 0). { eapply seg_in_nonzero; [exact Hs|]. rewrite map_app, in_app_iff. right. now left. }
  apply seg_app in Hs. destruct Hs as [b [_ Hrest]]. apply seg_first in Hrest.
  destruct Hrest as [-> [nd [Hh [_ [Hpost _]]]]].
  unfold fetchNext. destruct (Nat.eqb_spec (first l) 0); [tauto|]. destruct (Nat.eqb_spec (last l) 0); [tauto|]. cbn [orb].
  destruct (Nat.eqb_spec n 0); [contradiction|]. rewrite Hh. f_equal.
  destruct post as [|[y u] post']; simpl in Hpost |- *; tauto.
Qed.

(** ** the traversal loop of tsrm.c:
    [curNode = NULL; while (NULL != (curNode = fetchNextNode(list, curNode))) { if (match curNode->value) goto FOUND; }]
    with the fuel the representation justifies.  Result [Some None] = not found, [Some (Some a)] = found at node [a]. *)
Fixpoint walk (fuel : nat) (h : heap) (l : dlist) (p : nat -> bool) (cur : addr) : option (option addr) :=
  match fuel with
  | O => None
  | S f =>
    match fetchNext h l cur with
    | None => None
    | Some 0 => Some None
    | Some c => match h c with
                | None => None
                | Some nd => if p (value nd) then Some (Some c) else walk f h l p c
                end
    end
  end.

Fixpoint find_first (p : nat -> bool) (xs : list (addr * nat)) : option addr :=
  match xs with [] => None | (x, v) :: xs' => if p v then Some x else find_first p xs' end.

Lemma walk_from h l p : forall post pre n v, repr h l (pre ++ (n, v) :: post) ->
  walk (S (length post)) h l p n = Some (find_first p post).
Proof.
  induction post as [|[y u] post IH]; intros pre n v R.
  - simpl. rewrite (fetch_next_refines _ _ _ _ _ _ R). reflexivity.
  - cbn [walk length]. rewrite (fetch_next_refines _ _ _ _ _ _ R). cbn [first_addr].
    assert (Hy : y <> 0 /\ exists nd, h y = Some nd /\ value nd = u).
    { destruct R as [Hs _ _ _]. apply seg_app in Hs. destruct Hs as [b [_ Hr]]. apply seg_first in Hr.
      destruct Hr as [_ [nd [_ [_ [Hp _]]]]]. simpl in Hp. destruct Hp as [_ [Hy0 [ny [Hhy [Hvy _]]]]]. eauto. }
    destruct Hy as [Hy0 [ny [Hhy Hvy]]]. destruct y as [|y']; [contradiction|]. rewrite Hhy, Hvy. cbn [find_first].
    destruct (p u); [reflexivity|].
    assert (R' : repr h l ((pre ++ [(n, v)]) ++ (S y', u) :: post)) by (rewrite <- app_assoc; exact R).
    exact (IH _ _ _ R').
Qed.

Theorem walk_refines h l p xs : repr h l xs -> walk (S (length xs)) h l p 0 = Some (find_first p xs).
Proof.
  intros R. cbn [walk]. rewrite (fetch_first_refines _ _ _ R). destruct xs as [|[x v] xs]; [reflexivity|].
  cbn [first_addr].
  assert (Hx : x <> 0 /\ exists nd, h x = Some nd /\ value nd = v).
  { destruct R as [Hs _ _ _]. simpl in Hs. destruct Hs as [_ [Hx0 [nd [Hh [Hv _]]]]]. eauto. }
  destruct Hx as [Hx0 [nd [Hh Hv]]]. destruct x as [|x']; [contradiction|]. rewrite Hh, Hv. cbn [find_first].
  destruct (p v); [reflexivity|]. exact (walk_from h l p xs [] (S x') v R).
Qed.

(** ** DList_refines: the three functions refine append / delete / successor on the abstract list, count = length *)
Theorem DList_refines h l xs : repr h l xs ->
  count l = length xs
  /\ (forall a v, a <> 0 -> h a = None ->
        exists h' l', push h l a v = Some (h', l', true) /\ repr h' l' (xs ++ [(a, v)]))
  /\ (forall pre n v post, xs = pre ++ (n, v) :: post ->
        exists h' l', remove h l n = Some (h', l', Some v) /\ h' n = None /\ repr h' l' (pre ++ post))
  /\ fetchNext h l 0 = Some (first_addr xs)
  /\ (forall pre n v post, xs = pre ++ (n, v) :: post -> fetchNext h l n = Some (first_addr post))
  /\ (forall p, walk (S (length xs)) h l p 0 = Some (find_first p xs)).
Proof.
  intros R. split; [apply R|]. split.
  - intros a v Ha Hf. destruct (push_refines h l xs a v R Ha Hf) as [h' [l' [E [R' _]]]]. eauto.
  - split; [intros pre n v post ->; now apply remove_refines|].
    split; [now apply fetch_first_refines|].
    split; [intros pre n v post ->; eapply fetch_next_refines; eassumption|].
    intros p. now apply walk_refines.
Qed.

(** ** executable sanity: the dangling prev after removing the first node is real and harmless *)
Definition run3 : option (heap * dlist) :=
  match push empty_heap empty_list 1 10 with
  | Some (h1, l1, _) =>
    match push h1 l1 2 20 with
    | Some (h2, l2, _) =>
      match push h2 l2 3 30 with
      | Some (h3, l3, _) =>
        match remove h3 l3 1 with
        | Some (h4, l4, _) => Some (h4, l4)
        | None => None
        end
      | None => None
      end
    | None => None
    end
  | None => None
  end.
Example dangling_prev_is_real :
  match run3 with
  | Some (h, l) => first l = 2 /\ option_map prev (h 2) = Some 1 /\ h 1 = None /\ count l = 2
  | None => False
  end.
Proof. vm_compute. repeat split. Qed.
