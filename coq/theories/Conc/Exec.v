(** Executable front of the C09 / C10 model for the extracted driver (ocaml/drv_conc.ml): macro steps at the
    granularity the schedule-forcing harness controls (one visible step = call start / pthread_once / lock / unlock /
    fork, followed by the thread's invisible steps up to its next visible one), and the fork experiment of C10. *)
From Coq Require Import List Arith Bool.
From Snoopy Require Import Conc.Tsrm.
Import ListNotations.

Definition vis (l : label) : bool := match l with LStart | LOnce | LLock | LUnlock | LFork => true | _ => false end.

Section Exec.
  Variable hs : handlers.

  Definition peek (t : tid) (s : state) : option label := match step hs t s with Next l _ => Some l | _ => None end.
  Definition faulted (t : tid) (s : state) : bool := match step hs t s with Fault => true | _ => false end.

  (** the invisible steps a thread performs without any other thread being able to tell *)
  Fixpoint settle (fuel : nat) (t : tid) (s : state) : state :=
    match fuel with
    | 0 => s
    | S f => match step hs t s with
             | Next l s' => if vis l then s else settle f t s'
             | _ => s
             end
    end.

  Definition macro (t : tid) (s : state) : option (label * state) :=
    match step hs t s with
    | Next l s' => Some (l, settle 8 t s')
    | _ => None
    end.

  Definition finished (s : state) (t : tid) : bool :=
    match pcs s t, todo s t with Out, [] => true | _, _ => false end.

  (** C10 experiment: thread 1 runs alone up to and including its [k]-th lock step, then thread 0 (whose program starts
      with Fork) tries to fork.  Result: was the fork step enabled at once, and does the child's next call complete. *)
  Fixpoint run_until_locks (fuel k : nat) (t : tid) (s : state) : state :=
    match fuel with
    | 0 => s
    | S f => match k with
             | 0 => s
             | S k' => match step hs t s with
                       | Next LLock s' => run_until_locks f k' t s'
                       | Next _ s' => run_until_locks f k t s'
                       | _ => s
                       end
             end
    end.
  Fixpoint run_to_pc_F2 (fuel : nat) (t : tid) (s : state) : option (state * bool) :=
    match fuel with
    | 0 => None
    | S f => match pcs s t with
             | F2 reg => Some (s, reg)
             | _ => match step hs t s with Next _ s' => run_to_pc_F2 f t s' | _ => None end
             end
    end.
  Fixpoint drain (fuel : nat) (t : tid) (s : state) : state :=     (* run t until it is blocked or finished *)
    match fuel with 0 => s | S f => match step hs t s with Next _ s' => drain f t s' | _ => s end end.
  Fixpoint child_completes (fuel : nat) (t : tid) (s : state) : bool :=
    match fuel with
    | 0 => false
    | S f => if finished s t then true else match step hs t s with Next _ s' => child_completes f t s' | _ => false end
    end.

  Definition fork_experiment (ops : list op) (k : nat) : option (bool * bool * bool) :=
    let progs := fun t => match t with 0 => [Fork; Call ops] | 1 => [Call ops] | _ => [] end in
    let s0 := init hs progs in
    let s1 := run_until_locks 4000 k 1 s0 in
    (* thread 0 starts its fork: LStart, then the prepare handler *)
    match step hs 0 s1 with
    | Next _ s2 =>
      let immediate := match step hs 0 s2 with Next _ _ => true | _ => false end in
      (* let thread 1 go on until thread 0 can take its step (it releases the mutex at its next unlock) *)
      let s3 := if immediate then s2 else drain 4000 1 s2 in
      match run_to_pc_F2 10 0 s3 with
      | Some (s4, reg) =>
        let c := child_of hs s4 0 reg in
        let parent_after := drain 4000 1 (drain 4000 0 (drain 4000 1 s4)) in
        Some (immediate, child_completes 4000 0 c,
              finished parent_after 0 && finished parent_after 1 && match repo parent_after, mtx parent_after with [], None => true | _, _ => false end)
      | None => None
      end
    | _ => None
    end.
End Exec.
