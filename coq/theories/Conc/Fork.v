(** C10: fork() in a thread that is outside the library, while the other threads are anywhere inside it.

    - every wrapped call takes a fixed number of its own steps ([call_steps]) and a thread running alone is never
      blocked ([alone_completes]);
    - with the handlers of the repaired code (prepare locks, parent unlocks, child re-initialises the mutex and empties
      the repository) the child of a fork that began after the library's one-time initialisation satisfies the
      invariant again, with an empty repository, so its next wrapped call runs to the real exec ([child_completes]);
      this covers children of children;
    - the parent is unaffected ([fork_steps_frame]);
    - without handlers, with a child handler that does not re-initialise the mutex, and for a fork that began BEFORE the
      one-time initialisation ran (the process's first wrapped call racing with the fork), there are reachable parent
      states whose child blocks for ever ([no_handlers_child_blocks], [unlocking_child_blocks], [first_call_race]). *)
From Coq Require Import List Arith Lia Bool.
From Snoopy Require Import Conc.Tsrm Conc.TsrmProofs.
Import ListNotations.

Definition op_steps (o : op) : nat := match o with OpCount => 3 | _ => 4 end.
Fixpoint body_steps (ops : list op) : nat := match ops with [] => 7 | o :: ops' => op_steps o + body_steps ops' end.

(** own steps left until the current call (or fork) returns *)
Definition call_steps (p : pc) : nat :=
  match p with
  | Out => 0
  | C0 ops => 5 + body_steps ops | C1 ops => 4 + body_steps ops | C2 ops => 3 + body_steps ops
  | C3 ops _ => 2 + body_steps ops | C4 ops => 1 + body_steps ops
  | W ops => body_steps ops
  | A2 _ ops => 3 + body_steps ops | A3 _ ops _ => 2 + body_steps ops | A4 _ ops _ => 1 + body_steps ops
  | K2 ops => 2 + body_steps ops | K3 ops => 1 + body_steps ops
  | D2 => 6 | D3 _ => 5 | D3b _ => 4 | D5 _ => 3 | D6 => 2 | D7 => 1
  | F1 => 3 | F2 _ => 2 | F3 _ => 1
  end.

Lemma body_steps_pos ops : 0 < body_steps ops.
Proof. induction ops as [|o ops IH]; simpl; lia. Qed.

Section Fork.
  Variable hs : handlers.
  Hypothesis Hpar : parent_ok hs = true.

  (** every step inside a call brings its thread exactly one step closer to the return, and leaves its program alone *)
  Lemma step_measure s t l s' : Inv hs s -> step hs t s = Next l s' -> pcs s t <> Out ->
    call_steps (pcs s t) = S (call_steps (pcs s' t)) /\ todo s' t = todo s t.
  Proof.
    intros I H Hne. destruct (I_thr hs s I t) as [_ [_ [_ T4]]].
    unfold step, lock_then, unlock_then, set_pc, set_mtx in H.
    destruct (pcs s t) as [ |ops|ops|ops|ops found|ops|ops|o ops|o ops h|o ops h|ops|ops| |h|h|u| | | |reg|reg] eqn:Hp;
      [contradiction|..]; cbn [handle_ok] in T4;
      try (destruct h as [u|]; [|try (rewrite andb_false_r in T4); discriminate]);
      step_cases H; try discriminate; injection H as <- <-; sfields; rewrite upd_same; cbn [call_steps body_steps op_steps];
      split; try reflexivity; try lia.
  Qed.

  (** [t] is the only thread inside the library *)
  Definition alone_ok (s : state) (t : tid) : Prop := Inv hs s /\ forall u, u <> t -> pcs s u = Out.

  Lemma alone_step s t : alone_ok s t -> pcs s t <> Out ->
    exists l s', step hs t s = Next l s' /\ alone_ok s' t /\ todo s' t = todo s t /\ call_steps (pcs s t) = S (call_steps (pcs s' t)).
  Proof.
    intros [I Hoth] Hne. destruct (step hs t s) as [| |l s'] eqn:Hs.
    - exfalso. apply (blocked_reason hs) in Hs; [|assumption]. destruct Hs as [[Hf _]|[_ [u [Hu Em]]]]; [contradiction|].
      apply (I_thr hs s I u) in Em. rewrite (Hoth u Hu) in Em. discriminate.
    - exfalso. eapply not_fault; eassumption.
    - exists l, s'. split; [reflexivity|]. destruct (step_measure s t l s' I Hs Hne) as [Hm Ht].
      split; [|auto]. split; [eapply step_inv; eassumption|].
      intros u Hu. destruct (step_frame hs t s l s' Hs u Hu) as [Hpc _]. rewrite Hpc. auto.
  Qed.

  Lemma call_steps_zero p : call_steps p = 0 -> p = Out.
  Proof. destruct p; simpl; try discriminate; try reflexivity; pose proof (body_steps_pos ops); lia. Qed.

  Lemma alone_completes : forall n s t, alone_ok s t -> call_steps (pcs s t) = n ->
    exists s', run_alone hs n t s = Some s' /\ pcs s' t = Out /\ todo s' t = todo s t /\ alone_ok s' t.
  Proof.
    induction n as [|n IH]; intros s t A Hn.
    - exists s. split; [reflexivity|]. split; [now apply call_steps_zero|]. auto.
    - assert (Hne : pcs s t <> Out) by (intros E; rewrite E in Hn; discriminate).
      destruct (alone_step s t A Hne) as [l [s1 [Hs [A1 [Ht Hm]]]]].
      assert (Hn1 : call_steps (pcs s1 t) = n) by lia.
      destruct (IH s1 t A1 Hn1) as [s' [R [P [T A']]]].
      exists s'. simpl. rewrite Hs. split; [assumption|]. split; [assumption|]. split; [congruence|assumption].
  Qed.

  (** a whole wrapped call of a thread that is alone: [6 + body_steps ops] steps from outside the library back to outside *)
  Theorem lone_call_completes s t ops rest : alone_ok s t -> pcs s t = Out -> todo s t = Call ops :: rest ->
    exists s', run_alone hs (6 + body_steps ops) t s = Some s' /\ pcs s' t = Out /\ todo s' t = rest /\ alone_ok s' t.
  Proof.
    intros [I Hoth] Hp Ht.
    assert (Hs : step hs t s = Next LStart (mkState (inited s) (mtx s) (repo s) (cnt s) (upd (pcs s) t (C0 ops)) (upd (todo s) t rest) (reads s) (counts s) (trace s))).
    { unfold step. now rewrite Hp, Ht. }
    set (s1 := mkState (inited s) (mtx s) (repo s) (cnt s) (upd (pcs s) t (C0 ops)) (upd (todo s) t rest) (reads s) (counts s) (trace s)) in *.
    assert (A1 : alone_ok s1 t).
    { split; [eapply step_inv; eassumption|]. intros u Hu. unfold s1. cbn [pcs]. rewrite upd_other by assumption. auto. }
    assert (Hc : call_steps (pcs s1 t) = 5 + body_steps ops) by (unfold s1; cbn [pcs]; now rewrite upd_same).
    destruct (alone_completes _ s1 t A1 Hc) as [s' [R [P [T A']]]].
    exists s'. change (6 + body_steps ops) with (S (5 + body_steps ops)). cbn [run_alone]. rewrite Hs.
    split; [assumption|]. split; [assumption|]. split; [|assumption].
    rewrite T. unfold s1. cbn [todo]. now rewrite upd_same.
  Qed.

  (** *** the child of a fork that ran the repaired handlers *)
  Hypothesis Hok : handlers_ok hs = true.

  Lemma child_clean s t : child_of hs s t true =
    mkState (inited s) None [] 0 (fun _ => Out) (fun u => if Nat.eqb u t then todo s t else [])
            (fun u => if Nat.eqb u t then reads s t else []) (fun u => if Nat.eqb u t then counts s t else [])
            (fun u => if Nat.eqb u t then trace s t else []).
  Proof.
    unfold handlers_ok in Hok. unfold child_of. destruct (h_child hs); try (rewrite andb_false_r in Hok; discriminate). reflexivity.
  Qed.

  Lemma child_inv s t : Inv hs s -> pcs s t = F2 true -> Inv hs (child_of hs s t true).
  Proof.
    intros I Hp. rewrite child_clean. split; sfields.
    - intros u. unfold tclause. simpl. repeat split; try discriminate; tauto.
    - now left.
    - constructor.
    - reflexivity.
    - simpl. tauto.
    - intros u. destruct (Nat.eqb u t); [apply (I_obs hs s I)|reflexivity].
  Qed.

  Lemma preachable_inv progs s : (forall s t, preachable hs progs s -> pcs s t = F2 false -> False) -> preachable hs progs s -> Inv hs s.
  Proof.
    intros Hreg R. induction R as [|s t l s' R IH Hs|s t reg R IH Hp].
    - apply inv_init.
    - eapply step_inv; eassumption.
    - destruct reg; [now apply child_inv|]. exfalso. eapply Hreg; eassumption.
  Qed.

  (** C10: from EVERY parent state, whatever the other threads are doing inside the library, the child of a fork whose
      handlers were registered runs its next wrapped call to the end: it reaches the real exec and is outside the library again *)
  Theorem child_completes s t ops rest : Inv hs s -> pcs s t = F2 true -> todo s t = Call ops :: rest ->
    exists c', run_alone hs (6 + body_steps ops) t (child_of hs s t true) = Some c' /\ pcs c' t = Out /\ todo c' t = rest
               /\ repo c' = [] /\ cnt c' = 0 /\ mtx c' = None.
  Proof.
    intros I Hp Ht.
    assert (A : alone_ok (child_of hs s t true) t).
    { split; [now apply child_inv|]. intros u _. rewrite child_clean. reflexivity. }
    assert (Hpc : pcs (child_of hs s t true) t = Out) by (rewrite child_clean; reflexivity).
    assert (Htd : todo (child_of hs s t true) t = Call ops :: rest) by (rewrite child_clean; cbn [todo]; now rewrite Nat.eqb_refl).
    destruct (lone_call_completes _ t ops rest A Hpc Htd) as [c' [R [P [T [I' Hoth]]]]].
    exists c'. split; [assumption|]. split; [assumption|]. split; [assumption|].
    (* everybody is outside the library in c' *)
    assert (Hall : forall u, pcs c' u = Out) by (intros u; destruct (Nat.eq_dec u t) as [->|Hu]; auto).
    assert (E : repo c' = []).
    { destruct (repo c') as [|x r] eqn:Er; [reflexivity|]. exfalso.
      destruct (I_thr hs c' I' (e_tid x)) as [_ [_ [T3 _]]]. rewrite Hall, Er in T3. simpl in T3.
      assert (false = true) by (apply T3; now left). discriminate. }
    split; [assumption|]. split; [rewrite (I_cnt hs c' I'), E; reflexivity|].
    destruct (I_mwf hs c' I') as [Em|[u Em]]; [assumption|].
    apply (I_thr hs c' I' u) in Em. rewrite Hall in Em. discriminate.
  Qed.
End Fork.

(** *** the parent: the steps of a fork touch nothing but the forking thread's program counter and the mutex *)
Lemma fork_steps_frame hs s t l s' : step hs t s = Next l s' ->
  match pcs s t with F1 | F2 _ | F3 _ => True | _ => False end ->
  repo s' = repo s /\ cnt s' = cnt s /\ inited s' = inited s /\ todo s' = todo s /\ reads s' = reads s /\ counts s' = counts s /\ trace s' = trace s
  /\ forall u, u <> t -> pcs s' u = pcs s u.
Proof.
  intros H Hp. unfold step, lock_then, unlock_then, set_pc, set_mtx in H.
  destruct (pcs s t) eqn:E; try contradiction; step_cases H; try discriminate; injection H as <- <-; sfields;
    repeat split; intros u Hu; now rewrite upd_other.
Qed.

Lemma run_sched_reachable hs progs : forall sch s, reachable hs progs s -> reachable hs progs (fst (run_sched hs sch s)).
Proof.
  induction sch as [|t sch IH]; intros s R; simpl; [assumption|].
  destruct (step hs t s) as [| |l s'] eqn:Hs; simpl; try assumption.
  specialize (IH s' (R_step hs progs s t l s' R Hs)). destruct (run_sched hs sch s'). exact IH.
Qed.

(** *** refutations kept for the search: what a child that blocks looks like *)
Definition progs_fork : tid -> list item := fun t => match t with 0 => [Fork; Call []] | 1 => [Call []] | _ => [] end.

(** no handlers (the code before the repair): thread 1 is inside the constructor's critical section, thread 0 forks *)
Definition bad_parent_no_handlers : state := fst (run_sched no_handlers [1; 1; 1; 0; 0] (init no_handlers progs_fork)).
Lemma no_handlers_child_blocks :
  exists s reg, reachable no_handlers progs_fork s /\ pcs s 0 = F2 reg /\ todo s 0 = [Call []] /\
                forall n, 3 <= n -> run_alone no_handlers n 0 (child_of no_handlers s 0 reg) = None.
Proof.
  exists bad_parent_no_handlers, true. split.
  - apply run_sched_reachable, R_init.
  - split; [vm_compute; reflexivity|]. split; [vm_compute; reflexivity|].
    intros n Hn. destruct n as [|[|[|n]]]; try lia. vm_compute. reflexivity.
Qed.

(** a child handler that unlocks instead of re-initialising: the owner recorded in the mutex is a thread of the parent,
    the unlock fails, and the child blocks after EVERY fork, even from a single-threaded parent *)
Definition unlocking_handlers := mkHandlers true true CUnlock false.
Definition progs_single : tid -> list item := fun t => match t with 0 => [Call []; Fork; Call []] | _ => [] end.
Definition parent_single : state := fst (run_sched unlocking_handlers (repeat 0 15) (init unlocking_handlers progs_single)).
Lemma unlocking_child_blocks :
  reachable unlocking_handlers progs_single parent_single /\ pcs parent_single 0 = F2 true /\
  forall n, 3 <= n -> run_alone unlocking_handlers n 0 (child_of unlocking_handlers parent_single 0 true) = None.
Proof.
  split.
  - apply run_sched_reachable, R_init.
  - split; [vm_compute; reflexivity|]. intros n Hn. destruct n as [|[|[|n]]]; try lia. vm_compute. reflexivity.
Qed.

(** the repaired handlers, but a fork that began before snoopy_tsrm_init ever ran (it registers the handlers): thread 0
    is already past the prepare phase when thread 1 makes the process's first wrapped call and stops in its critical section *)
Definition race_parent : state := fst (run_sched repaired_handlers [0; 0; 1; 1; 1] (init repaired_handlers progs_fork)).
Lemma first_call_race :
  reachable repaired_handlers progs_fork race_parent /\ pcs race_parent 0 = F2 false /\ todo race_parent 0 = [Call []] /\
  forall n, 3 <= n -> run_alone repaired_handlers n 0 (child_of repaired_handlers race_parent 0 false) = None.
Proof.
  split.
  - apply run_sched_reachable, R_init.
  - split; [vm_compute; reflexivity|]. split; [vm_compute; reflexivity|].
    intros n Hn. destruct n as [|[|[|n]]]; try lia. vm_compute. reflexivity.
Qed.

(** ... which cannot happen when the initialisation runs at load time: every fork then finds the handlers registered *)
Lemma step_keeps_registered hs s t l s' : inited s = true -> (forall u reg, pcs s u = F2 reg -> reg = true) ->
  step hs t s = Next l s' -> inited s' = true /\ forall u reg, pcs s' u = F2 reg -> reg = true.
Proof.
  intros IHi IHr Hs.
  assert (Hi' : inited s' = true).
  { unfold step, lock_then, unlock_then, set_pc, set_mtx in Hs. step_cases Hs; try discriminate; injection Hs as <- <-; sfields; auto. }
  split; [assumption|]. intros u reg Hp.
  destruct (Nat.eq_dec u t) as [->|Hu].
  - unfold step, lock_then, unlock_then, set_pc, set_mtx in Hs.
    destruct (pcs s t) eqn:E; step_cases Hs; try discriminate; injection Hs as <- <-; cbn [pcs] in Hp; rewrite upd_same in Hp;
      try discriminate; injection Hp as <-; try reflexivity; try assumption; try (eapply IHr; eassumption).
  - destruct (step_frame hs t s l s' Hs u Hu) as [Hpc _]. rewrite Hpc in Hp. eapply IHr; eassumption.
Qed.

Lemma preinit_always_registered hs progs s : parent_ok hs = true -> h_preinit hs = true -> reachable hs progs s ->
  inited s = true /\ forall t reg, pcs s t = F2 reg -> reg = true.
Proof.
  intros Hpar Hpre R. induction R as [|s t l s' R [IHi IHr] Hs].
  - split; [exact Hpre|]. intros t reg H. discriminate.
  - eapply step_keeps_registered; eassumption.
Qed.

(** *** the process tree: the first process and every child of a fork that found the handlers registered *)
Section Tree.
  Variable hs : handlers.
  Hypothesis Hpar : parent_ok hs = true.
  Hypothesis Hok : handlers_ok hs = true.
  Variable progs : tid -> list item.

  Inductive treachable : state -> Prop :=
  | T_init : treachable (init hs progs)
  | T_step : forall s t l s', treachable s -> step hs t s = Next l s' -> treachable s'
  | T_child : forall s t, treachable s -> pcs s t = F2 true -> treachable (child_of hs s t true).

  Lemma treachable_inv s : treachable s -> Inv hs s.
  Proof.
    induction 1 as [|s t l s' _ IH Hs|s t _ IH Hp]; [apply inv_init|eapply step_inv; eassumption|now apply child_inv].
  Qed.

  (** with load-time initialisation EVERY process of the tree (children created by ANY fork included) satisfies the
      invariant, is initialised, and all its forks find the handlers registered *)
  Lemma preachable_good : h_preinit hs = true -> forall s, preachable hs progs s ->
    Inv hs s /\ inited s = true /\ forall t reg, pcs s t = F2 reg -> reg = true.
  Proof.
    intros Hpre s R. induction R as [|s t l s' R [IHv [IHi IHr]] Hs|s t reg R [IHv [IHi IHr]] Hp].
    - split; [apply inv_init|]. split; [exact Hpre|]. intros t reg H. discriminate.
    - split; [eapply step_inv; eassumption|]. eapply step_keeps_registered; eassumption.
    - assert (reg = true) by (eapply IHr; eassumption). subst reg.
      split; [now apply child_inv|]. rewrite child_clean by assumption. cbn [inited pcs]. split; [assumption|]. intros u reg H. discriminate.
  Qed.

  Theorem child_completes_always s t reg ops rest : h_preinit hs = true -> preachable hs progs s ->
    pcs s t = F2 reg -> todo s t = Call ops :: rest ->
    exists c', run_alone hs (6 + body_steps ops) t (child_of hs s t reg) = Some c' /\ pcs c' t = Out /\ todo c' t = rest
               /\ repo c' = [] /\ cnt c' = 0 /\ mtx c' = None.
  Proof.
    intros Hpre R Hp Ht. destruct (preachable_good Hpre s R) as [I [_ Hr]].
    assert (reg = true) by (eapply Hr; eassumption). subst reg. now apply child_completes.
  Qed.

  (** children of children included *)
  Theorem child_completes_tree s t ops rest : treachable s -> pcs s t = F2 true -> todo s t = Call ops :: rest ->
    exists c', run_alone hs (6 + body_steps ops) t (child_of hs s t true) = Some c' /\ pcs c' t = Out /\ todo c' t = rest
               /\ repo c' = [] /\ cnt c' = 0 /\ mtx c' = None.
  Proof. intros R. apply child_completes; try assumption. now apply treachable_inv. Qed.
End Tree.

(** *** each thread's ghost trace is a prefix of its own program: the operations it has performed on its own cells, in
    program order, and nothing else *)
Definition evs_of_ops (ops : list op) : list tev := map EvOp (filter not_count ops).
Definition evs_of_item (i : item) : list tev := match i with Call ops => EvNew :: evs_of_ops ops | Fork => [] end.
Definition pending (p : pc) : list tev :=
  match p with
  | C0 ops | C1 ops | C2 ops => EvNew :: evs_of_ops ops
  | C3 ops b => (if b then [] else [EvNew]) ++ evs_of_ops ops
  | C4 ops | W ops | K2 ops | K3 ops => evs_of_ops ops
  | A2 o ops | A3 o ops _ | A4 o ops _ => evs_of_ops (o :: ops)
  | _ => []
  end.
Definition own_prog (s : state) (t : tid) : list tev := trace s t ++ pending (pcs s t) ++ flat_map evs_of_item (todo s t).

Lemma own_prog_step hs s t l s' u : Inv hs s -> step hs t s = Next l s' -> own_prog s' u = own_prog s u.
Proof.
  intros I H. destruct (Nat.eq_dec u t) as [->|Hu].
  - destruct (I_thr hs s I t) as [_ [_ [T3 _]]].
    unfold own_prog. unfold step, lock_then, unlock_then, set_pc, set_mtx in H.
    destruct (pcs s t) eqn:E; step_cases H; try discriminate; injection H as <- <-; sfields; rewrite ?upd_same;
      cbn [pending evs_of_ops evs_of_item flat_map filter map not_count app]; rewrite <- ?app_assoc; try reflexivity.
    (* the constructor's traversal never finds an entry of the calling thread *)
    destruct (has_tid t (repo s)) eqn:Eh; [exfalso|reflexivity].
    apply has_tid_in in Eh. apply T3 in Eh. discriminate.
  - unfold own_prog. destruct (step_frame hs t s l s' H u Hu) as [-> [-> [_ [_ ->]]]]. reflexivity.
Qed.

Theorem trace_is_own_program hs progs s t : parent_ok hs = true -> reachable hs progs s -> own_prog s t = flat_map evs_of_item (progs t).
Proof.
  intros Hpar. induction 1 as [|s u l s' R IH Hs]; [reflexivity|].
  now rewrite (own_prog_step hs s u l s' t (reachable_inv hs Hpar progs s R) Hs).
Qed.

(** C09 isolation in its final form: when a thread has finished, everything it read back through its accessors is what
    its own program gives when run alone: a function of that thread's program only, not of the other threads or the schedule *)
Theorem isolated_final hs progs s t : parent_ok hs = true -> reachable hs progs s -> pcs s t = Out -> todo s t = [] ->
  reads s t = snd (alone (flat_map evs_of_item (progs t))).
Proof.
  intros Hpar R Hp Ht. rewrite (reads_alone hs Hpar progs s t R).
  rewrite <- (trace_is_own_program hs progs s t Hpar R). unfold own_prog. rewrite Hp, Ht. simpl. now rewrite app_nil_r.
Qed.
