(** T2 for C09 / C10: the lock-skeleton language in which [vlib/tr_conc.py] writes every function of [src/tsrm.c]
    (from clang's AST), the hand model's expectation for each of them, and the computed obligations

      - [skeleton_matches]  : the normalised generated skeletons ARE the expected ones (two small trees compared);
      - [discipline_ok]     : along every path from every API function, with calls inlined and constant flag arguments
                              resolved, every access to the repository happens at lock depth >= 1 and every function
                              returns at the depth it was entered with;
      - [handlers_of]       : the atfork handlers registered by snoopy_tsrm_init, recognised as one of the handler
                              kinds of [Conc/Tsrm.v];
      - [call_labels]       : the linearisation of one wrapped call, to be compared with the labels of the model's run;
      - [globals_ok]        : classification of every static-storage object of the library ([Gen_Globals]).

    Anything the translator does not recognise is [KOther]; no predicate below accepts it. *)
From Coq Require Import String Ascii ZArith List Bool Arith.
From Snoopy Require Import Conc.Tsrm.
Import ListNotations.
Local Open Scope string_scope.
Local Open Scope list_scope.

Inductive karg := KInt (z : Z) | KParam (i : nat) | KOpaque.
Inductive kcond := CParamNe (i : nat) (z : Z) | CParamEq (i : nat) (z : Z) | COther.

Inductive lk :=
| KOnce (ctl fn : string)
| KLock (m : string) | KUnlock (m : string) | KMutexInit (m : string)
| KMutexType (attr ty : string)             (* pthread_mutexattr_settype(&attr, ty) *)
| KAtfork (prepare parent child : string)
| KListOp (op lst : string)
| KCall (f : string) (args : list karg)
| KExt (f : string)
| KGlobal (g fld : string) (w : bool)
| KIf (c : kcond) (t e : list lk)
| KLoop (head body : list lk)
| KReturn | KGoto (l : string) | KLabel (l : string) | KContinue | KBreak
| KOther (what : string).

Record lkfn := { lk_name : string; lk_nparams : nat; lk_body : list lk }.

(** ** equality test *)
Definition karg_eqb (a b : karg) : bool :=
  match a, b with KInt x, KInt y => Z.eqb x y | KParam i, KParam j => Nat.eqb i j | KOpaque, KOpaque => true | _, _ => false end.
Definition kcond_eqb (a b : kcond) : bool :=
  match a, b with
  | CParamNe i x, CParamNe j y | CParamEq i x, CParamEq j y => Nat.eqb i j && Z.eqb x y
  | COther, COther => true
  | _, _ => false
  end.
Fixpoint list_eqb {A} (eqb : A -> A -> bool) (x y : list A) : bool :=
  match x, y with [], [] => true | a :: x', b :: y' => eqb a b && list_eqb eqb x' y' | _, _ => false end.

Fixpoint lk_eqb (a b : lk) {struct a} : bool :=
  let fix l_eqb (x y : list lk) {struct x} : bool :=
      match x, y with [], [] => true | a' :: x', b' :: y' => lk_eqb a' b' && l_eqb x' y' | _, _ => false end in
  match a, b with
  | KOnce c f, KOnce c' f' => String.eqb c c' && String.eqb f f'
  | KLock m, KLock m' | KUnlock m, KUnlock m' | KMutexInit m, KMutexInit m' => String.eqb m m'
  | KMutexType a t, KMutexType a' t' => String.eqb a a' && String.eqb t t'
  | KAtfork p q r, KAtfork p' q' r' => String.eqb p p' && String.eqb q q' && String.eqb r r'
  | KListOp o l, KListOp o' l' => String.eqb o o' && String.eqb l l'
  | KCall f args, KCall f' args' => String.eqb f f' && list_eqb karg_eqb args args'
  | KExt f, KExt f' => String.eqb f f'
  | KGlobal g f w, KGlobal g' f' w' => String.eqb g g' && String.eqb f f' && Bool.eqb w w'
  | KIf c t e, KIf c' t' e' => kcond_eqb c c' && l_eqb t t' && l_eqb e e'
  | KLoop h b', KLoop h' b'' => l_eqb h h' && l_eqb b' b''
  | KReturn, KReturn | KContinue, KContinue | KBreak, KBreak => true
  | KGoto l, KGoto l' | KLabel l, KLabel l' => String.eqb l l'
  | KOther w, KOther w' => String.eqb w w'
  | _, _ => false
  end.
Definition lks_eqb : list lk -> list lk -> bool := list_eqb lk_eqb.

Section LkInd.
  Variable P : lk -> Prop.
  Hypothesis Honce : forall c f, P (KOnce c f).
  Hypothesis Hlock : forall m, P (KLock m).
  Hypothesis Hunlock : forall m, P (KUnlock m).
  Hypothesis Hminit : forall m, P (KMutexInit m).
  Hypothesis Hmtype : forall a t, P (KMutexType a t).
  Hypothesis Hatfork : forall a b c, P (KAtfork a b c).
  Hypothesis Hlist : forall o l, P (KListOp o l).
  Hypothesis Hcall : forall f a, P (KCall f a).
  Hypothesis Hext : forall f, P (KExt f).
  Hypothesis Hglobal : forall g f w, P (KGlobal g f w).
  Hypothesis Hif : forall c t e, Forall P t -> Forall P e -> P (KIf c t e).
  Hypothesis Hloop : forall h b, Forall P h -> Forall P b -> P (KLoop h b).
  Hypothesis Hret : P KReturn.
  Hypothesis Hgoto : forall l, P (KGoto l).
  Hypothesis Hlabel : forall l, P (KLabel l).
  Hypothesis Hcont : P KContinue.
  Hypothesis Hbreak : P KBreak.
  Hypothesis Hother : forall w, P (KOther w).
  Fixpoint lk_ind' (a : lk) : P a :=
    let fix all (l : list lk) : Forall P l :=
        match l with [] => Forall_nil P | x :: l' => Forall_cons x (lk_ind' x) (all l') end in
    match a with
    | KOnce c f => Honce c f | KLock m => Hlock m | KUnlock m => Hunlock m | KMutexInit m => Hminit m
    | KMutexType a t => Hmtype a t
    | KAtfork a b c => Hatfork a b c | KListOp o l => Hlist o l | KCall f a => Hcall f a | KExt f => Hext f
    | KGlobal g f w => Hglobal g f w
    | KIf c t e => Hif c t e (all t) (all e)
    | KLoop h b => Hloop h b (all h) (all b)
    | KReturn => Hret | KGoto l => Hgoto l | KLabel l => Hlabel l | KContinue => Hcont | KBreak => Hbreak
    | KOther w => Hother w
    end.
End LkInd.

Lemma karg_eqb_eq a b : karg_eqb a b = true -> a = b.
Proof.
  destruct a, b; simpl; try discriminate; intros H; try reflexivity.
  - apply Z.eqb_eq in H. now subst.
  - apply Nat.eqb_eq in H. now subst.
Qed.
Lemma kcond_eqb_eq a b : kcond_eqb a b = true -> a = b.
Proof.
  destruct a, b; simpl; try discriminate; intros H; try reflexivity;
    apply andb_true_iff in H as [H1 H2]; apply Nat.eqb_eq in H1; apply Z.eqb_eq in H2; now subst.
Qed.
Lemma list_eqb_eq {A} (eqb : A -> A -> bool) (x : list A) :
  Forall (fun a => forall b, eqb a b = true -> a = b) x -> forall y, list_eqb eqb x y = true -> x = y.
Proof.
  induction 1 as [|a x Ha _ IH]; intros [|b y]; simpl; try discriminate; [reflexivity|].
  intros H. apply andb_true_iff in H as [H1 H2]. f_equal; [now apply Ha | now apply IH].
Qed.
Lemma list_eqb_eq' {A} (eqb : A -> A -> bool) : (forall a b, eqb a b = true -> a = b) -> forall x y, list_eqb eqb x y = true -> x = y.
Proof. intros H x. apply list_eqb_eq. apply Forall_forall. intros a _. apply H. Qed.

Definition inner_eqb : list lk -> list lk -> bool :=
  fix l_eqb (x y : list lk) {struct x} : bool :=
    match x, y with [], [] => true | a' :: x', b' :: y' => lk_eqb a' b' && l_eqb x' y' | _, _ => false end.
Lemma inner_eqb_eq (x : list lk) :
  Forall (fun a => forall b, lk_eqb a b = true -> a = b) x -> forall y, inner_eqb x y = true -> x = y.
Proof.
  induction 1 as [|a x Ha _ IH]; intros [|b y]; simpl; try discriminate; [reflexivity|].
  intros H. apply andb_true_iff in H as [H1 H2]. f_equal; [now apply Ha | now apply IH].
Qed.

Lemma lk_eqb_eq : forall a b, lk_eqb a b = true -> a = b.
Proof.
  induction a using lk_ind'; intros b0 E; destruct b0; simpl in E; try discriminate;
    repeat match goal with H : _ && _ = true |- _ => apply andb_true_iff in H as [? ?] end;
    repeat match goal with
           | H : String.eqb _ _ = true |- _ => apply String.eqb_eq in H; subst
           | H : Bool.eqb _ _ = true |- _ => apply Bool.eqb_prop in H; subst
           | H : kcond_eqb _ _ = true |- _ => apply kcond_eqb_eq in H; subst
           | H : list_eqb karg_eqb _ _ = true |- _ => apply (list_eqb_eq' _ karg_eqb_eq) in H; subst
           end; try reflexivity.
  - f_equal; apply inner_eqb_eq; assumption.
  - f_equal; apply inner_eqb_eq; assumption.
Qed.
Lemma lks_eqb_eq x y : lks_eqb x y = true -> x = y.
Proof. apply list_eqb_eq'. exact lk_eqb_eq. Qed.

(** ** normal form: private work dropped *)
Definition str_in (s : string) (l : list string) : bool := existsb (String.eqb s) l.

(** calls that touch only the calling thread's own memory or take no shared state (allocation, identity) *)
Definition private_calls : list string :=
  ["malloc"; "calloc"; "free"; "pthread_self"; "pthread_equal"; "pthread_mutexattr_init"; "pthread_mutexattr_settype";
   "snoopy_configuration_setUninitialized"; "snoopy_inputdatastorage_setUninitialized"].

Fixpoint norm1 (a : lk) : list lk :=
  let fix norms (l : list lk) : list lk := match l with [] => [] | x :: l' => norm1 x ++ norms l' end in
  match a with
  | KExt f => if str_in f private_calls then [] else [a]
  | KGlobal _ "&" _ => []                      (* address handed to a pthread_* / attr call: accounted for in Gen_Globals *)
  | KIf c t e => match norms t, norms e with [], [] => [] | t', e' => [KIf c t' e'] end
  | KLoop h b => match norms h, norms b with [], [] => [] | h', b' => [KLoop h' b'] end
  | _ => [a]
  end.
Definition norm (l : list lk) : list lk := flat_map norm1 l.

(** ** what the hand model expects of each function of tsrm.c *)
Definition M := "snoopy_tsrm_threadRepo_mutex".
Definition R := "snoopy_tsrm_threadRepo".
Definition traversal : lk :=
  KLoop [KListOp "fetchNextNode" R] [KIf COther [KContinue] []; KIf COther [KBreak] []].
(* `goto FOUND;` with `FOUND:` right behind the loop and `break;` are the same exit: the translator writes KBreak for both *)

Definition expected_core : list (string * nat * list lk) :=
  [ ("snoopy_tsrm_ctor", 0,
     [KOnce "snoopy_tsrm_init_onceControl" "snoopy_tsrm_init"; KCall "snoopy_tsrm_getCurrentThreadId" [];
      KLock M; KCall "snoopy_tsrm_doesThreadRepoEntryExist" [KOpaque; KInt 1];
      KIf COther [KCall "snoopy_tsrm_createNewThreadData" [KOpaque]; KListOp "push" R] [];
      KUnlock M]);
    ("snoopy_tsrm_dtor", 0,
     [KCall "snoopy_tsrm_getCurrentThreadRepoEntry" []; KIf COther [KReturn] [];
      KLock M; KListOp "remove" R; KUnlock M; KReturn]);
    ("snoopy_tsrm_doesThreadRepoEntryExist", 2,
     [KIf (CParamNe 1 1) [KLock M] []; traversal; KIf (CParamNe 1 1) [KUnlock M] []; KReturn]);
    ("snoopy_tsrm_createNewThreadData", 1, [KReturn]);
    ("snoopy_tsrm_getCurrentThreadId", 0, [KReturn]);
    ("snoopy_tsrm_getCurrentThreadRepoEntry", 0,
     [KCall "snoopy_tsrm_getCurrentThreadId" []; KLock M; traversal; KUnlock M; KReturn]);
    ("snoopy_tsrm_getCurrentThreadData", 0,
     [KCall "snoopy_tsrm_getCurrentThreadRepoEntry" []; KIf COther [KReturn] []; KReturn]);
    ("snoopy_tsrm_get_configuration", 0, [KCall "snoopy_tsrm_getCurrentThreadData" []; KReturn]);
    ("snoopy_tsrm_get_inputdatastorage", 0, [KCall "snoopy_tsrm_getCurrentThreadData" []; KReturn]);
    ("snoopy_tsrm_get_threadCount", 0, [KLock M; KGlobal R "count" false; KUnlock M; KReturn]) ].

(** snoopy_tsrm_init with / without the atfork registration; the handlers are judged by [handlers_of] *)
Definition init_with_atfork (p a c : string) : list lk := [KMutexInit M; KAtfork p a c].
Definition init_plain : list lk := [KMutexInit M].

Fixpoint find_fn (fns : list lkfn) (name : string) : option lkfn :=
  match fns with [] => None | f :: fns' => if String.eqb (lk_name f) name then Some f else find_fn fns' name end.

Definition fn_matches (fns : list lkfn) (e : string * nat * list lk) : bool :=
  let '(name, np, body) := e in
  match find_fn fns name with
  | Some f => Nat.eqb (lk_nparams f) np && lks_eqb (norm (lk_body f)) body
  | None => false
  end.

(** the atfork registration found in snoopy_tsrm_init *)
Definition atfork_of (fns : list lkfn) : option (option (string * string * string)) :=
  match find_fn fns "snoopy_tsrm_init" with
  | Some f =>
    match norm (lk_body f) with
    | [KMutexType _ _; KMutexInit m] => if String.eqb m M then Some None else None
    | [KMutexType _ _; KMutexInit m; KAtfork p a c] => if String.eqb m M then Some (Some (p, a, c)) else None
    | _ => None
    end
  | None => None
  end.

Definition handler_names (fns : list lkfn) : list string :=
  match atfork_of fns with Some (Some (p, a, c)) => filter (fun s => negb (String.eqb s "")) [p; a; c] | _ => [] end.

(** functions carrying __attribute__((constructor)): accepted only when all they do is the pthread_once call of the constructor *)
Definition once_call : lk := KOnce "snoopy_tsrm_init_onceControl" "snoopy_tsrm_init".
Definition is_load_init (fns : list lkfn) (name : string) : bool :=
  match find_fn fns name with
  | Some f => Nat.eqb (lk_nparams f) 0 && lks_eqb (norm (lk_body f)) [once_call]
  | None => false
  end.
Definition preinit_of (fns : list lkfn) (ctors : list string) : bool := existsb (is_load_init fns) ctors.

(** optional guards: a libc function that takes a libc-internal lock, called with the repository mutex held and nothing else
    (the fork handlers hold that mutex across fork(), so no thread is inside the libc function on the library's behalf at that instant) *)
Definition libc_guards : list (string * list string) :=
  [("snoopy_tsrm_localtime_r", ["localtime_r"]); ("snoopy_tsrm_strftime", ["strftime"]);
   ("snoopy_tsrm_getutline", ["setutent"; "getutline_r"; "endutent"])].
Definition is_libc_guard (fns : list lkfn) (name : string) : bool :=
  match find (fun g => String.eqb (fst g) name) libc_guards, find_fn fns name with
  | Some (_, libc), Some f => lks_eqb (norm (lk_body f)) ([KLock M] ++ map KExt libc ++ [KUnlock M; KReturn])
  | _, _ => false
  end.
Definition guard_names (fns : list lkfn) : list string := filter (is_libc_guard fns) (map fst libc_guards).

Definition known_names (fns : list lkfn) (ctors : list string) : list string :=
  map (fun e => fst (fst e)) expected_core ++ ["snoopy_tsrm_init"] ++ handler_names fns ++ filter (is_load_init fns) ctors ++ guard_names fns.

(** every expected function is present and equal; snoopy_tsrm_init has one of its two shapes; no further function
    (but a load-time constructor that only performs the pthread_once call) *)
Definition skeleton_matches (fns : list lkfn) (ctors : list string) : bool :=
  forallb (fn_matches fns) expected_core
  && match atfork_of fns with Some _ => true | None => false end
  && forallb (fun f => str_in (lk_name f) (known_names fns ctors)) fns
  && forallb (is_load_init fns) ctors.

Lemma skeleton_matches_fn fns ctors name np body :
  skeleton_matches fns ctors = true -> In (name, np, body) expected_core ->
  exists f, find_fn fns name = Some f /\ lk_nparams f = np /\ norm (lk_body f) = body.
Proof.
  unfold skeleton_matches. intros H Hin. apply andb_true_iff in H as [H _]. apply andb_true_iff in H as [H _]. apply andb_true_iff in H as [H _].
  rewrite forallb_forall in H. specialize (H _ Hin). unfold fn_matches in H.
  destruct (find_fn fns name) as [f|]; [|discriminate]. apply andb_true_iff in H as [H1 H2].
  exists f. split; [reflexivity|]. split; [now apply Nat.eqb_eq|now apply lks_eqb_eq].
Qed.

(** ** atfork handlers, recognised as handler kinds of the model *)
Definition body_of (fns : list lkfn) (name : string) : option (list lk) :=
  if String.eqb name "" then Some [] else option_map (fun f => norm (lk_body f)) (find_fn fns name).

Definition clear_repo : list lk :=
  [KGlobal R "first" false; KGlobal R "first" true; KGlobal R "last" true; KGlobal R "count" true].

Definition handlers_of (fns : list lkfn) (ctors : list string) : option handlers :=
  match atfork_of fns with
  | None => None
  | Some None => Some (mkHandlers false false CNone (preinit_of fns ctors))
  | Some (Some (p, a, c)) =>
    match body_of fns p, body_of fns a, body_of fns c with
    | Some bp, Some ba, Some bc =>
      let pr := if lks_eqb bp [KLock M] then Some true else if lks_eqb bp [] then Some false else None in
      let pa := if lks_eqb ba [KUnlock M] then Some true else if lks_eqb ba [] then Some false else None in
      let ch := if lks_eqb bc (KMutexInit M :: clear_repo) then Some CReinitClear
                else if lks_eqb bc [KMutexInit M] then Some CReinit
                else if lks_eqb bc [KUnlock M] then Some CUnlock
                else if lks_eqb bc [] then Some CNone else None in
      match pr, pa, ch with
      | Some x, Some y, Some z => Some (mkHandlers x y z (preinit_of fns ctors))
      | _, _, _ => None
      end
    | _, _, _ => None
    end
  end.

(** ** lock discipline: abstract interpretation with inlining *)
Definition subst_arg (args : list karg) (a : karg) : karg :=
  match a with KParam i => nth i args KOpaque | _ => a end.

Definition shared_fields : list string := ["first"; "last"; "count"; ""].

(** result: [None] = not in the disciplined fragment; [Some (d, bad)] = depth after the statement list, number of
    repository accesses seen at depth 0.  [d0] entry depth of the current function, [dl] depth at the innermost loop. *)
Fixpoint disc (fuel : nat) (fns : list lkfn) (args : list karg) (d0 : nat) (dl : option nat) (d : nat) (body : list lk)
  : option (nat * nat * bool) :=   (* depth, bad accesses, diverged (ended in a jump) *)
  match fuel with
  | O => None
  | S fuel' =>
    match body with
    | [] => Some (d, 0, false)
    | s :: rest =>
      let continue_with (d' bad : nat) :=
          match disc fuel' fns args d0 dl d' rest with
          | Some (d2, bad2, dv) => Some (d2, bad + bad2, dv)
          | None => None
          end in
      match s with
      | KOnce _ _ | KExt _ | KMutexInit _ | KMutexType _ _ | KAtfork _ _ _ | KLabel _ => continue_with d 0
      | KLock m => if String.eqb m M then continue_with (S d) 0 else None
      | KUnlock m => if String.eqb m M then match d with S d' => continue_with d' 0 | O => None end else None
      | KListOp _ l => if String.eqb l R then continue_with d (match d with O => 1 | _ => 0 end) else None
      | KGlobal g f _ => if String.eqb g R && str_in f shared_fields && negb (String.eqb f "")
                         then continue_with d (match d with O => 1 | _ => 0 end)
                         else if String.eqb g R then continue_with d 0       (* the pointer variable itself: never written *)
                         else None
      | KCall f cargs =>
        match find_fn fns f with
        | Some fn =>
          match disc fuel' fns (map (subst_arg args) cargs) d None d (lk_body fn) with
          | Some (d', bad, _) => if Nat.eqb d' d then continue_with d bad else None
          | None => None
          end
        | None => None
        end
      | KIf c t e =>
        let branch := match c with
                      | CParamNe i z => match nth i args KOpaque with KInt z' => Some (negb (Z.eqb z z')) | _ => None end
                      | CParamEq i z => match nth i args KOpaque with KInt z' => Some (Z.eqb z z') | _ => None end
                      | COther => None
                      end in
        match branch with
        | Some true => match disc fuel' fns args d0 dl d t with
                       | Some (d', bad, false) => continue_with d' bad
                       | Some (d', bad, true) => Some (d', bad, true)
                       | None => None
                       end
        | Some false => match disc fuel' fns args d0 dl d e with
                        | Some (d', bad, false) => continue_with d' bad
                        | Some (d', bad, true) => Some (d', bad, true)
                        | None => None
                        end
        | None =>
          match disc fuel' fns args d0 dl d t, disc fuel' fns args d0 dl d e with
          | Some (d1, b1, dv1), Some (d2, b2, dv2) =>
            if dv1 && dv2 then Some (d1, b1 + b2, true)
            else if dv1 then continue_with d2 (b1 + b2)
            else if dv2 then continue_with d1 (b1 + b2)
            else if Nat.eqb d1 d2 then continue_with d1 (b1 + b2) else None
          | _, _ => None
          end
        end
      | KLoop h b =>
        match disc fuel' fns args d0 (Some d) d (h ++ b) with
        | Some (d', bad, dv) => if dv || Nat.eqb d' d then continue_with d bad else None
        | None => None
        end
      | KReturn => if Nat.eqb d d0 then Some (d, 0, true) else None
      | KGoto _ | KContinue | KBreak => match dl with Some x => if Nat.eqb d x then Some (d, 0, true) else None | None => None end
      | KOther _ => None
      end
    end
  end.

Definition api_fns : list string :=
  ["snoopy_tsrm_ctor"; "snoopy_tsrm_dtor"; "snoopy_tsrm_get_configuration"; "snoopy_tsrm_get_inputdatastorage"; "snoopy_tsrm_get_threadCount"].

Definition disc_fn (fns : list lkfn) (name : string) : option (nat * nat) :=
  match find_fn fns name with
  | Some f => match disc 200 fns (repeat KOpaque (lk_nparams f)) 0 None 0 (lk_body f) with
              | Some (d, bad, _) => Some (d, bad)
              | None => None
              end
  | None => None
  end.

Definition discipline_ok (fns : list lkfn) : bool :=
  forallb (fun n => match disc_fn fns n with Some (0, 0) => true | _ => false end) (api_fns ++ guard_names fns).

(** ** linearisation of one wrapped call (the lone-run path), for comparison with the labels of the model *)
Definition is_traversal (h : list lk) : bool := match h with [KListOp "fetchNextNode" l] => String.eqb l R | _ => false end.

(** [path]: the outcome of each opaque [if], in order of occurrence.  Result: labels, remaining path, returned? *)
Fixpoint lin (fuel : nat) (fns : list lkfn) (args : list karg) (path : list bool) (body : list lk)
  : option (list label * list bool * bool) :=
  match fuel with
  | O => None
  | S fuel' =>
    match body with
    | [] => Some ([], path, false)
    | s :: rest =>
      let continue_with (ls : list label) (path' : list bool) :=
          match lin fuel' fns args path' rest with
          | Some (ls2, p2, r) => Some (ls ++ ls2, p2, r)
          | None => None
          end in
      match s with
      | KOnce _ _ => continue_with [LOnce] path
      | KLock _ => continue_with [LLock] path
      | KUnlock _ => continue_with [LUnlock] path
      | KListOp "push" _ => continue_with [LPush] path
      | KListOp "remove" _ => continue_with [LRemove] path
      | KGlobal _ "count" false => continue_with [LCount] path
      | KLoop h _ => if is_traversal h then continue_with [LLookup] path else None
      | KExt _ | KLabel _ | KMutexInit _ | KMutexType _ _ | KAtfork _ _ _ => continue_with [] path
      | KCall f cargs =>
        match find_fn fns f with
        | Some fn => match lin fuel' fns (map (subst_arg args) cargs) path (norm (lk_body fn)) with
                     | Some (ls, p', _) => continue_with ls p'
                     | None => None
                     end
        | None => None
        end
      | KIf c t e =>
        let branch := match c with
                      | CParamNe i z => match nth i args KOpaque with KInt z' => Some (negb (Z.eqb z z'), path) | _ => None end
                      | CParamEq i z => match nth i args KOpaque with KInt z' => Some (Z.eqb z z', path) | _ => None end
                      | COther => match path with b :: p' => Some (b, p') | [] => None end
                      end in
        match branch with
        | Some (b, p') =>
          match lin fuel' fns args p' (if b then t else e) with
          | Some (ls, p2, true) => Some (ls, p2, true)
          | Some (ls, p2, false) => continue_with ls p2
          | None => None
          end
        | None => None
        end
      | KReturn => Some ([], path, true)
      | _ => None
      end
    end
  end.

Definition lin_fn (fns : list lkfn) (name : string) (path : list bool) : option (list label) :=
  match find_fn fns name with
  | Some f => match lin 200 fns (repeat KOpaque (lk_nparams f)) path (norm (lk_body f)) with
              | Some (ls, [], _) => Some ls
              | _ => None
              end
  | None => None
  end.

Definition accessor_of (o : op) : string :=
  match o with
  | OpWrite Cfg _ | OpRead Cfg => "snoopy_tsrm_get_configuration"
  | OpWrite Ids _ | OpRead Ids => "snoopy_tsrm_get_inputdatastorage"
  | OpCount => "snoopy_tsrm_get_threadCount"
  end.

Fixpoint opt_concat {A} (l : list (option (list A))) : option (list A) :=
  match l with
  | [] => Some []
  | None :: _ => None
  | Some x :: l' => match opt_concat l' with Some y => Some (x ++ y) | None => None end
  end.

(** lone run: the constructor does not find an entry (push), every later lookup finds it *)
Definition call_labels (fns : list lkfn) (ops : list op) : option (list label) :=
  opt_concat (lin_fn fns "snoopy_tsrm_ctor" [true]
              :: map (fun o => match o with
                               | OpCount => lin_fn fns (accessor_of o) []
                               | _ => lin_fn fns (accessor_of o) [false]
                               end) ops
              ++ [lin_fn fns "snoopy_tsrm_dtor" [false]]).

Definition visible (l : label) : bool := match l with LStart | LPriv | LFork => false | _ => true end.
Definition model_labels (ops : list op) : list label :=
  let s0 := init repaired_handlers (fun t => match t with 0 => [Call ops] | _ => [] end) in
  filter visible (map snd (snd (run_sched repaired_handlers (repeat 0 (20 + 4 * length ops)) s0))).

Definition probe_ops : list op := [OpWrite Cfg 1; OpRead Ids; OpCount; OpRead Cfg; OpWrite Ids 2].
Definition label_eq_dec : forall x y : label, {x = y} + {x <> y}.
Proof. decide equality. Defined.
Definition label_eqb (x y : label) : bool := if label_eq_dec x y then true else false.
Lemma label_eqb_eq x y : label_eqb x y = true -> x = y.
Proof. unfold label_eqb. destruct (label_eq_dec x y); [auto|discriminate]. Qed.
Definition model_follows (fns : list lkfn) : bool :=
  match call_labels fns probe_ops, call_labels fns [] with
  | Some a, Some b => list_eqb label_eqb a (model_labels probe_ops) && list_eqb label_eqb b (model_labels [])
  | _, _ => false
  end.

(** ** Gen_Globals: every object with static storage duration *)
Record acc := mkAcc { a_file : string; a_fn : string; a_kind : string; a_detail : string }.
Record gobj := mkGobj { g_name : string; g_scope : string; g_file : string; g_type : string; g_const : bool; g_tls : bool;
                        g_init_addr_of : string; g_accs : list acc }.

Fixpoint suffix_mut (s : string) : bool :=      (* detail ends with ":mut" *)
  match s with
  | EmptyString => false
  | String c s' => String.eqb s ":mut" || suffix_mut s'
  end.
Fixpoint prefix (p s : string) : bool :=
  match p, s with
  | EmptyString, _ => true
  | String a p', String b s' => Ascii.eqb a b && prefix p' s'
  | _, EmptyString => false
  end.

Definition sync_callees : list string := ["pthread_once"; "pthread_mutex_lock"; "pthread_mutex_unlock"].
Definition sync_init_callees : list string := ["pthread_mutex_init"; "pthread_mutexattr_init"; "pthread_mutexattr_settype"; "pthread_mutexattr_destroy"].
Definition callee_in (d : string) (l : list string) : bool := existsb (fun c => prefix (c ++ ":")%string d) l.

Definition is_write (a : acc) : bool :=
  String.eqb (a_kind a) "write" || String.eqb (a_kind a) "escape" || (String.eqb (a_kind a) "arg" && suffix_mut (a_detail a)).
Definition is_pointee_access (a : acc) : bool :=
  String.eqb (a_kind a) "arrow_read" || String.eqb (a_kind a) "arrow_write" || String.eqb (a_kind a) "valarg".

(** function reference graph: everything reachable from the two wrappers; functions stored in static tables count as reachable *)
Definition refs_of (g : list (string * list string)) (f : string) : list string :=
  match find (fun e => String.eqb (fst e) f) g with Some e => snd e | None => [] end.
Fixpoint add_new (seen : list string) (l : list string) : list string :=
  match l with [] => seen | x :: l' => if str_in x seen then add_new seen l' else add_new (x :: seen) l' end.
Fixpoint closure (fuel : nat) (g : list (string * list string)) (seen : list string) : list string :=
  match fuel with
  | O => seen
  | S f => let seen' := add_new seen (flat_map (refs_of g) seen) in
           if Nat.eqb (length seen') (length seen) then seen else closure f g seen'
  end.
Definition wrapper_roots : list string := ["execv"; "execve"].
Definition reachable_fns (g : list (string * list string)) (data_refs : list string) : list string :=
  closure (length g + 2) g (add_new wrapper_roots data_refs).

Inductive protection := PImmutable | PPerThread | PNeverWritten | PBeforeInit | PSyncObject | PMutex.

Section Classify.
  Variable fns : list lkfn.
  Variable globals : list gobj.
  Variable reach : list string.
  Variable inlined : list string.      (* static helpers of tsrm.c spliced into their pinned callers by the translator *)

  Definition once_fn : string := "snoopy_tsrm_init".
  Definition single_thread_fns : list string :=      (* the atfork child handler runs in a process that has one thread *)
    match atfork_of fns with Some (Some (_, _, c)) => [c] | _ => [] end.
  (** snoopy_tsrm_init is referenced by the pthread_once call of the constructor (and of a load-time initialiser that
      consists of that call) and nowhere else *)
  Definition once_only (ctors : list string) (refs : list (string * list string)) : bool :=
    forallb (fun e => negb (str_in once_fn (snd e)) || String.eqb (fst e) "snoopy_tsrm_ctor")
            (filter (fun e => negb (str_in (fst e) ctors && is_load_init fns (fst e))) refs).

  (** accesses to the object a never-written pointer designates count as accesses to that object *)
  Definition pointers_to (g : gobj) : list gobj :=
    filter (fun p => String.eqb (g_init_addr_of p) (g_name g) && negb (String.eqb (g_name g) "")
                     && negb (existsb is_write (g_accs p))) globals.
  Definition eff_accs (g : gobj) : list acc := g_accs g ++ flat_map (fun p => filter is_pointee_access (g_accs p)) (pointers_to g).
  Definition pointee_written (a : acc) : bool :=
    String.eqb (a_kind a) "arrow_write" || (String.eqb (a_kind a) "valarg" && negb (callee_in (a_detail a) ["snoopy_util_list_fetchNextNode"; "strcmp"; "strlen"])).
  Definition own_accs (g : gobj) : list acc := filter (fun a => negb (is_pointee_access a)) (g_accs g).

  Definition in_tsrm (a : acc) : bool := String.eqb (a_file a) "src/tsrm.c".

  Definition classify (g : gobj) : option protection :=
    let own := own_accs g in
    let eff := eff_accs g in
    let writes := filter (fun a => is_write a || (negb (String.eqb (g_name g) "") && existsb (fun p => true) (pointers_to g) && is_pointee_access a && pointee_written a)) eff in
    if g_const g then Some PImmutable
    (* a thread-local object is harmless only while no wrapped call writes it: per-thread state that a call leaves behind outlives the call
       ("once all calls have returned the library holds no per-thread state") *)
    else if g_tls g && forallb (fun a => negb (str_in (a_fn a) reach)) (filter is_write eff) then Some PPerThread
    else if g_tls g then None
    else if forallb (fun a => String.eqb (a_kind a) "arg"
                              && (callee_in (a_detail a) sync_callees
                                  || (callee_in (a_detail a) sync_init_callees && (String.eqb (a_fn a) once_fn || str_in (a_fn a) single_thread_fns)))) eff
            && negb (match eff with [] => true | _ => false end)
         then Some PSyncObject
    else match writes with
         | [] => Some PNeverWritten
         | _ =>
           if forallb (fun a => negb (str_in (a_fn a) reach)) writes then Some PBeforeInit
           else if forallb in_tsrm eff && existsb (fun p => String.eqb (g_name p) R) (pointers_to g) && discipline_ok fns
                   && forallb (fun a => str_in (a_fn a) (map (fun e => fst (fst e)) expected_core) || str_in (a_fn a) single_thread_fns || str_in (a_fn a) inlined) eff
                then Some PMutex
           else None
         end.

  Definition unprotected : list string :=
    flat_map (fun g => match classify g with Some _ => [] | None => [(g_name g ++ "@" ++ g_file g ++ (if String.eqb (g_scope g) "" then "" else ":" ++ g_scope g))%string] end) globals.
  Definition globals_ok : bool := match unprotected with [] => true | _ => false end.
End Classify.

(** nm's view of the compiled objects: every mutable data symbol is one of the objects the AST walk found *)
Fixpoint strip_suffix (s : string) : string :=     (* "login.0" -> "login" *)
  match s with
  | EmptyString => EmptyString
  | String c s' => if Ascii.eqb c "."%char then EmptyString else String c (strip_suffix s')
  end.
Definition nm_agrees (globals : list gobj) (nm_symbols unresolved : list string) : bool :=
  forallb (fun s => existsb (fun g => String.eqb (g_name g) (strip_suffix s)) globals) nm_symbols
  && match unresolved with [] => true | _ => false end.

Lemma flat_map_nil_inv {A B} (f : A -> list B) (l : list A) : flat_map f l = [] -> forall x, In x l -> f x = [].
Proof.
  induction l as [|a l IH]; simpl; intros H x Hin; [contradiction|].
  apply app_eq_nil in H as [H1 H2]. destruct Hin as [<-|Hin]; [assumption|now apply IH].
Qed.
Lemma globals_ok_all fns gl reach inl :
  globals_ok fns gl reach inl = true -> forall g, In g gl -> exists p, classify fns gl reach inl g = Some p.
Proof.
  unfold globals_ok, unprotected. intros H g Hin.
  destruct (classify fns gl reach inl g) as [p|] eqn:E; [eauto|]. exfalso.
  destruct (flat_map _ gl) eqn:F; [|discriminate].
  pose proof (flat_map_nil_inv _ _ F g Hin) as Hg. cbv beta in Hg. rewrite E in Hg. discriminate.
Qed.

(** ** C10: every lock of the library is one the fork handlers take care of *)
Fixpoint contains (sub s : string) : bool :=
  match s with
  | EmptyString => prefix sub s
  | String _ s' => prefix sub s || contains sub s'
  end.
Definition lock_types : list string :=
  ["pthread_mutex_t"; "pthread_rwlock_t"; "pthread_spinlock_t"; "pthread_cond_t"; "pthread_barrier_t"; "sem_t"; "mtx_t"; "atomic_flag"].
Definition is_lock_object (g : gobj) : bool := existsb (fun ty => contains ty (g_type g)) lock_types.
Definition lock_objects (globals : list gobj) : list string := map g_name (filter is_lock_object globals).

(** the mutexes the registered handlers hold across fork() (prepare locks, parent unlocks) and re-initialise in the child *)
Definition covered_locks (fns : list lkfn) : list string :=
  match atfork_of fns with
  | Some (Some (p, a, c)) =>
    match body_of fns p, body_of fns a, body_of fns c with
    | Some [KLock m1], Some [KUnlock m2], Some (KMutexInit m3 :: _) => if String.eqb m1 m2 && String.eqb m2 m3 then [m1] else []
    | _, _, _ => []
    end
  | _ => []
  end.
Definition all_locks_covered (fns : list lkfn) (globals : list gobj) : bool :=
  list_eqb String.eqb (lock_objects globals) (covered_locks fns) && list_eqb String.eqb (covered_locks fns) [M].

(** functions that take a lock of any kind (also on objects without static storage, also file locks) are functions of tsrm.c that the
    skeleton obligation pins; nothing else in the library or the entry point locks anything *)
Definition locking_calls : list string :=
  ["pthread_mutex_lock"; "pthread_mutex_trylock"; "pthread_mutex_timedlock"; "pthread_mutex_clocklock"; "pthread_rwlock_rdlock"; "pthread_rwlock_wrlock";
   "pthread_rwlock_tryrdlock"; "pthread_rwlock_trywrlock"; "pthread_spin_lock"; "pthread_spin_trylock"; "pthread_cond_wait"; "pthread_cond_timedwait";
   "pthread_barrier_wait"; "sem_wait"; "sem_timedwait"; "mtx_lock"; "flock"; "lockf"; "flockfile"; "ftrylockfile"].
(** [inlined]: file-local static helpers of tsrm.c whose bodies the translator spliced into their (pinned) callers *)
Definition locking_confined (fns : list lkfn) (ctors inlined : list string) (refs : list (string * list string)) : bool :=
  forallb (fun e => negb (existsb (fun f => str_in f locking_calls) (snd e)) || str_in (fst e) (known_names fns ctors) || str_in (fst e) inlined) refs.

Lemma all_locks_covered_spec fns globals : all_locks_covered fns globals = true ->
  forall g, In g globals -> is_lock_object g = true -> g_name g = M /\ covered_locks fns = [M].
Proof.
  unfold all_locks_covered. intros H g Hin Hl. apply andb_true_iff in H as [H1 H2].
  apply (list_eqb_eq' String.eqb (fun a b => proj1 (String.eqb_eq a b))) in H1.
  apply (list_eqb_eq' String.eqb (fun a b => proj1 (String.eqb_eq a b))) in H2.
  split; [|assumption]. rewrite H2 in H1.
  assert (Hm : In (g_name g) (lock_objects globals)).
  { unfold lock_objects. apply in_map. apply filter_In. auto. }
  rewrite H1 in Hm. destruct Hm as [E|[]]. now symmetry.
Qed.

(** ** the repository mutex is of the recursive type: a thread that already owns it (an error reported from inside a lock window, a signal
    handler that forks while its thread is inside one) gets through a second lock instead of blocking on itself *)
Definition mutex_recursive (fns : list lkfn) : bool :=
  match find_fn fns "snoopy_tsrm_init" with
  | Some f => match norm (lk_body f) with
              | KMutexType a ty :: KMutexInit m :: _ => String.eqb a "snoopy_tsrm_threadRepo_mutexAttr" && String.eqb ty "PTHREAD_MUTEX_RECURSIVE" && String.eqb m M
              | _ => false
              end
  | None => false
  end.

(** ** libc functions with hidden process-wide state: a static result buffer or position shared by all threads (C09), guarded - if at all - by a
    libc-internal lock that fork() neither takes nor resets, so that a child forked while another thread is inside one of them blocks in its own
    call (C10).  No function that a wrapped call can reach may reference one of them. *)
Definition hidden_state_libc : list string :=
  ["getpwuid"; "getpwnam"; "getgrgid"; "getgrnam"; "getpwent"; "getgrent"; "setpwent"; "endpwent"; "setgrent"; "endgrent"; "getlogin"; "ttyname"; "cuserid";
   "localtime"; "gmtime"; "ctime"; "asctime"; "strtok"; "strerror"; "strsignal"; "readdir";
   "syslog"; "vsyslog"; "openlog"; "closelog"; "setlogmask";
   "gethostbyname"; "gethostbyname2"; "gethostbyaddr"; "gethostent"; "getservbyname"; "getservbyport"; "getservent"; "getprotobyname"; "getprotobynumber"; "getnetbyname";
   "inet_ntoa"; "ether_ntoa"; "ether_aton"; "crypt"; "tmpnam"; "tempnam"; "mktemp"; "ptsname"; "getutent"; "getutid"; "getutline"; "pututline";
   "rand"; "srand"; "random"; "srandom"; "drand48"; "lrand48"; "mrand48"; "ecvt"; "fcvt"; "gcvt"; "l64a"; "getopt"; "getdate"; "hsearch"; "nl_langinfo";
   "setlocale"; "setenv"; "putenv"; "unsetenv"; "clearenv"; "getmntent"; "fgetgrent"; "fgetpwent"; "getspnam"; "getspent"; "basename_r_unsafe"].
Definition hidden_state_calls (refs : list (string * list string)) (reach : list string) : list string :=
  flat_map (fun e => if str_in (fst e) reach
                     then map (fun f => (fst e ++ " -> " ++ f)%string) (filter (fun f => str_in f hidden_state_libc) (snd e))
                     else []) refs.
Definition libc_calls_reentrant (refs : list (string * list string)) (reach : list string) : bool :=
  match hidden_state_calls refs reach with [] => true | _ => false end.
Lemma libc_calls_reentrant_spec refs reach : libc_calls_reentrant refs reach = true ->
  forall f callees g, In (f, callees) refs -> str_in f reach = true -> In g callees -> str_in g hidden_state_libc = false.
Proof.
  unfold libc_calls_reentrant, hidden_state_calls. intros H f callees g Hin Hr Hg.
  destruct (flat_map _ refs) eqn:F; [|discriminate].
  pose proof (flat_map_nil_inv _ _ F (f, callees) Hin) as E. cbv beta in E. cbn [fst snd] in E. rewrite Hr in E.
  destruct (str_in g hidden_state_libc) eqn:Eg; [|reflexivity]. exfalso.
  assert (In g (filter (fun f0 => str_in f0 hidden_state_libc) callees)) as Hf by (apply filter_In; auto).
  apply (in_map (fun f0 => (f ++ " -> " ++ f0)%string)) in Hf. rewrite E in Hf. contradiction.
Qed.

(** libc functions that are reentrant but take a libc-internal lock which fork() does not reset (the timezone lock: localtime_r, mktime, tzset,
    strftime for %s / %Z, ...; the utmp lock: setutent, getutline_r, endutent, ...): a wrapped call may reach them only through a guard
    ([libc_guards]).  [tz_unguarded] lists the reachable callers that are not guards. *)
Definition tz_lock_calls : list string :=
  ["localtime_r"; "mktime"; "tzset"; "ctime_r"; "timelocal"; "localtime_rz"; "strptime"; "strftime"; "strftime_l"; "wcsftime";
   "setutent"; "endutent"; "getutline_r"; "getutent_r"; "getutid_r"; "pututline"; "updwtmp"; "logwtmp"; "utmpname";
   "setutxent"; "endutxent"; "getutxline"; "getutxent"; "getutxid"; "pututxline"].
Definition tz_unguarded (fns : list lkfn) (refs : list (string * list string)) (reach : list string) : list string :=
  flat_map (fun e => if str_in (fst e) reach && existsb (fun f => str_in f tz_lock_calls) (snd e) && negb (str_in (fst e) (guard_names fns))
                     then [fst e] else []) refs.

(** ** every function of tsrm.c that takes the repository mutex gives it back on every path: each function, analysed on its own (calls inlined),
    returns at the lock depth it was entered with - also on early returns.  The two fork handlers that hold the mutex across fork() by design
    (prepare takes it, parent releases it) are judged by [handlers_of]; the helper with the "already locked" flag is analysed for both flag values. *)
Definition balanced_fn (fns : list lkfn) (f : lkfn) (args : list karg) : bool :=
  match disc 200 fns args 0 None 0 (norm (lk_body f)) with Some (0, _, _) => true | _ => false end.
Definition balanced_ok (fns : list lkfn) : bool :=
  forallb (fun f =>
             if str_in (lk_name f) (handler_names fns) then true
             else if String.eqb (lk_name f) "snoopy_tsrm_doesThreadRepoEntryExist"
                  then balanced_fn fns f [KOpaque; KInt 1] && balanced_fn fns f [KOpaque; KInt 0]
                  else balanced_fn fns f (repeat KOpaque (lk_nparams f))) fns.
