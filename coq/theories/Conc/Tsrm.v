(** C09 (b) / C10: interleaving model of [src/tsrm.c] (thread-safe build).

    One recursive mutex (owner, depth) initialised through [pthread_once], the thread repository (abstract list of
    entries keyed by thread id; [Conc/DList.v] shows that [util/list.c] refines this list), its count field, and one
    program counter per thread.  Any number of threads, any number of wrapped calls per thread, any number of
    accessor calls per wrapped call, any schedule.  Atomic steps at the granularity

        once_init | lock | unlock | list operation under the lock | private action

    with the lock / unlock placement of each tsrm function (tied to the source by [Conc/LockSkel.v]:
    [skeleton_matches]).  A thread program is a list of items: a wrapped exec call with the accessor operations
    performed between constructor and destructor, or a [fork()] issued outside the library; the fork runs the
    atfork handlers found by the translator ([handlers]).

    [step] returns [Blocked] (waiting for the mutex, or finished), [Fault] (the C program would have undefined
    behaviour: uninitialised mutex, NULL / dangling entry pointer) or [Next label state].  *)
From Coq Require Import List Arith Lia Bool.
Import ListNotations.

Definition tid := nat.
Inductive cell := Cfg | Ids.
(** content of a per-thread cell; [None] = the "uninitialised" marker written by createNewThreadData *)
Definition val := option nat.
Inductive op := OpWrite (c : cell) (v : nat) | OpRead (c : cell) | OpCount.
Inductive item := Call (ops : list op) | Fork.

Record entry := mkEntry { e_tid : tid; e_cfg : val; e_ids : val }.
Inductive owner := Thr (t : tid) | Ghost.      (* Ghost: a thread of the parent process that does not exist in this process *)

Inductive child_kind := CNone | CUnlock | CReinit | CReinitClear.
Record handlers := mkHandlers { h_prepare : bool;          (* prepare handler locks the repository mutex *)
                                h_parent : bool;           (* parent handler unlocks it *)
                                h_child : child_kind;      (* what the child handler does *)
                                h_preinit : bool }.        (* snoopy_tsrm_init already runs when the library is loaded *)
Definition repaired_handlers := mkHandlers true true CReinitClear false.
Definition no_handlers := mkHandlers false false CNone false.

Inductive pc :=
| Out
| C0 (ops : list op)                    (* snoopy_tsrm_ctor entered; next: pthread_once *)
| C1 (ops : list op)                    (* next: lock *)
| C2 (ops : list op)                    (* holding; next: doesThreadRepoEntryExist (traversal) *)
| C3 (ops : list op) (found : bool)     (* holding; next: createNewThreadData + list_push unless found *)
| C4 (ops : list op)                    (* holding; next: unlock *)
| W  (ops : list op)                    (* inside the call, not holding; next: lock of the next accessor / of the dtor's lookup *)
| A2 (o : op) (ops : list op)           (* getCurrentThreadRepoEntry: holding; next: traversal *)
| A3 (o : op) (ops : list op) (h : option tid)   (* holding; next: unlock *)
| A4 (o : op) (ops : list op) (h : option tid)   (* released; next: use the returned pointer (private) *)
| K2 (ops : list op)                    (* get_threadCount: holding; next: read count *)
| K3 (ops : list op)                    (* holding; next: unlock *)
| D2                                    (* tsrm_dtor's getCurrentThreadRepoEntry: holding; next: traversal *)
| D3 (h : option tid)                   (* holding; next: unlock *)
| D3b (h : option tid)                  (* released; NULL -> return, else next: lock *)
| D5 (u : tid)                          (* holding; next: list_remove *)
| D6                                    (* holding; next: unlock *)
| D7                                    (* released; next: free the entry's data (private) *)
| F1                                    (* fork(): next: prepare handler *)
| F2 (reg : bool)                       (* the fork instant; reg = the handlers were registered when fork() started *)
| F3 (reg : bool).                      (* next: parent handler *)

Inductive tev := EvNew | EvOp (o : op).        (* ghost: what a thread has done to its own cells *)

Record state := mkState {
  inited : bool;                         (* pthread_once has run snoopy_tsrm_init *)
  mtx : option (owner * nat);            (* recursive mutex: owner and depth *)
  repo : list entry;
  cnt : nat;
  pcs : tid -> pc;
  todo : tid -> list item;
  reads : tid -> list (cell * val);      (* what each thread read back through its accessor pointers *)
  counts : tid -> list nat;              (* what each thread got from get_threadCount *)
  trace : tid -> list tev;               (* ghost *)
}.

Inductive label := LStart | LOnce | LLock | LUnlock | LLookup | LPush | LCount | LRemove | LPriv | LFork.
Inductive outcome := Blocked | Fault | Next (l : label) (s : state).

Definition shared (l : label) : bool := match l with LLookup | LPush | LCount | LRemove => true | _ => false end.

Definition upd {A} (f : tid -> A) (t : tid) (v : A) : tid -> A := fun u => if Nat.eqb u t then v else f u.
Lemma upd_same {A} (f : tid -> A) t v : upd f t v t = v.
Proof. unfold upd. now rewrite Nat.eqb_refl. Qed.
Lemma upd_other {A} (f : tid -> A) t v u : u <> t -> upd f t v u = f u.
Proof. unfold upd. intros H. destruct (Nat.eqb_spec u t); [contradiction|reflexivity]. Qed.

(** ** the abstract list operations *)
Definition has_tid (t : tid) (r : list entry) : bool := existsb (fun e => Nat.eqb (e_tid e) t) r.
Definition find_tid (t : tid) (r : list entry) : option tid := if has_tid t r then Some t else None.
Fixpoint get_entry (t : tid) (r : list entry) : option entry :=
  match r with [] => None | e :: r' => if Nat.eqb (e_tid e) t then Some e else get_entry t r' end.
Fixpoint remove_tid (t : tid) (r : list entry) : list entry :=
  match r with [] => [] | e :: r' => if Nat.eqb (e_tid e) t then r' else e :: remove_tid t r' end.
Definition set_cell (c : cell) (v : val) (e : entry) : entry :=
  match c with Cfg => mkEntry (e_tid e) v (e_ids e) | Ids => mkEntry (e_tid e) (e_cfg e) v end.
Definition get_cell (c : cell) (e : entry) : val := match c with Cfg => e_cfg e | Ids => e_ids e end.
Fixpoint write_entry (t : tid) (c : cell) (v : val) (r : list entry) : list entry :=
  match r with [] => [] | e :: r' => if Nat.eqb (e_tid e) t then set_cell c v e :: r' else e :: write_entry t c v r' end.

(** ** the recursive mutex *)
Definition acquire (t : tid) (m : option (owner * nat)) : option (option (owner * nat)) :=
  match m with
  | None => Some (Some (Thr t, 1))
  | Some (Thr u, d) => if Nat.eqb u t then Some (Some (Thr t, S d)) else None
  | Some (Ghost, _) => None
  end.
(** unlock by a thread that is not the owner fails with EPERM and changes nothing (glibc, recursive type) *)
Definition release (t : tid) (m : option (owner * nat)) : option (owner * nat) :=
  match m with
  | Some (Thr u, d) => if Nat.eqb u t then match d with S (S d') => Some (Thr t, S d') | _ => None end else m
  | _ => m
  end.

(** ** what a thread does alone: sequential semantics of its own operations on its own cells *)
Definition cells := (val * val)%type.
Definition fresh : cells := (None, None).
Definition cget (c : cell) (x : cells) : val := match c with Cfg => fst x | Ids => snd x end.
Definition cset (c : cell) (v : val) (x : cells) : cells := match c with Cfg => (v, snd x) | Ids => (fst x, v) end.
Definition alone_step (st : cells * list (cell * val)) (ev : tev) : cells * list (cell * val) :=
  match ev with
  | EvNew => (fresh, snd st)
  | EvOp (OpWrite c v) => (cset c (Some v) (fst st), snd st)
  | EvOp (OpRead c) => (fst st, snd st ++ [(c, cget c (fst st))])
  | EvOp OpCount => st
  end.
Definition alone (tr : list tev) : cells * list (cell * val) := fold_left alone_step tr (fresh, []).
Lemma alone_snoc tr ev : alone (tr ++ [ev]) = alone_step (alone tr) ev.
Proof. unfold alone. now rewrite fold_left_app. Qed.

Section Model.
  Variable hs : handlers.

  Definition set_pc (s : state) (t : tid) (p : pc) : state :=
    mkState (inited s) (mtx s) (repo s) (cnt s) (upd (pcs s) t p) (todo s) (reads s) (counts s) (trace s).
  Definition set_mtx (s : state) (m : option (owner * nat)) : state :=
    mkState (inited s) m (repo s) (cnt s) (pcs s) (todo s) (reads s) (counts s) (trace s).

  Definition lock_then (t : tid) (s : state) (p : pc) : outcome :=
    if inited s then
      match acquire t (mtx s) with
      | Some m' => Next LLock (set_pc (set_mtx s m') t p)
      | None => Blocked
      end
    else Fault.
  Definition unlock_then (t : tid) (s : state) (p : pc) : outcome :=
    if inited s then Next LUnlock (set_pc (set_mtx s (release t (mtx s))) t p) else Fault.

  Definition step (t : tid) (s : state) : outcome :=
    match pcs s t with
    | Out =>
      match todo s t with
      | [] => Blocked
      | Call ops :: rest =>
        Next LStart (mkState (inited s) (mtx s) (repo s) (cnt s) (upd (pcs s) t (C0 ops)) (upd (todo s) t rest) (reads s) (counts s) (trace s))
      | Fork :: rest =>
        Next LStart (mkState (inited s) (mtx s) (repo s) (cnt s) (upd (pcs s) t F1) (upd (todo s) t rest) (reads s) (counts s) (trace s))
      end
    | C0 ops => Next LOnce (mkState true (mtx s) (repo s) (cnt s) (upd (pcs s) t (C1 ops)) (todo s) (reads s) (counts s) (trace s))
    | C1 ops => lock_then t s (C2 ops)
    | C2 ops => Next LLookup (set_pc s t (C3 ops (has_tid t (repo s))))
    | C3 ops true => Next LPriv (set_pc s t (C4 ops))
    | C3 ops false =>
      Next LPush (mkState (inited s) (mtx s) (repo s ++ [mkEntry t None None]) (S (cnt s)) (upd (pcs s) t (C4 ops)) (todo s)
                          (reads s) (counts s) (upd (trace s) t (trace s t ++ [EvNew])))
    | C4 ops => unlock_then t s (W ops)
    | W [] => lock_then t s D2
    | W (OpCount :: ops) => lock_then t s (K2 ops)
    | W (o :: ops) => lock_then t s (A2 o ops)
    | A2 o ops => Next LLookup (set_pc s t (A3 o ops (find_tid t (repo s))))
    | A3 o ops h => unlock_then t s (A4 o ops h)
    | A4 o ops None => Fault
    | A4 o ops (Some u) =>
      match get_entry u (repo s) with
      | None => Fault
      | Some e =>
        match o with
        | OpWrite c v =>
          Next LPriv (mkState (inited s) (mtx s) (write_entry u c (Some v) (repo s)) (cnt s) (upd (pcs s) t (W ops)) (todo s)
                              (reads s) (counts s) (upd (trace s) t (trace s t ++ [EvOp o])))
        | OpRead c =>
          Next LPriv (mkState (inited s) (mtx s) (repo s) (cnt s) (upd (pcs s) t (W ops)) (todo s)
                              (upd (reads s) t (reads s t ++ [(c, get_cell c e)])) (counts s) (upd (trace s) t (trace s t ++ [EvOp o])))
        | OpCount => Fault
        end
      end
    | K2 ops =>
      Next LCount (mkState (inited s) (mtx s) (repo s) (cnt s) (upd (pcs s) t (K3 ops)) (todo s)
                           (reads s) (upd (counts s) t (counts s t ++ [cnt s])) (trace s))
    | K3 ops => unlock_then t s (W ops)
    | D2 => Next LLookup (set_pc s t (D3 (find_tid t (repo s))))
    | D3 h => unlock_then t s (D3b h)
    | D3b None => Next LPriv (set_pc s t Out)
    | D3b (Some u) => lock_then t s (D5 u)
    | D5 u =>
      if has_tid u (repo s)
      then Next LRemove (mkState (inited s) (mtx s) (remove_tid u (repo s)) (pred (cnt s)) (upd (pcs s) t D6) (todo s)
                                 (reads s) (counts s) (trace s))
      else Fault
    | D6 => unlock_then t s D7
    | D7 => Next LPriv (set_pc s t Out)
    | F1 => if h_prepare hs && inited s then lock_then t s (F2 true) else Next LPriv (set_pc s t (F2 (inited s)))
    | F2 reg => Next LFork (set_pc s t (F3 reg))
    | F3 reg => if h_parent hs && reg then unlock_then t s Out else Next LPriv (set_pc s t Out)
    end.

  Definition init (progs : tid -> list item) : state :=
    mkState (h_preinit hs) None [] 0 (fun _ => Out) progs (fun _ => []) (fun _ => []) (fun _ => []).

  Inductive reachable (progs : tid -> list item) : state -> Prop :=
  | R_init : reachable progs (init progs)
  | R_step : forall s t l s', reachable progs s -> step t s = Next l s' -> reachable progs s'.

  (** the child process created by [fork()] in thread [t] at the fork instant [F2 reg]: a copy of the memory, the
      mutex owned by a thread that does not exist here, only thread [t], the child handler already run *)
  Definition ghostify (m : option (owner * nat)) : option (owner * nat) :=
    match m with None => None | Some (_, d) => Some (Ghost, d) end.
  Definition child_of (s : state) (t : tid) (reg : bool) : state :=
    let m0 := ghostify (mtx s) in
    let k := if reg then h_child hs else CNone in
    let m1 := match k with CReinit | CReinitClear => None | _ => m0 end in      (* CUnlock: EPERM, nothing changes *)
    let r1 := match k with CReinitClear => [] | _ => repo s end in
    let c1 := match k with CReinitClear => 0 | _ => cnt s end in
    mkState (inited s) m1 r1 c1 (fun _ => Out) (fun u => if Nat.eqb u t then todo s t else [])
            (fun u => if Nat.eqb u t then reads s t else []) (fun u => if Nat.eqb u t then counts s t else [])
            (fun u => if Nat.eqb u t then trace s t else []).

  (** reachability across processes: children (and their children, ...) included *)
  Inductive preachable (progs : tid -> list item) : state -> Prop :=
  | P_init : preachable progs (init progs)
  | P_step : forall s t l s', preachable progs s -> step t s = Next l s' -> preachable progs s'
  | P_child : forall s t reg, preachable progs s -> pcs s t = F2 reg -> preachable progs (child_of s t reg).

  (** run thread [t] alone; [None] = it got stuck (blocked or faulted) before the [n] steps were done *)
  Fixpoint run_alone (n : nat) (t : tid) (s : state) : option state :=
    match n with
    | 0 => Some s
    | S n' => match step t s with Next _ s' => run_alone n' t s' | _ => None end
    end.

  (** run a schedule (list of thread ids); stops at the first step that is not enabled *)
  Fixpoint run_sched (sch : list tid) (s : state) : state * list (tid * label) :=
    match sch with
    | [] => (s, [])
    | t :: sch' => match step t s with
                   | Next l s' => let '(s2, ls) := run_sched sch' s' in (s2, (t, l) :: ls)
                   | _ => (s, [])
                   end
    end.
End Model.

(** ** program-point classification *)
Definition holding (hs : handlers) (p : pc) : bool :=
  match p with
  | C2 _ | C3 _ _ | C4 _ | A2 _ _ | A3 _ _ _ | K2 _ | K3 _ | D2 | D3 _ | D5 _ | D6 => true
  | F2 reg | F3 reg => h_prepare hs && reg
  | _ => false
  end.
Definition registered (p : pc) : bool :=
  match p with
  | C3 _ b => b
  | C4 _ | W _ | A2 _ _ | A3 _ _ _ | A4 _ _ _ | K2 _ | K3 _ | D2 | D3 _ | D3b _ | D5 _ => true
  | _ => false
  end.
Definition needs_init (p : pc) : bool :=
  match p with Out | C0 _ | F1 => false | F2 reg | F3 reg => reg | _ => true end.
Definition is_some_tid (t : tid) (h : option tid) : bool := match h with Some u => Nat.eqb u t | None => false end.
Definition not_count (o : op) : bool := match o with OpCount => false | _ => true end.
Definition handle_ok (t : tid) (p : pc) : bool :=
  match p with
  | A2 o _ => not_count o
  | A3 o _ h | A4 o _ h => not_count o && is_some_tid t h
  | D3 h | D3b h => is_some_tid t h
  | D5 u => Nat.eqb u t
  | _ => true
  end.

Definition parent_ok (hs : handlers) : bool := implb (h_prepare hs) (h_parent hs).
Definition handlers_ok (hs : handlers) : bool :=
  h_prepare hs && h_parent hs && match h_child hs with CReinitClear => true | _ => false end.

(** ** statement tests *)
Definition prog2 : tid -> list item :=
  fun t => match t with
           | 0 => [Call [OpWrite Cfg 7; OpCount; OpRead Cfg]]
           | 1 => [Call [OpWrite Cfg 9; OpRead Cfg; OpCount]]
           | _ => []
           end.
Definition demo_sched : list tid :=
  repeat 0 6 ++ repeat 1 6 ++ repeat 0 4 ++ repeat 1 4 ++ repeat 0 3 ++ repeat 1 4 ++ repeat 0 4 ++ repeat 1 3 ++ repeat 0 7 ++ repeat 1 7.
Definition demo := fst (run_sched repaired_handlers demo_sched (init repaired_handlers prog2)).
Example demo_isolated :
  reads demo 0 = [(Cfg, Some 7)] /\ reads demo 1 = [(Cfg, Some 9)] /\ counts demo 0 = [2] /\ counts demo 1 = [2]
  /\ repo demo = [] /\ cnt demo = 0 /\ mtx demo = None /\ pcs demo 0 = Out /\ pcs demo 1 = Out.
Proof. vm_compute. repeat split. Qed.
