(** C09: invariants of the interleaving model of [Conc/Tsrm.v] over ALL reachable states: any number of threads, any
    number of wrapped calls and forks per thread, any number of accessor operations per call, any schedule. *)
From Coq Require Import List Arith Lia Bool.
From Snoopy Require Import Conc.Tsrm.
Import ListNotations.

(** ** facts about the abstract repository operations *)
Lemma has_tid_in t r : has_tid t r = true <-> In t (map e_tid r).
Proof.
  unfold has_tid. rewrite existsb_exists. split.
  - intros [e [He E]]. apply Nat.eqb_eq in E. subst. now apply in_map.
  - intros H. apply in_map_iff in H as [e [E He]]. exists e. split; [assumption|]. subst. apply Nat.eqb_refl.
Qed.
Lemma has_tid_false t r : has_tid t r = false <-> ~ In t (map e_tid r).
Proof. rewrite <- has_tid_in. destruct (has_tid t r); split; try congruence; intros H; exfalso; now apply H. Qed.

Lemma in_remove_tid t u r : NoDup (map e_tid r) -> (In u (map e_tid (remove_tid t r)) <-> In u (map e_tid r) /\ u <> t).
Proof.
  induction r as [|x r IH]; intros ND; simpl.
  - tauto.
  - inversion ND as [|? ? Hx ND']; subst. destruct (Nat.eqb_spec (e_tid x) t) as [E|Hne].
    + subst. split; [intros H; split; [now right| intros ->; contradiction] | intros [[E|H] Hn]; [congruence|exact H]].
    + simpl. rewrite IH by assumption. split.
      * intros [E|[H1 H2]]; [split; [now left|congruence] | split; [now right|assumption]].
      * intros [[E|H1] H2]; [now left | right; split; assumption].
Qed.
Lemma nodup_remove_tid t r : NoDup (map e_tid r) -> NoDup (map e_tid (remove_tid t r)).
Proof.
  induction r as [|x r IH]; intros ND; simpl; [constructor|].
  inversion ND as [|? ? Hx ND']; subst. destruct (Nat.eqb_spec (e_tid x) t); [assumption|].
  simpl. constructor; [|now apply IH]. rewrite in_remove_tid by assumption. tauto.
Qed.
Lemma length_remove_tid t r : In t (map e_tid r) -> length (remove_tid t r) = pred (length r).
Proof.
  induction r as [|x r IH]; simpl; [tauto|]. intros [E|H].
  - subst. now rewrite Nat.eqb_refl.
  - destruct (Nat.eqb_spec (e_tid x) t); [reflexivity|]. simpl. rewrite IH by assumption. destruct r; [contradiction|reflexivity].
Qed.
Lemma in_remove_tid_entry t e r : In e (remove_tid t r) -> In e r.
Proof.
  induction r as [|x r IH]; simpl; [tauto|]. destruct (Nat.eqb (e_tid x) t); [now right|].
  intros [E|H]; [now left|right; now apply IH].
Qed.

Lemma set_cell_tid c v e : e_tid (set_cell c v e) = e_tid e.
Proof. destruct c; reflexivity. Qed.
Lemma write_entry_tids t c v r : map e_tid (write_entry t c v r) = map e_tid r.
Proof.
  induction r as [|x r IH]; simpl; [reflexivity|]. destruct (Nat.eqb (e_tid x) t); simpl; [now rewrite set_cell_tid|now rewrite IH].
Qed.
Lemma write_entry_length t c v r : length (write_entry t c v r) = length r.
Proof. rewrite <- (map_length e_tid), write_entry_tids. apply map_length. Qed.
Lemma write_entry_in t c v r e' : NoDup (map e_tid r) -> In e' (write_entry t c v r) ->
  (In e' r /\ e_tid e' <> t) \/ (exists e, In e r /\ e_tid e = t /\ e' = set_cell c v e).
Proof.
  induction r as [|x r IH]; simpl; [tauto|]. intros ND. inversion ND as [|? ? Hx ND']; subst.
  destruct (Nat.eqb_spec (e_tid x) t) as [E|Hne].
  - intros [<-|H].
    + right. exists x. auto.
    + left. split; [now right|]. intros E'. apply Hx. rewrite E, <- E'. now apply in_map.
  - intros [<-|H]; [left; split; [now left|assumption]|].
    destruct (IH ND' H) as [[H1 H2]|[e [H1 [H2 H3]]]]; [left; split; [now right|assumption]|right; exists e; auto].
Qed.

Lemma get_entry_some t r e : get_entry t r = Some e -> In e r /\ e_tid e = t.
Proof.
  induction r as [|x r IH]; simpl; [discriminate|]. destruct (Nat.eqb_spec (e_tid x) t).
  - intros H; injection H as <-. auto.
  - intros H. destruct (IH H). auto.
Qed.
Lemma get_entry_in t r : In t (map e_tid r) -> exists e, get_entry t r = Some e.
Proof.
  induction r as [|x r IH]; simpl; [tauto|]. destruct (Nat.eqb_spec (e_tid x) t); [eauto|].
  intros [E|H]; [contradiction|now apply IH].
Qed.
Lemma nodup_entry_unique r e1 e2 : NoDup (map e_tid r) -> In e1 r -> In e2 r -> e_tid e1 = e_tid e2 -> e1 = e2.
Proof.
  induction r as [|x r IH]; simpl; [tauto|]. intros ND. inversion ND as [|? ? Hx ND']; subst.
  intros [<-|H1] [<-|H2] E; try reflexivity.
  - exfalso. apply Hx. rewrite E. now apply in_map.
  - exfalso. apply Hx. rewrite <- E. now apply in_map.
  - now apply IH.
Qed.
Lemma nodup_snoc (t : tid) l : NoDup l -> ~ In t l -> NoDup (l ++ [t]).
Proof.
  intros ND Hn. induction l as [|x l IH]; simpl; [constructor; [tauto|constructor]|].
  inversion ND as [|? ? Hx ND']; subst. constructor.
  - rewrite in_app_iff. simpl. intros [H|[H|[]]]; [contradiction|]. subst. apply Hn. now left.
  - apply IH; [assumption|]. intros H. apply Hn. now right.
Qed.

Lemma alone_new tr : alone (tr ++ [EvNew]) = (fresh, snd (alone tr)).
Proof. now rewrite alone_snoc. Qed.
Lemma alone_write tr c v : alone (tr ++ [EvOp (OpWrite c v)]) = (cset c (Some v) (fst (alone tr)), snd (alone tr)).
Proof. now rewrite alone_snoc. Qed.
Lemma alone_read tr c : alone (tr ++ [EvOp (OpRead c)]) = (fst (alone tr), snd (alone tr) ++ [(c, cget c (fst (alone tr)))]).
Proof. now rewrite alone_snoc. Qed.

Ltac sfields := cbn [inited mtx repo cnt pcs todo reads counts trace].

Section Inv.
  Variable hs : handlers.
  Hypothesis Hpar : parent_ok hs = true.

  (** what the invariant says about one thread, given the global components it mentions *)
  Definition tclause (ini : bool) (m : option (owner * nat)) (r : list entry) (u : tid) (p : pc) : Prop :=
    (needs_init p = true -> ini = true) /\
    (holding hs p = true <-> m = Some (Thr u, 1)) /\
    (In u (map e_tid r) <-> registered p = true) /\
    handle_ok u p = true.

  Record Inv (s : state) : Prop := {
    I_thr : forall u, tclause (inited s) (mtx s) (repo s) u (pcs s u);
    I_mwf : mtx s = None \/ exists u, mtx s = Some (Thr u, 1);
    I_nodup : NoDup (map e_tid (repo s));
    I_cnt : cnt s = length (repo s);
    I_data : forall e, In e (repo s) -> (e_cfg e, e_ids e) = fst (alone (trace s (e_tid e)));
    I_obs : forall u, reads s u = snd (alone (trace s u));
  }.

  Lemma inv_init progs : Inv (init hs progs).
  Proof.
    split; simpl.
    - intros u. unfold tclause. simpl. repeat split; try discriminate; tauto.
    - now left.
    - constructor.
    - reflexivity.
    - tauto.
    - reflexivity.
  Qed.

  (** (a) only the program counter of [t] (and bookkeeping that no clause mentions) changes; [inited] may be set *)
  Lemma inv_pc s t p' ini' td' cn' :
    Inv s ->
    (inited s = true -> ini' = true) ->
    (needs_init p' = true -> ini' = true) ->
    holding hs p' = holding hs (pcs s t) ->
    registered p' = registered (pcs s t) ->
    handle_ok t p' = true ->
    Inv (mkState ini' (mtx s) (repo s) (cnt s) (upd (pcs s) t p') td' (reads s) cn' (trace s)).
  Proof.
    intros [Ht Hm Hn Hc Hd Ho] Hi Hn' Hh Hr Hk. split; sfields; try assumption.
    intros u. destruct (Nat.eq_dec u t) as [->|Hne].
    - rewrite upd_same. destruct (Ht t) as [_ [T2 [T3 _]]]. unfold tclause. rewrite Hh, Hr. auto.
    - rewrite upd_other by assumption. destruct (Ht u) as [T1 [T2 [T3 T4]]]. unfold tclause. auto.
  Qed.

  Lemma acquire_free s t m' : Inv s -> holding hs (pcs s t) = false -> acquire t (mtx s) = Some m' ->
    mtx s = None /\ m' = Some (Thr t, 1).
  Proof.
    intros [Ht Hm _ _ _ _] Hh Ha. destruct Hm as [E|[u E]]; rewrite E in Ha; simpl in Ha.
    - injection Ha as <-. auto.
    - destruct (Nat.eqb_spec u t) as [->|Hne]; [|discriminate].
      destruct (Ht t) as [_ [T2 _]]. apply T2 in E. congruence.
  Qed.

  (** (b) [t] takes the mutex *)
  Lemma inv_lock s t p' m' :
    Inv s -> inited s = true -> holding hs (pcs s t) = false -> holding hs p' = true ->
    registered p' = registered (pcs s t) -> handle_ok t p' = true ->
    acquire t (mtx s) = Some m' ->
    Inv (mkState (inited s) m' (repo s) (cnt s) (upd (pcs s) t p') (todo s) (reads s) (counts s) (trace s)).
  Proof.
    intros I Hi Hh Hh' Hr Hk Ha. destruct (acquire_free s t m' I Hh Ha) as [E ->].
    destruct I as [Ht Hm Hn Hc Hd Ho]. split; sfields; [ | right; exists t; reflexivity | assumption ..].
    intros u. destruct (Nat.eq_dec u t) as [->|Hne].
    - rewrite upd_same. destruct (Ht t) as [_ [_ [T3 _]]]. unfold tclause. rewrite Hh', Hr.
      split; [auto|]. split; [tauto|]. split; [exact T3|assumption].
    - rewrite upd_other by assumption. destruct (Ht u) as [T1 [T2 [T3 T4]]]. unfold tclause.
      split; [auto|]. split; [|split; [exact T3|assumption]]. split.
      + intros H. apply T2 in H. congruence.
      + intros H. injection H as ->. contradiction.
  Qed.

  (** (c) [t], the owner, releases the mutex *)
  Lemma inv_unlock s t p' :
    Inv s -> holding hs (pcs s t) = true -> holding hs p' = false ->
    registered p' = registered (pcs s t) -> handle_ok t p' = true -> (needs_init p' = true -> inited s = true) ->
    Inv (mkState (inited s) (release t (mtx s)) (repo s) (cnt s) (upd (pcs s) t p') (todo s) (reads s) (counts s) (trace s)).
  Proof.
    intros [Ht Hm Hn Hc Hd Ho] Hh Hh' Hr Hk Hi.
    assert (E : mtx s = Some (Thr t, 1)) by (apply (Ht t); assumption).
    rewrite E. simpl. rewrite Nat.eqb_refl. split; sfields; [ | now left | assumption ..].
    intros u. destruct (Nat.eq_dec u t) as [->|Hne].
    - rewrite upd_same. destruct (Ht t) as [_ [_ [T3 _]]]. unfold tclause. rewrite Hh', Hr.
      split; [auto|]. split; [split; discriminate|]. split; [exact T3|assumption].
    - rewrite upd_other by assumption. destruct (Ht u) as [T1 [T2 [T3 T4]]]. unfold tclause.
      split; [auto|]. split; [|split; [exact T3|assumption]]. split.
      + intros H. apply T2 in H. rewrite E in H. injection H as ->. contradiction.
      + discriminate.
  Qed.

  (** an unlock by a thread that does not hold the mutex fails with EPERM and changes nothing *)
  Lemma release_not_owner s t : Inv s -> holding hs (pcs s t) = false -> release t (mtx s) = mtx s.
  Proof.
    intros [Ht Hm _ _ _ _] Hh. destruct Hm as [E|[u E]]; rewrite E; simpl; [reflexivity|].
    destruct (Nat.eqb_spec u t) as [->|Hne]; [|reflexivity].
    destruct (Ht t) as [_ [T2 _]]. apply T2 in E. congruence.
  Qed.

  (** (d) the constructor's push *)
  Lemma inv_push s t ops :
    Inv s -> pcs s t = C3 ops false ->
    Inv (mkState (inited s) (mtx s) (repo s ++ [mkEntry t None None]) (S (cnt s)) (upd (pcs s) t (C4 ops)) (todo s)
                 (reads s) (counts s) (upd (trace s) t (trace s t ++ [EvNew]))).
  Proof.
    intros [Ht Hm Hn Hc Hd Ho] Hp.
    assert (Hnot : ~ In t (map e_tid (repo s))).
    { destruct (Ht t) as [_ [_ [T3 _]]]. rewrite Hp in T3. simpl in T3. intros H. apply T3 in H. discriminate. }
    split; sfields.
    - intros u. destruct (Nat.eq_dec u t) as [->|Hne].
      + rewrite upd_same. destruct (Ht t) as [T1 [T2 [T3 T4]]]. rewrite Hp in *. unfold tclause. simpl in *.
        repeat split; auto; try apply T2. rewrite map_app, in_app_iff. simpl. auto.
      + rewrite upd_other by assumption. destruct (Ht u) as [T1 [T2 [T3 T4]]]. unfold tclause. repeat split; auto; try apply T2.
        * rewrite map_app, in_app_iff. simpl. intros [H|[H|[]]]; [now apply T3|congruence].
        * intros H. rewrite map_app, in_app_iff. left. now apply T3.
    - assumption.
    - rewrite map_app. simpl. now apply nodup_snoc.
    - rewrite app_length. simpl. lia.
    - intros e He. apply in_app_iff in He as [He|[<-|[]]].
      + assert (e_tid e <> t) by (intros E; apply Hnot; rewrite <- E; now apply in_map).
        rewrite upd_other by assumption. now apply Hd.
      + cbn [e_tid e_cfg e_ids]. rewrite upd_same, alone_new. reflexivity.
    - intros u. destruct (Nat.eq_dec u t) as [->|Hne].
      + rewrite upd_same, alone_new. cbn [snd]. apply Ho.
      + rewrite upd_other by assumption. apply Ho.
  Qed.

  (** (e) a write through the thread's own accessor pointer *)
  Lemma inv_write s t c v ops e :
    Inv s -> pcs s t = A4 (OpWrite c v) ops (Some t) -> get_entry t (repo s) = Some e ->
    Inv (mkState (inited s) (mtx s) (write_entry t c (Some v) (repo s)) (cnt s) (upd (pcs s) t (W ops)) (todo s)
                 (reads s) (counts s) (upd (trace s) t (trace s t ++ [EvOp (OpWrite c v)]))).
  Proof.
    intros [Ht Hm Hn Hc Hd Ho] Hp Hg. split; sfields.
    - intros u. unfold tclause. rewrite write_entry_tids. destruct (Nat.eq_dec u t) as [->|Hne].
      + rewrite upd_same. destruct (Ht t) as [T1 [T2 [T3 T4]]]. rewrite Hp in *. simpl in *. tauto.
      + rewrite upd_other by assumption. apply Ht.
    - assumption.
    - now rewrite write_entry_tids.
    - now rewrite write_entry_length.
    - intros e' He'. apply write_entry_in in He'; [|assumption]. destruct He' as [[H1 H2]|[e0 [H1 [H2 ->]]]].
      + rewrite upd_other by assumption. now apply Hd.
      + rewrite set_cell_tid, H2, upd_same, alone_write. cbn [fst]. specialize (Hd e0 H1). rewrite H2 in Hd. rewrite <- Hd.
        destruct c; reflexivity.
    - intros u. destruct (Nat.eq_dec u t) as [->|Hne].
      + rewrite upd_same, alone_write. cbn [snd]. apply Ho.
      + rewrite upd_other by assumption. apply Ho.
  Qed.

  (** (f) a read through the thread's own accessor pointer *)
  Lemma inv_read s t c ops e :
    Inv s -> pcs s t = A4 (OpRead c) ops (Some t) -> get_entry t (repo s) = Some e ->
    Inv (mkState (inited s) (mtx s) (repo s) (cnt s) (upd (pcs s) t (W ops)) (todo s)
                 (upd (reads s) t (reads s t ++ [(c, get_cell c e)])) (counts s) (upd (trace s) t (trace s t ++ [EvOp (OpRead c)]))).
  Proof.
    intros [Ht Hm Hn Hc Hd Ho] Hp Hg. apply get_entry_some in Hg as [Hin Htid]. split; sfields; try assumption.
    - intros u. destruct (Nat.eq_dec u t) as [->|Hne].
      + rewrite upd_same. destruct (Ht t) as [T1 [T2 [T3 T4]]]. rewrite Hp in *. unfold tclause. simpl in *. tauto.
      + rewrite upd_other by assumption. apply Ht.
    - intros e' He'. destruct (Nat.eq_dec (e_tid e') t) as [E|Hne].
      + rewrite E, upd_same, alone_read. cbn [fst]. rewrite <- E. now apply Hd.
      + rewrite upd_other by assumption. now apply Hd.
    - intros u. destruct (Nat.eq_dec u t) as [->|Hne].
      + rewrite !upd_same, alone_read. cbn [snd fst]. rewrite Ho. f_equal. f_equal. f_equal.
        specialize (Hd e Hin). rewrite Htid in Hd. rewrite <- Hd. destruct c; reflexivity.
      + rewrite !upd_other by assumption. apply Ho.
  Qed.

  (** (g) the destructor's remove *)
  Lemma inv_remove s t :
    Inv s -> pcs s t = D5 t ->
    Inv (mkState (inited s) (mtx s) (remove_tid t (repo s)) (pred (cnt s)) (upd (pcs s) t D6) (todo s)
                 (reads s) (counts s) (trace s)).
  Proof.
    intros [Ht Hm Hn Hc Hd Ho] Hp.
    assert (Hin : In t (map e_tid (repo s))).
    { destruct (Ht t) as [_ [_ [T3 _]]]. rewrite Hp in T3. now apply T3. }
    split; sfields; try assumption.
    - intros u. destruct (Nat.eq_dec u t) as [->|Hne].
      + rewrite upd_same. destruct (Ht t) as [T1 [T2 [T3 T4]]]. rewrite Hp in *. unfold tclause. simpl in *.
        repeat split; auto; try apply T2; try discriminate. rewrite in_remove_tid by assumption. tauto.
      + rewrite upd_other by assumption. destruct (Ht u) as [T1 [T2 [T3 T4]]]. unfold tclause. repeat split; auto; try apply T2.
        * rewrite in_remove_tid by assumption. intros [H _]. now apply T3.
        * intros H. rewrite in_remove_tid by assumption. split; [now apply T3|assumption].
    - now apply nodup_remove_tid.
    - rewrite length_remove_tid by assumption. now rewrite Hc.
    - intros e He. apply in_remove_tid_entry in He. now apply Hd.
  Qed.

  Lemma tid_of_handle t h : is_some_tid t h = true -> h = Some t.
  Proof. destruct h as [u|]; simpl; [|discriminate]. intros H. apply Nat.eqb_eq in H. now subst. Qed.

  Ltac fin_pc Hp := apply inv_pc; rewrite ?Hp; simpl; auto; try discriminate; try tauto; try congruence.

  Theorem step_inv t s l s' : Inv s -> step hs t s = Next l s' -> Inv s'.
  Proof.
    intros I H. destruct (I_thr s I t) as [T1 [T2 [T3 T4]]].
    unfold step in H. destruct (pcs s t) as [ |ops|ops|ops|ops found|ops|ops|o ops|o ops h|o ops h|ops|ops| |h|h|u| | | |reg|reg] eqn:Hp;
      cbn [needs_init holding registered handle_ok] in T1, T2, T3, T4.
    - (* Out *)
      destruct (todo s t) as [|[ops|] rest]; [discriminate| |]; injection H as <- <-; fin_pc Hp.
    - (* C0: pthread_once *)
      injection H as <- <-. fin_pc Hp.
    - (* C1: lock *)
      unfold lock_then in H. destruct (inited s) eqn:Hi; [|discriminate].
      destruct (acquire t (mtx s)) as [m'|] eqn:Ha; [|discriminate]. injection H as <- <-.
      unfold set_pc, set_mtx. sfields. apply inv_lock; rewrite ?Hp; auto.
    - (* C2: doesThreadRepoEntryExist *)
      injection H as <- <-. unfold set_pc. fin_pc Hp.
      destruct (has_tid t (repo s)) eqn:E; [|reflexivity]. apply has_tid_in in E. apply T3 in E. discriminate.
    - (* C3: push unless found *)
      destruct found; injection H as <- <-.
      + unfold set_pc. fin_pc Hp.
      + now apply inv_push.
    - (* C4: unlock *)
      unfold unlock_then in H. destruct (inited s) eqn:Hi; [|discriminate]. injection H as <- <-.
      unfold set_pc, set_mtx. sfields. apply inv_unlock; rewrite ?Hp; auto.
    - (* W: lock of the next accessor / of the destructor's lookup *)
      assert (HL : forall p', holding hs p' = true -> registered p' = true -> handle_ok t p' = true ->
                              lock_then t s p' = Next l s' -> Inv s').
      { intros p' H1 H2 H3 HH. unfold lock_then in HH. destruct (inited s) eqn:Hi; [|discriminate].
        destruct (acquire t (mtx s)) as [m'|] eqn:Ha; [|discriminate]. injection HH as <- <-.
        unfold set_pc, set_mtx. sfields. apply inv_lock; rewrite ?Hp; auto. }
      destruct ops as [|o ops]; [apply (HL D2); auto|].
      destruct o; [apply (HL (A2 (OpWrite c v) ops)) | apply (HL (A2 (OpRead c) ops)) | apply (HL (K2 ops))]; auto.
    - (* A2: traversal *)
      injection H as <- <-. unfold set_pc. fin_pc Hp.
      unfold find_tid. assert (E : has_tid t (repo s) = true) by (apply has_tid_in, T3; reflexivity).
      rewrite E. simpl. rewrite Nat.eqb_refl. now rewrite T4.
    - (* A3: unlock *)
      unfold unlock_then in H. destruct (inited s) eqn:Hi; [|discriminate]. injection H as <- <-.
      unfold set_pc, set_mtx. sfields. apply inv_unlock; rewrite ?Hp; auto.
    - (* A4: use the pointer *)
      apply andb_true_iff in T4 as [T4a T4b]. apply tid_of_handle in T4b. subst h.
      destruct (get_entry t (repo s)) as [e|] eqn:Hg; [|discriminate].
      destruct o; [| |discriminate]; injection H as <- <-.
      + eapply inv_write; eassumption.
      + eapply inv_read; eassumption.
    - (* K2: read the count *)
      injection H as <- <-. fin_pc Hp.
    - (* K3: unlock *)
      unfold unlock_then in H. destruct (inited s) eqn:Hi; [|discriminate]. injection H as <- <-.
      unfold set_pc, set_mtx. sfields. apply inv_unlock; rewrite ?Hp; auto.
    - (* D2: traversal *)
      injection H as <- <-. unfold set_pc. fin_pc Hp.
      unfold find_tid. assert (E : has_tid t (repo s) = true) by (apply has_tid_in, T3; reflexivity).
      rewrite E. simpl. apply Nat.eqb_refl.
    - (* D3: unlock *)
      unfold unlock_then in H. destruct (inited s) eqn:Hi; [|discriminate]. injection H as <- <-.
      unfold set_pc, set_mtx. sfields. apply inv_unlock; rewrite ?Hp; auto.
    - (* D3b: NULL test, then lock *)
      apply tid_of_handle in T4. subst h.
      unfold lock_then in H. destruct (inited s) eqn:Hi; [|discriminate].
      destruct (acquire t (mtx s)) as [m'|] eqn:Ha; [|discriminate]. injection H as <- <-.
      unfold set_pc, set_mtx. sfields. apply inv_lock; rewrite ?Hp; simpl; auto; try apply Nat.eqb_refl.
    - (* D5: remove *)
      apply Nat.eqb_eq in T4. subst u. destruct (has_tid t (repo s)); [|discriminate]. injection H as <- <-.
      now apply inv_remove.
    - (* D6: unlock *)
      unfold unlock_then in H. destruct (inited s) eqn:Hi; [|discriminate]. injection H as <- <-.
      unfold set_pc, set_mtx. sfields. apply inv_unlock; rewrite ?Hp; simpl; auto; try discriminate.
    - (* D7: free *)
      injection H as <- <-. unfold set_pc. fin_pc Hp.
    - (* F1: prepare handler *)
      destruct (h_prepare hs && inited s) eqn:Hb.
      + apply andb_true_iff in Hb as [Hb1 Hb2].
        unfold lock_then in H. rewrite Hb2 in H.
        destruct (acquire t (mtx s)) as [m'|] eqn:Ha; [|discriminate]. injection H as <- <-.
        unfold set_pc, set_mtx. sfields. apply inv_lock; rewrite ?Hp; simpl; auto; try (now rewrite Hb1).
      + injection H as <- <-. unfold set_pc. fin_pc Hp.
    - (* F2: the fork *)
      injection H as <- <-. unfold set_pc. fin_pc Hp.
    - (* F3: parent handler *)
      destruct (h_parent hs && reg) eqn:Hb.
      + unfold unlock_then in H. destruct (inited s) eqn:Hi; [|discriminate]. injection H as <- <-.
        unfold set_pc, set_mtx. sfields.
        destruct (h_prepare hs && reg) eqn:Hh.
        * apply inv_unlock; rewrite ?Hp; simpl; auto; try discriminate.
        * rewrite release_not_owner by (try assumption; rewrite Hp; simpl; assumption). fin_pc Hp.
      + injection H as <- <-. unfold set_pc. fin_pc Hp.
        unfold parent_ok in Hpar. destruct (h_prepare hs), (h_parent hs), reg; simpl in *; congruence.
  Qed.

  Theorem reachable_inv progs s : reachable hs progs s -> Inv s.
  Proof. induction 1 as [|s t l s' _ IH Hs]; [apply inv_init|eapply step_inv; eassumption]. Qed.
End Inv.

(** ** consequences *)
Ltac step_cases H :=
  repeat match type of H with
         | context [match ?x with _ => _ end] => destruct x eqn:?
         end.

Section Theorems.
  Variable hs : handlers.
  Hypothesis Hpar : parent_ok hs = true.

  Definition finished (s : state) (t : tid) : Prop := pcs s t = Out /\ todo s t = [].

  (** a step of [t] leaves every other thread's program counter, program, observations and ghost trace alone *)
  Lemma step_frame t s l s' : step hs t s = Next l s' -> forall u, u <> t ->
    pcs s' u = pcs s u /\ todo s' u = todo s u /\ reads s' u = reads s u /\ counts s' u = counts s u /\ trace s' u = trace s u.
  Proof.
    intros H u Hu. unfold step, lock_then, unlock_then, set_pc, set_mtx in H.
    step_cases H; try discriminate; injection H as <- <-; sfields; rewrite ?upd_other by assumption; auto.
  Qed.

  (** no step of a reachable state is undefined behaviour *)
  Lemma not_fault s t : Inv hs s -> step hs t s <> Fault.
  Proof.
    intros I H. destruct (I_thr hs s I t) as [T1 [T2 [T3 T4]]].
    unfold step, lock_then, unlock_then in H.
    destruct (pcs s t) as [ |ops|ops|ops|ops found|ops|ops|o ops|o ops h|o ops h|ops|ops| |h|h|u| | | |reg|reg] eqn:Hp;
      cbn [needs_init holding registered handle_ok] in T1, T2, T3, T4;
      try (rewrite T1 in H by reflexivity).
    - step_cases H; discriminate.
    - discriminate.
    - step_cases H; discriminate.
    - discriminate.
    - destruct found; discriminate.
    - discriminate.
    - destruct ops as [|[ | | ] ops]; step_cases H; discriminate.
    - discriminate.
    - discriminate.
    - apply andb_true_iff in T4 as [T4a T4b]. apply tid_of_handle in T4b. subst h.
      destruct (get_entry_in t (repo s)) as [e He]; [now apply T3|]. rewrite He in H. destruct o; discriminate.
    - discriminate.
    - discriminate.
    - discriminate.
    - discriminate.
    - apply tid_of_handle in T4. subst h. step_cases H; discriminate.
    - apply Nat.eqb_eq in T4. subst u.
      assert (E : has_tid t (repo s) = true) by (apply has_tid_in, T3; reflexivity). rewrite E in H. discriminate.
    - discriminate.
    - discriminate.
    - destruct (h_prepare hs && inited s) eqn:Hb; [|discriminate].
      apply andb_true_iff in Hb as [_ Hb]. rewrite Hb in H. step_cases H; discriminate.
    - discriminate.
    - destruct (h_parent hs && reg) eqn:Hb; [|discriminate].
      apply andb_true_iff in Hb as [_ Hb]. subst reg. rewrite T1 in H by reflexivity. discriminate.
  Qed.

  (** a thread is blocked only when it has finished, or wants the mutex while somebody else holds it *)
  Lemma blocked_reason s t : Inv hs s -> step hs t s = Blocked ->
    finished s t \/ (holding hs (pcs s t) = false /\ exists u, u <> t /\ mtx s = Some (Thr u, 1)).
  Proof.
    intros I H. destruct (I_thr hs s I t) as [T1 [T2 [T3 T4]]].
    assert (HL : forall p, holding hs (pcs s t) = false -> lock_then t s p = Blocked ->
                           holding hs (pcs s t) = false /\ exists u, u <> t /\ mtx s = Some (Thr u, 1)).
    { intros p Hh HB. split; [assumption|]. unfold lock_then in HB. destruct (inited s); [|discriminate].
      destruct (I_mwf hs s I) as [E|[u E]]; rewrite E in HB; simpl in HB; [discriminate|].
      destruct (Nat.eqb_spec u t) as [Eu|Hne]; [discriminate|]. eauto. }
    unfold step in H.
    destruct (pcs s t) as [ |ops|ops|ops|ops found|ops|ops|o ops|o ops h|o ops h|ops|ops| |h|h|u| | | |reg|reg] eqn:Hp;
      try discriminate; try (unfold unlock_then in H; destruct (inited s); discriminate).
    - left. destruct (todo s t) as [|[|] rest] eqn:Ht; try discriminate. split; assumption.
    - right. eapply HL; [reflexivity|eassumption].
    - destruct found; discriminate.
    - right. destruct ops as [|[ | | ] ops]; eapply HL; try reflexivity; eassumption.
    - destruct h as [u|]; [|discriminate]. destruct (get_entry u (repo s)); [|discriminate]. destruct o; discriminate.
    - destruct h as [u|]; [|discriminate]. right. eapply HL; [reflexivity|eassumption].
    - destruct (has_tid u (repo s)); discriminate.
    - destruct (h_prepare hs && inited s); [|discriminate]. right. eapply HL; [reflexivity|eassumption].
    - destruct (h_parent hs && reg); [|discriminate]. unfold unlock_then in H. destruct (inited s); discriminate.
  Qed.

  Section Reach.
    Variable progs : tid -> list item.

    (** the list and its count are touched only by the thread that owns the mutex *)
    Theorem mutex_discipline s t l s' : reachable hs progs s -> step hs t s = Next l s' -> shared l = true -> mtx s = Some (Thr t, 1).
    Proof.
      intros R H Hs. pose proof (reachable_inv hs Hpar progs s R) as I. destruct (I_thr hs s I t) as [_ [T2 _]].
      unfold step, lock_then, unlock_then in H.
      destruct (pcs s t) eqn:Hp; cbn [holding] in T2; step_cases H; try discriminate; injection H as <- <-; try discriminate Hs;
        apply T2; reflexivity.
    Qed.

    (** between constructor and destructor a thread has exactly one entry, and every lookup it makes finds that entry *)
    Theorem own_entry s t : reachable hs progs s -> registered (pcs s t) = true ->
      NoDup (map e_tid (repo s)) /\ In t (map e_tid (repo s)) /\ find_tid t (repo s) = Some t /\
      exists e, get_entry t (repo s) = Some e /\ e_tid e = t /\ forall e', In e' (repo s) -> e_tid e' = t -> e' = e.
    Proof.
      intros R Hr. pose proof (reachable_inv hs Hpar progs s R) as I. destruct (I_thr hs s I t) as [_ [_ [T3 _]]].
      assert (Hin : In t (map e_tid (repo s))) by now apply T3.
      split; [apply I|]. split; [assumption|]. split.
      - unfold find_tid. apply has_tid_in in Hin. now rewrite Hin.
      - destruct (get_entry_in t (repo s) Hin) as [e He]. exists e. split; [assumption|].
        apply get_entry_some in He as [H1 H2]. split; [assumption|]. intros e' H1' H2'.
        eapply nodup_entry_unique; [apply I|assumption|assumption|congruence].
    Qed.

    (** the pointer an accessor hands back, and the one the destructor removes, is the caller's own entry *)
    Theorem handle_is_own s t : reachable hs progs s ->
      match pcs s t with
      | A3 _ _ h | A4 _ _ h | D3 h | D3b h => h = Some t
      | D5 u => u = t
      | _ => True
      end.
    Proof.
      intros R. pose proof (reachable_inv hs Hpar progs s R) as I. destruct (I_thr hs s I t) as [_ [_ [_ T4]]].
      destruct (pcs s t); simpl in T4; try exact Logic.I;
        try (apply andb_true_iff in T4 as [_ T4]); try (now apply tid_of_handle); now apply Nat.eqb_eq.
    Qed.

    (** what a thread reads back through its accessor pointers is what the same operations give when run alone *)
    Theorem reads_alone s t : reachable hs progs s -> reads s t = snd (alone (trace s t)).
    Proof. intros R. apply (I_obs hs s (reachable_inv hs Hpar progs s R)). Qed.

    Theorem safe s t : reachable hs progs s -> step hs t s <> Fault.
    Proof. intros R. apply not_fault. now apply (reachable_inv hs Hpar progs). Qed.

    (** deadlock freedom: whenever some thread has not finished, some thread can take a step *)
    Theorem progress s : reachable hs progs s -> (exists t, ~ finished s t) -> exists t l s', step hs t s = Next l s'.
    Proof.
      intros R [t Hnf]. pose proof (reachable_inv hs Hpar progs s R) as I.
      destruct (I_mwf hs s I) as [E|[u E]].
      - exists t. destruct (step hs t s) as [| |l s'] eqn:Hs; [| |eauto].
        + apply blocked_reason in Hs; [|assumption]. destruct Hs as [Hf|[_ [u [_ Hu]]]]; [contradiction|congruence].
        + exfalso. eapply not_fault; eassumption.
      - exists u. destruct (step hs u s) as [| |l s'] eqn:Hs; [| |eauto].
        + assert (Hh : holding hs (pcs s u) = true) by (apply (I_thr hs s I u); assumption).
          apply blocked_reason in Hs; [|assumption]. destruct Hs as [[Hf _]|[Hf _]]; [rewrite Hf in Hh; discriminate|congruence].
        + exfalso. eapply not_fault; eassumption.
    Qed.

    (** quiescence: when every thread is outside the library nothing is left *)
    Theorem quiescent s : reachable hs progs s -> (forall t, pcs s t = Out) -> repo s = [] /\ cnt s = 0 /\ mtx s = None.
    Proof.
      intros R Hall. pose proof (reachable_inv hs Hpar progs s R) as I.
      assert (E : repo s = []).
      { destruct (repo s) as [|x r] eqn:Er; [reflexivity|]. exfalso.
        destruct (I_thr hs s I (e_tid x)) as [_ [_ [T3 _]]]. rewrite Hall, Er in T3. simpl in T3.
        assert (false = true) by (apply T3; now left). discriminate. }
      split; [assumption|]. split; [rewrite (I_cnt hs s I), E; reflexivity|].
      destruct (I_mwf hs s I) as [Em|[u Em]]; [assumption|].
      apply (I_thr hs s I u) in Em. rewrite Hall in Em. discriminate.
    Qed.

    (** ... hence a later call made while no other thread is inside the library sees exactly one registered thread *)
    Theorem lone_call_sees_one s t ops : reachable hs progs s -> pcs s t = K2 ops -> (forall u, u <> t -> registered (pcs s u) = false) -> cnt s = 1.
    Proof.
      intros R Hp Hoth. pose proof (reachable_inv hs Hpar progs s R) as I. rewrite (I_cnt hs s I).
      assert (Hall : forall e, In e (repo s) -> e_tid e = t).
      { intros e He. destruct (Nat.eq_dec (e_tid e) t) as [|Hne]; [assumption|]. exfalso.
        destruct (I_thr hs s I (e_tid e)) as [_ [_ [T3 _]]]. rewrite Hoth in T3 by assumption.
        assert (false = true) by (apply T3; now apply in_map). discriminate. }
      assert (Hin : In t (map e_tid (repo s))) by (apply (I_thr hs s I t); rewrite Hp; reflexivity).
      pose proof (I_nodup hs s I) as ND.
      destruct (repo s) as [|x [|y r]]; simpl in *; [contradiction|reflexivity|]. exfalso.
      inversion ND as [|? ? Hx _]; subst. apply Hx. left.
      rewrite (Hall x) by auto. rewrite (Hall y) by auto. reflexivity.
    Qed.
  End Reach.
End Theorems.
