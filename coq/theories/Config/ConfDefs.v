(** Definitions for the `snoopyctl conf` round trip (C08_conf_roundtrip): which configurations can be
    reached ([cfg_wf]), when the printed listing fits the parser ([conf_ok]), and the listing as an
    abstract INI file ([conf_ast]).  No proofs here. *)
From Coq Require Import Strings.String.
From Snoopy Require Import Lib.CStr Config.Model Config.Grammar Config.Exec.
Local Open Scope N_scope.

(** a value that came from a continuation line: non-empty, no outer whitespace, not starting a comment *)
Definition cont_shape (c : config_consts) (v : list byte) : bool :=
  nonempty v && no_outer_ws v && head_not_in (ini_start_comment c) v.
(** what the ini parser can hand to the callback: no NUL, no newline, and an inline-comment start
    (whitespace followed by ';') only in values taken from a continuation line *)
Definition value_shape (c : config_consts) (v : list byte) : bool := clean v && (no_inline c v || cont_shape c v).

Definition in_range (t : list (list byte * N)) (n : N) : bool := existsb (fun p => snd p =? n) t.
Definition registered_b (c : config_consts) (o : opt) : bool := existsb (fun r => opt_eqb (row_parse r) o) (options c).

(** invariant of every configuration obtained by applying handler calls of a parsed file to the defaults *)
Definition cfg_wf (c : config_consts) (g : cfg) : bool :=
  value_shape c (message_format g) && value_shape c (filter_chain g) && value_shape c (syslog_ident g)
  && value_shape c (render_output c g) && name_known c (output g)
  && in_range (fac_to_int c) (syslog_facility g) && in_range (lvl_to_int c) (syslog_level g)
  && (ds_min c <=? ds_max_len g) && (ds_max_len g <=? ds_max c)
  && (log_min c <=? log_max_len g) && (log_max_len g <=? log_max c)
  && (registered_b c OFilterChain || list_eqb (filter_chain g) (d_filter_chain c)).

Definition is_string (r : opt_row) : bool := match row_type r with TString => true | _ => false end.
Definition uses_cont (c : config_consts) (v : list byte) : bool := conf_cont c && has_inline (ini_inline_comment c) false v.

(** every physical line of the listing, with its newline, fits the fgets buffer of the parser *)
Definition row_fits (c : config_consts) (g : cfg) (r : opt_row) : bool :=
  let v := render_option c (row_render r) g in
  if is_string r && uses_cont c v
  then (len (row_name r) + 3 <=? ini_max_line c - 1) && (len v + 5 <=? ini_max_line c - 1)
  else (len (conf_line c r g) <=? ini_max_line c - 1).

Definition conf_ok (c : config_consts) (path : list byte) (g : cfg) : bool :=
  clean path && (len (conf_header c) + len path + 1 <=? ini_max_line c - 1)
  && forallb (row_fits c g) (options c)
  && forallb (fun r => negb (is_string r) || conf_cont c || no_inline c (render_option c (row_render r) g)) (options c).

(** the listing as an abstract file *)
Definition row_items (c : config_consts) (g : cfg) (r : opt_row) : list (item * eol) :=
  let v := render_option c (row_render r) g in
  match row_type r with
  | TString => if uses_cont c v
               then [(IKeyValue [] (row_name r) [SP] EQB [] QNone [] [] None, ELF); (ICont [SP; SP; SP; SP] v, ELF)]
               else [(IKeyValue [] (row_name r) [SP] EQB [SP] QDouble v [] None, ELF)]
  | _ => [(IKeyValue [] (row_name r) [SP] EQB [SP] QNone v [] None, ELF)]
  end.
Definition conf_ast (c : config_consts) (path : list byte) (g : cfg) : ini_file :=
  {| f_bom := false;
     f_items := (IComment [] SEMI (tl (conf_header c) ++ path), ELF) :: (ISection [] (section_name c) [], ELF)
                :: concat (map (row_items c g) (options c)) |}.
