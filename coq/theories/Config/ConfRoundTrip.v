(** C08_conf_roundtrip: the listing printed by `snoopyctl conf`, written back as the configuration
    file, yields the same settings.
    Part 1 (this file): for every configuration satisfying the invariant [cfg_wf] and every listing
    that fits the parser's line buffer ([conf_ok]).  Part 2 (Config/Reach.v): every configuration
    obtained by parsing any file satisfies [cfg_wf]. *)
From Coq Require Import Strings.String.
From Snoopy Require Import Lib.CStr Config.Model Config.Grammar Config.Exec Config.Values Config.Handler
  Config.IniLemmas Config.IniLines Config.RoundTrip Config.Dec Config.ConfDefs.
From Coq Require Import ZifyBool ZifyN ZifyNat.
Local Open Scope N_scope.

(** * plain values *)
Lemma plain_char_facts b : plain_char b = true ->
  is_space b = false /\ b <> NL /\ b <> NUL /\ b <> SEMI /\ b <> HASH /\ b <> DQ /\ b <> SQ.
Proof.
  unfold plain_char. rewrite andb_true_iff, !negb_true_iff. intros [S M]. unfold memb in M. simpl in M.
  rewrite !orb_false_iff in M. destruct M as [M1 [M2 [M3 [M4 [M5 _]]]]]. apply beq_neq in M1, M2, M3, M4, M5.
  repeat split; try assumption; intros ->; try congruence. discriminate.
Qed.

Lemma plain_props v : forallb plain_char v = true ->
  clean v = true /\ (forall ws, has_inline [SEMI] ws v = false) /\ rstrip v = v /\ lskip v = v
  /\ strip_q DQ v = None /\ strip_q SQ v = None /\ head_not_in [SEMI; HASH] v = true.
Proof.
  intros P. rewrite forallb_forall in P.
  assert (F : forall b, In b v -> is_space b = false /\ b <> NL /\ b <> NUL /\ b <> SEMI /\ b <> HASH /\ b <> DQ /\ b <> SQ)
    by (intros b Hb; apply plain_char_facts; auto).
  clear P. repeat split.
  - unfold clean. apply forallb_forall. intros b Hb. destruct (F b Hb) as [_ [A [B _]]]. apply beq_neq in A, B. now rewrite A, B.
  - intros ws. apply has_inline_space. intros b Hb. destruct (F b Hb) as [_ [_ [_ [A _]]]]. unfold memb. simpl. apply beq_neq in A. now rewrite A.
  - induction v as [|b v IH]; [reflexivity|]. rewrite rstrip_cons_nonspace; [|apply (F b); now left]. f_equal. apply IH. intros x Hx. apply F. now right.
  - destruct v as [|b v]; [reflexivity|]. simpl. destruct (F b (or_introl eq_refl)) as [A _]. now rewrite A.
  - destruct v as [|b v]; [reflexivity|]. unfold strip_q. destruct (F b (or_introl eq_refl)) as [_ [_ [_ [_ [_ [A _]]]]]]. apply beq_neq in A. now rewrite A.
  - destruct v as [|b v]; [reflexivity|]. unfold strip_q. destruct (F b (or_introl eq_refl)) as [_ [_ [_ [_ [_ [_ A]]]]]]. apply beq_neq in A. now rewrite A.
  - destruct v as [|b v]; [reflexivity|]. simpl. destruct (F b (or_introl eq_refl)) as [_ [_ [_ [A [B _]]]]]. unfold memb. simpl. apply beq_neq in A, B. now rewrite A, B.
Qed.

Lemma digit_plain b : is_digit b = true -> plain_char b = true.
Proof.
  destruct b; intros H; try discriminate H; reflexivity.
Qed.
Lemma digits_plain v : forallb is_digit v = true -> forallb plain_char v = true.
Proof. rewrite !forallb_forall. intros H b Hb. apply digit_plain. auto. Qed.

Definition key_ok_b (k : list byte) : bool :=
  forallb plain_char k && negb (memb EQB k) && negb (memb COLONB k) && negb (memb LBR k) && nonempty k.
Lemma doc_names_ok : forallb (fun o => key_ok_b (doc_name o)) all_opts = true.
Proof. vm_compute. reflexivity. Qed.

(** * copying one setting *)
Definition copy (o : opt) (src dst : cfg) : cfg :=
  match o with
  | OErrorLogging => set_error_logging dst (error_logging src)
  | OFilterChain => set_filter_chain dst (filter_chain src)
  | OMessageFormat => set_message_format dst (message_format src)
  | OOutput => set_output dst (output src, output_arg src)
  | OFacility => set_facility dst (syslog_facility src)
  | OIdent => set_ident dst (syslog_ident src)
  | OLevel => set_level dst (syslog_level src)
  | ODsLen => set_ds_len dst (ds_max_len src)
  | OLogLen => set_log_len dst (log_max_len src)
  | OUnknown => dst
  end.

Lemma copy_idem o a b : copy o a (copy o a b) = copy o a b.
Proof. destruct o; reflexivity. Qed.
Lemma copy_comm o o' a a' b : o <> o' -> copy o a (copy o' a' b) = copy o' a' (copy o a b).
Proof. intros D. destruct o, o'; try congruence; reflexivity. Qed.
Lemma copy_comm_same o o' a b : copy o a (copy o' a b) = copy o' a (copy o a b).
Proof. destruct o, o'; reflexivity. Qed.
Lemma copy_self o a : copy o a a = a.
Proof. destruct a, o; reflexivity. Qed.
Lemma copy_over_parse c o a x b : copy o a (parse_value c o x b) = copy o a b.
Proof. destruct o; try reflexivity. simpl. destruct (parse_bool c x); reflexivity. Qed.

Lemma cfg_ext a b : (forall o, In o all_opts -> copy o a b = b) -> a = b.
Proof.
  intros H. destruct a, b.
  pose proof (H OErrorLogging ltac:(simpl; tauto)) as H1. pose proof (H OFilterChain ltac:(simpl; tauto)) as H2.
  pose proof (H OMessageFormat ltac:(simpl; tauto)) as H3. pose proof (H OOutput ltac:(simpl; tauto)) as H4.
  pose proof (H OFacility ltac:(simpl; tauto)) as H5. pose proof (H OIdent ltac:(simpl; tauto)) as H6.
  pose proof (H OLevel ltac:(simpl; tauto)) as H7. pose proof (H ODsLen ltac:(simpl; tauto)) as H8.
  pose proof (H OLogLen ltac:(simpl; tauto)) as H9. clear H.
  injection H1 as ->. injection H2 as ->. injection H3 as ->. injection H4 as -> ->. injection H5 as ->. injection H6 as ->.
  injection H7 as ->. injection H8 as ->. injection H9 as ->. reflexivity.
Qed.

Section Conf.
  Variable c : config_consts.
  Hypothesis OK : config_consts_ok c = true.

  Lemma ok_conf :
    conf_header c = bytes "; Options from config file (or defaults): " /\ conf_section c = [LBR] ++ section_name c ++ [RBR]
    /\ section_name c = SNOOPY /\ conf_assign c = [SP; EQB; SP] /\ conf_quote c = true
    /\ (conf_cont c = true -> conf_cont_sep c = [SP; EQB; NL; SP; SP; SP; SP])
    /\ output_sep c = COLONB /\ bool_yes c = bytes "yes" /\ bool_no c = bytes "no"
    /\ ini_inline_comment c = [SEMI] /\ ini_start_comment c = [SEMI; HASH]
    /\ (len (conf_section c) + 1 <= ini_max_line c - 1).
  Proof.
    pose proof OK as H. split_ok H.
    repeat match goal with A : list_eqb _ _ = true |- _ => apply list_eqb_eq in A end.
    match goal with A : beq (output_sep c) COLONB = true |- _ => apply beq_eq in A end.
    match goal with A : (len (conf_section c) + 1 <=? _) = true |- _ => apply N.leb_le in A end.
    repeat split; try assumption.
    intros CC. match goal with A : negb (conf_cont c) || _ = true |- _ => rewrite CC in A; simpl in A; now apply list_eqb_eq in A end.
  Qed.

  Lemma name_known_facts n : name_known c n = true ->
    negb (memb COLONB n) = true /\ nonempty n = true /\ printable c n = true /\ no_outer_ws n = true /\ head_not_in [SEMI; HASH] n = true.
  Proof.
    intros K. pose proof OK as H. split_ok H.
    match goal with A : forallb _ (output_names c) = true |- _ => rewrite forallb_forall in A; rename A into F end.
    unfold name_known in K. apply existsb_exists in K as [x [Hx E]]. apply list_eqb_eq in E. subst x.
    specialize (F n Hx). rewrite !andb_true_iff in F. tauto.
  Qed.

  Lemma index_app_sep n a : negb (memb COLONB n) = true -> index COLONB (n ++ COLONB :: a) = Some (length n).
  Proof.
    intros H. apply negb_true_iff in H. induction n as [|b n IH]; simpl; [reflexivity|].
    unfold memb in H. simpl in H. apply orb_false_iff in H as [H1 H2].
    assert (E : beq b COLONB = false). { apply beq_neq. intros ->. rewrite beq_refl in H1. discriminate. }
    rewrite E, IH; [reflexivity|exact H2].
  Qed.
  Lemma index_none n : negb (memb COLONB n) = true -> index COLONB n = None.
  Proof. intros H. apply index_None. intros Hin. apply negb_true_iff in H. assert (memb COLONB n = true) by now apply memb_In. congruence. Qed.

  Lemma in_range_In t n : in_range t n = true -> exists k, In (k, n) t.
  Proof. unfold in_range. intros H. apply existsb_exists in H as [[k x] [Hin E]]. simpl in E. apply N.eqb_eq in E. subst. eauto. Qed.

  (** what [render_facility]/[render_level] print for a value of the table, read back *)
  Lemma syslog_back t doc inv dflt n : table_ok t doc inv dflt = true -> in_range t n = true ->
    exists k, assoc_num n inv = Some k /\ In (k, n) t /\ assoc_str k t = Some n /\ map to_upper k = k /\ prefixb LOG_ k = false.
  Proof.
    intros T R. destruct (in_range_In _ _ R) as [k Hk].
    unfold table_ok in T. rewrite !andb_true_iff in T. destruct T as [[[[T1 T2] T3] T4] _].
    unfold table_inv in T3. rewrite forallb_forall in T3. pose proof (T3 _ Hk) as Q. simpl in Q.
    destruct (assoc_num n inv) as [k'|] eqn:E; [|discriminate]. apply list_eqb_eq in Q. subst k'.
    exists k. split; [reflexivity|]. split; [assumption|].
    rewrite forallb_forall in T4. pose proof (T4 _ Hk) as U. simpl in U. unfold upper_name in U. rewrite !andb_true_iff, negb_true_iff in U.
    destruct U as [[U1 U2] _]. apply list_eqb_eq in U1. split; [|split; assumption].
    destruct (assoc_str k t) as [m|] eqn:A.
    - apply assoc_str_In in A. pose proof (table_sub_spec _ _ T1 _ _ A). pose proof (table_sub_spec _ _ T1 _ _ Hk). congruence.
    - exfalso. eapply assoc_str_None; eauto.
  Qed.

  Lemma syslog_key_plain k : map to_upper k = k -> prefixb LOG_ k = false -> syslog_key c k = k.
  Proof.
    intros U P. pose proof OK as H. split_ok H.
    match goal with A : list_eqb (log_prefix c) LOG_ = true |- _ => apply list_eqb_eq in A; rename A into L end.
    unfold syslog_key, strip_if. rewrite U, L. destruct (cfg_strips c), (util_strips c); unfold strip_prefix; rewrite ?P; reflexivity.
  Qed.

  (** ** parsing what was rendered gives the setting back *)
  Lemma parse_render o g g1 : cfg_wf c g = true -> o <> OUnknown ->
    parse_value c o (render_option c o g) g1 = copy o g g1.
  Proof.
    intros WF NU. unfold cfg_wf in WF. rewrite !andb_true_iff in WF.
    destruct WF as [[[[[[[[[[[S1 S2] S3] S4] KN] RF] RL] D1] D2] L1] L2] _].
    destruct ok_conf as [_ [_ [_ [_ [_ [_ [SEP [YES [NO _]]]]]]]]].
    destruct o; try congruence; simpl.
    - (* error_logging *)
      rewrite (bool_first_letter c OK). destruct (error_logging g); [rewrite YES|rewrite NO]; reflexivity.
    - reflexivity.
    - reflexivity.
    - (* output *)
      destruct (name_known_facts _ KN) as [NC _].
      unfold parse_output, split_output, render_output. rewrite SEP.
      destruct (output_arg g) as [|a0 a] eqn:A.
      + rewrite (index_none _ NC), KN. reflexivity.
      + change ([COLONB] ++ a0 :: a) with (COLONB :: a0 :: a). rewrite (index_app_sep _ _ NC).
        rewrite firstn_app, Nat.sub_diag, firstn_all. cbn [firstn]. rewrite app_nil_r, KN.
        replace (skipn (S (length (output g))) (output g ++ COLONB :: a0 :: a)) with (a0 :: a).
        * reflexivity.
        * replace (S (length (output g))) with (length (output g ++ [COLONB])) by (rewrite app_length; simpl; lia).
          change (output g ++ COLONB :: a0 :: a) with (output g ++ [COLONB] ++ a0 :: a). rewrite app_assoc. now rewrite skipn_app, Nat.sub_diag, skipn_all.
    - (* facility *)
      pose proof OK as H. split_ok H.
      match goal with A : table_ok (fac_to_int c) _ _ _ = true |- _ => destruct (syslog_back _ _ _ _ _ A RF) as [k [E1 [E2 [E3 [E4 E5]]]]] end.
      unfold render_facility, parse_facility. rewrite E1, (syslog_key_plain k E4 E5), E3. reflexivity.
    - reflexivity.
    - (* level *)
      pose proof OK as H. split_ok H.
      match goal with A : table_ok (lvl_to_int c) _ _ _ = true |- _ => destruct (syslog_back _ _ _ _ _ A RL) as [k [E1 [E2 [E3 [E4 E5]]]]] end.
      unfold render_level, parse_level. rewrite E1, (syslog_key_plain k E4 E5), E3. reflexivity.
    - (* datasource_message_max_length *)
      destruct (ok_ds c OK) as [M1 [M2 _]]. apply N.leb_le in D1, D2.
      rewrite (bytelen_doc c OK) by exact M2. unfold doc_len. destruct (dec_spec (ds_max_len g)) as [V [D _]].
      rewrite <- (app_nil_r (dec (ds_max_len g))) at 1. rewrite (span_digits_app _ [] D I), V.
      destruct (N.eqb_spec (ds_max_len g) 0); [lia|]. unfold doc_factor, clamp. replace (N.max (ds_min c) (N.min (ds_max c) (ds_max_len g * 1))) with (ds_max_len g) by lia. reflexivity.
    - (* log_message_max_length *)
      destruct (ok_log c OK) as [M1 [M2 _]]. apply N.leb_le in L1, L2.
      rewrite (bytelen_doc c OK) by exact M2. unfold doc_len. destruct (dec_spec (log_max_len g)) as [V [D _]].
      rewrite <- (app_nil_r (dec (log_max_len g))) at 1. rewrite (span_digits_app _ [] D I), V.
      destruct (N.eqb_spec (log_max_len g) 0); [lia|]. unfold doc_factor, clamp. replace (N.max (log_min c) (N.min (log_max c) (log_max_len g * 1))) with (log_max_len g) by lia. reflexivity.
  Qed.
End Conf.

(** * the listing as an abstract file: rendering, well-formedness, meaning *)
Ltac list_norm := cbn [map concat fst snd render_item render_eol quote app]; repeat (progress (rewrite <- ?app_assoc, ?app_nil_r; cbn [app])).

Section Listing.
  Variable c : config_consts.
  Hypothesis OK : config_consts_ok c = true.

  Let IC : ini_inline_comment c = [SEMI] := proj1 (proj2 (ok_ini c OK)).
  Let SC : ini_start_comment c = [SEMI; HASH] := proj1 (ok_ini c OK).

  Definition row_events (g : cfg) (r : opt_row) : list event :=
    let v := render_option c (row_render r) g in
    if is_string r && uses_cont c v then [(SNOOPY, row_name r, []); (SNOOPY, row_name r, v)] else [(SNOOPY, row_name r, v)].

  Lemma render_items_app a b : render_items (a ++ b) = render_items a ++ render_items b.
  Proof. unfold render_items. now rewrite map_app, concat_app. Qed.

  Lemma render_row g r : render_items (row_items c g r) = conf_line c r g.
  Proof.
    destruct (ok_conf c OK) as [_ [_ [_ [AS [Q [CS _]]]]]].
    unfold row_items, conf_line, uses_cont. rewrite AS, Q.
    destruct (row_type r); try (unfold render_items, render_line; list_norm; reflexivity).
    destruct (conf_cont c) eqn:CC; cbn [andb].
    - rewrite (CS eq_refl). destruct (has_inline (ini_inline_comment c) false (render_option c (row_render r) g));
        unfold render_items, render_line; list_norm; reflexivity.
    - unfold render_items, render_line; list_norm; reflexivity.
  Qed.

  Theorem conf_render path g : render (conf_ast c path g) = conf_print c path g.
  Proof.
    destruct (ok_conf c OK) as [HD [SE _]].
    unfold render, conf_ast, conf_print. cbn [f_bom f_items app].
    change (render_items ((IComment [] SEMI (tl (conf_header c) ++ path), ELF) :: (ISection [] (section_name c) [], ELF) :: concat (map (row_items c g) (options c))))
      with (render_line (IComment [] SEMI (tl (conf_header c) ++ path), ELF) ++ render_line (ISection [] (section_name c) [], ELF) ++ render_items (concat (map (row_items c g) (options c)))).
    assert (R : render_items (concat (map (row_items c g) (options c))) = concat (map (fun r => conf_line c r g) (options c))).
    { induction (options c) as [|r rows IH]; [reflexivity|]. simpl. now rewrite render_items_app, render_row, IH. }
    rewrite R, SE. unfold render_line. cbn [fst snd render_item render_eol]. rewrite HD. cbn [tl bytes]. simpl.
    rewrite ?app_nil_r, <- ?app_assoc. reflexivity.
  Qed.

  (** ** well-formedness of the listing *)
  Lemma key_facts k : key_ok_b k = true ->
    clean k = true /\ negb (memb EQB k) = true /\ negb (memb COLONB k) = true /\ no_inline c k = true /\ no_outer_ws k = true
    /\ head_not_in (LBR :: ini_start_comment c) k = true /\ nonempty k = true.
  Proof.
    unfold key_ok_b. rewrite !andb_true_iff. intros [[[[P E] C] L] N].
    destruct (plain_props k P) as [A1 [A2 [A3 [A4 [_ [_ A7]]]]]].
    repeat split; try assumption.
    - unfold no_inline. rewrite IC, A2. reflexivity.
    - unfold no_outer_ws. now rewrite A3, A4, list_eqb_refl.
    - rewrite SC. destruct k as [|b k]; [reflexivity|]. simpl in *. unfold memb in *. simpl in *.
      apply negb_true_iff in L, A7. apply orb_false_iff in L as [L _]. rewrite beq_neq in L. 
      assert (beq b LBR = false) by (apply beq_neq; intros ->; now apply L).
      rewrite H. simpl. now rewrite A7.
  Qed.

  Lemma kv_wf ps name w3 q v : key_ok_b name = true -> inline_ws w3 = true -> clean v = true -> no_inline c (w3 ++ quote q v) = true ->
    match q with QNone => no_outer_ws v && is_none (strip_q DQ v) && is_none (strip_q SQ v) | _ => true end = true ->
    wf_item c ps (IKeyValue [] name [SP] EQB w3 q v [] None) = true.
  Proof.
    intros K W3 Cv Iv Qv. destruct (key_facts name K) as [A1 [A2 [A3 [A4 [A5 [A6 A7]]]]]].
    cbn [wf_item]. rewrite A1, A2, A3, A4, A5, A6, A7, W3, Cv, Iv, Qv. cbn. now rewrite orb_true_r.
  Qed.

  Lemma plain_value_q v : forallb plain_char v = true ->
    clean v = true /\ no_inline c ([SP] ++ quote QNone v) = true /\ (no_outer_ws v && is_none (strip_q DQ v) && is_none (strip_q SQ v)) = true.
  Proof.
    intros P. destruct (plain_props v P) as [A1 [A2 [A3 [A4 [A5 [A6 _]]]]]]. repeat split; [assumption| |].
    - unfold no_inline. rewrite IC. cbn [quote app has_inline]. rewrite A2. reflexivity.
    - unfold no_outer_ws. now rewrite A3, A4, A5, A6, list_eqb_refl.
  Qed.

  Lemma quoted_no_inline v : has_inline [SEMI] false v = false -> no_inline c ([SP] ++ quote QDouble v) = true.
  Proof.
    intros H. unfold no_inline. rewrite IC. cbn [quote app has_inline]. change (is_space SP) with true. change (is_space DQ) with false.
    change (memb SP [SEMI]) with false. change (memb DQ [SEMI]) with false. cbn [andb orb].
    rewrite has_inline_app, H. cbn. now rewrite andb_false_r.
  Qed.

  (** what is printed for each kind of option *)
  Lemma value_facts g o : cfg_wf c g = true -> o <> OUnknown ->
    match doc_type o with
    | TString => value_shape c (render_option c o g) = true
    | _ => forallb plain_char (render_option c o g) = true
    end.
  Proof.
    intros WF NU. unfold cfg_wf in WF. rewrite !andb_true_iff in WF.
    destruct WF as [[[[[[[[[[[S1 S2] S3] S4] KN] RF] RL] D1] D2] L1] L2] _].
    destruct (ok_conf c OK) as [_ [_ [_ [_ [_ [_ [_ [YES [NO _]]]]]]]]].
    assert (TAB : forall t doc inv dflt n, table_ok t doc inv dflt = true -> forallb (fun p => forallb plain_char (fst p)) t = true -> in_range t n = true ->
                  value_shape c (match assoc_num n inv with Some s => s | None => syslog_invalid c end) = true).
    { intros t doc inv dflt n T P R. destruct (syslog_back _ _ _ _ _ T R) as [k [E1 [E2 _]]]. rewrite E1.
      rewrite forallb_forall in P. specialize (P _ E2). simpl in P. destruct (plain_props k P) as [A1 [A2 _]].
      unfold value_shape, no_inline. rewrite A1, IC, A2. reflexivity. }
    destruct o; try congruence; cbn [doc_type render_option]; try assumption.
    - destruct (error_logging g); [rewrite YES|rewrite NO]; reflexivity.
    - pose proof OK as H. split_ok H. unfold render_facility. eapply TAB; eassumption.
    - pose proof OK as H. split_ok H. unfold render_level. eapply TAB; eassumption.
    - apply digits_plain. apply dec_spec.
    - apply digits_plain. apply dec_spec.
  Qed.

  Lemma row_info r : In r (options c) ->
    row_name r = doc_name (row_parse r) /\ row_render r = row_parse r /\ row_parse r <> OUnknown /\ row_type r = doc_type (row_parse r)
    /\ key_ok_b (row_name r) = true /\ (len (row_name r) < ini_max_name c).
  Proof.
    intros Hin. destruct (row_facts c OK r Hin) as [A [B [C D]]]. repeat split; try assumption.
    - rewrite A. pose proof doc_names_ok as K. rewrite forallb_forall in K. apply K. destruct (row_parse r); simpl; tauto.
    - pose proof OK as H. split_ok H.
      match goal with X : forallb (fun r => len (row_name r) <? ini_max_name c) _ = true |- _ => rewrite forallb_forall in X; specialize (X _ Hin); now apply N.ltb_lt in X end.
  Qed.

  Lemma wf_items_cons ps it rest : wf_item c ps it = true -> (len (render_item it) + 1 <= ini_max_line c - 1) ->
    wf_items c (prev_after ps it) 0 rest = true -> wf_items c ps 0 ((it, ELF) :: rest) = true.
  Proof.
    intros W L R. cbn [wf_items]. rewrite W, R. unfold render_line. cbn [fst snd render_eol]. rewrite len_app. change (len [NL]) with 1.
    destruct (N.leb_spec (0 + (len (render_item it) + 1)) (ini_max_line c - 1)); [reflexivity|lia].
  Qed.

  Ltac len_norm := repeat rewrite ?len_app, ?len_cons, ?len_nil in *.

  Lemma row_wf g r ps : cfg_wf c g = true -> In r (options c) -> row_fits c g r = true ->
    (negb (is_string r) || conf_cont c || no_inline c (render_option c (row_render r) g)) = true ->
    forall rest, wf_items c true 0 rest = true -> wf_items c ps 0 (row_items c g r ++ rest) = true.
  Proof.
    intros WF Hin FIT NI rest REST.
    destruct (row_info r Hin) as [NM [RD [NU [TY [KEY _]]]]].
    pose proof (value_facts g (row_parse r) WF NU) as VF. rewrite <- TY in VF. rewrite <- RD in VF.
    assert (PA : forall w3 q v, prev_after ps (IKeyValue [] (row_name r) [SP] EQB w3 q v [] None) = true).
    { intros. cbn [prev_after]. now destruct (key_facts _ KEY) as [_ [_ [_ [_ [_ [_ A]]]]]]. }
    destruct (ok_conf c OK) as [_ [_ [_ [AS [Q _]]]]].
    unfold row_fits, is_string in FIT. unfold is_string in NI. unfold row_items.
    set (v := render_option c (row_render r) g) in *.
    destruct (row_type r) eqn:T.
    - (* boolean *)
      destruct (plain_value_q v VF) as [A1 [A2 A3]]. cbn [andb] in FIT. cbn [app].
      apply wf_items_cons; [apply kv_wf; auto| |now rewrite PA].
      unfold conf_line in FIT. rewrite T, AS in FIT. fold v in FIT. apply N.leb_le in FIT.
      cbn [render_item quote]. len_norm. clear -FIT. lia.
    - (* string *)
      cbn [negb orb] in NI. unfold value_shape in VF. apply andb_prop in VF as [CL SH].
      destruct (uses_cont c v) eqn:UC.
      + (* continuation form *)
        cbn [andb] in FIT. apply andb_prop in FIT as [F1 F2]. apply N.leb_le in F1, F2.
        unfold uses_cont in UC. apply andb_prop in UC as [CC HI].
        assert (CSH : cont_shape c v = true).
        { unfold no_inline in SH. rewrite HI in SH. exact SH. }
        unfold cont_shape in CSH. rewrite !andb_true_iff in CSH. destruct CSH as [[V1 V2] V3].
        cbn [app].
        apply wf_items_cons; [apply kv_wf; auto; unfold no_inline; rewrite IC; reflexivity| |].
        * cbn [render_item quote]. len_norm. clear -F1. lia.
        * rewrite PA. apply wf_items_cons.
          -- cbn [wf_item]. rewrite CL, V1, V2, V3. reflexivity.
          -- cbn [render_item]. len_norm. clear -F2. lia.
          -- exact REST.
      + (* quoted form *)
        assert (HI : has_inline [SEMI] false v = false).
        { unfold uses_cont in UC. destruct (conf_cont c); cbn [andb orb] in *.
          - now rewrite IC in UC.
          - unfold no_inline in NI. rewrite IC in NI. now apply negb_true_iff in NI. }
        cbn [andb] in FIT. cbn [app].
        apply wf_items_cons; [apply kv_wf; auto; now apply quoted_no_inline| |now rewrite PA].
        unfold conf_line in FIT. rewrite T, AS, Q in FIT. fold v in FIT.
        assert (UC' : (conf_cont c && has_inline (ini_inline_comment c) false v) = false) by exact UC. rewrite UC' in FIT.
        apply N.leb_le in FIT. cbn [render_item quote]. len_norm. clear -FIT. lia.
    - (* integer *)
      destruct (plain_value_q v VF) as [A1 [A2 A3]]. cbn [andb] in FIT. cbn [app].
      apply wf_items_cons; [apply kv_wf; auto| |now rewrite PA].
      unfold conf_line in FIT. rewrite T, AS in FIT. fold v in FIT. apply N.leb_le in FIT.
      cbn [render_item quote]. len_norm. clear -FIT. lia.
    - (* TNone: no registered row has it *)
      exfalso. destruct (row_parse r); simpl in TY; congruence.
  Qed.
End Listing.

(** * the round trip for configurations satisfying the invariant *)
Section Final.
  Variable c : config_consts.
  Hypothesis OK : config_consts_ok c = true.

  Let IC : ini_inline_comment c = [SEMI] := proj1 (proj2 (ok_ini c OK)).
  Let SC : ini_start_comment c = [SEMI; HASH] := proj1 (ok_ini c OK).

  Lemma rows_wf g rows : cfg_wf c g = true -> (forall r, In r rows -> In r (options c)) ->
    forallb (row_fits c g) rows = true ->
    forallb (fun r => negb (is_string r) || conf_cont c || no_inline c (render_option c (row_render r) g)) rows = true ->
    forall ps, wf_items c ps 0 (concat (map (row_items c g) rows)) = true.
  Proof.
    intros WF. induction rows as [|r rows IH]; intros SUB F N ps; [reflexivity|].
    simpl in F, N. apply andb_prop in F as [F1 F2]. apply andb_prop in N as [N1 N2]. cbn [map concat].
    apply (row_wf c OK); auto; [apply SUB; now left|]. apply IH; auto. intros x Hx. apply SUB. now right.
  Qed.

  Lemma clean_app a b : clean (a ++ b) = clean a && clean b.
  Proof. apply forallb_app. Qed.

  Theorem conf_ast_wf path g : cfg_wf c g = true -> conf_ok c path g = true -> wf c (conf_ast c path g) = true.
  Proof.
    intros WF CO. unfold conf_ok in CO. rewrite !andb_true_iff in CO. destruct CO as [[[CP LP] FITS] NIS].
    destruct (ok_conf c OK) as [HD [SE [SN [_ [_ [_ [_ [_ [_ [_ [_ LS]]]]]]]]]]].
    unfold wf, conf_ast. cbn [f_bom f_items orb]. apply andb_true_intro. split.
    - apply (wf_items_cons c).
      + cbn [wf_item]. rewrite SC, clean_app, CP, HD. reflexivity.
      + apply N.leb_le in LP. cbn [render_item]. rewrite HD in *. repeat rewrite ?len_app, ?len_cons, ?len_nil.
        change (len (tl (bytes "; Options from config file (or defaults): "))) with 41. change (len (bytes "; Options from config file (or defaults): ")) with 42 in LP. clear -LP. lia.
      + cbn [prev_after]. apply (wf_items_cons c).
        * cbn [wf_item]. rewrite SN. unfold no_inline. rewrite IC. reflexivity.
        * cbn [render_item]. rewrite SE in LS. repeat rewrite ?len_app, ?len_cons, ?len_nil in *. clear -LS. lia.
        * cbn [prev_after]. apply rows_wf; auto.
    - unfold render_items. cbn [map concat]. unfold render_line at 1. cbn [fst snd render_item app]. reflexivity.
  Qed.

  Lemma takeN_small n s : (len s <= n)%N -> takeN n s = s.
  Proof. apply takeN_all. Qed.

  Lemma rows_meaning g rows : (forall r, In r rows -> In r (options c)) -> forall prev,
    meaning_items c SNOOPY prev (concat (map (row_items c g) rows)) = concat (map (row_events c g) rows).
  Proof.
    induction rows as [|r rows IH]; intros SUB prev; [reflexivity|]. cbn [map concat].
    destruct (row_info c OK r (SUB r (or_introl eq_refl))) as [_ [_ [_ [_ [_ LN]]]]].
    assert (TK : takeN (ini_max_name c - 1) (row_name r) = row_name r) by (apply takeN_all; lia).
    assert (IHr : forall p, meaning_items c SNOOPY p (concat (map (row_items c g) rows)) = concat (map (row_events c g) rows))
      by (intros p; apply IH; intros x Hx; apply SUB; now right).
    unfold row_items, row_events, is_string.
    destruct (row_type r); cbn [andb app meaning_items]; rewrite ?TK, ?IHr; try reflexivity.
    destruct (uses_cont c (render_option c (row_render r) g)); cbn [app meaning_items]; rewrite ?TK, ?IHr; reflexivity.
  Qed.

  Lemma conf_meaning path g : meaning c (conf_ast c path g) = concat (map (row_events c g) (options c)).
  Proof.
    destruct (ok_conf c OK) as [_ [_ [SN _]]].
    unfold meaning, conf_ast. cbn [f_items meaning_items]. rewrite SN.
    assert (TK : takeN (ini_max_section c - 1) SNOOPY = SNOOPY).
    { apply takeN_all. pose proof OK as H. split_ok H.
      match goal with A : (len SNOOPY <? ini_max_section c) = true |- _ => apply N.ltb_lt in A; clear -A; lia end. }
    rewrite TK. apply rows_meaning. auto.
  Qed.

  Lemma row_registered r : In r (options c) -> registered c (row_parse r).
  Proof. intros H. unfold registered. apply in_map_iff. eauto. Qed.

  Lemma events_fold g rows : cfg_wf c g = true -> (forall r, In r rows -> In r (options c)) -> forall acc,
    fold_left (handler c) (concat (map (row_events c g) rows)) acc = fold_left (fun a r => copy (row_parse r) g a) rows acc.
  Proof.
    intros WF. induction rows as [|r rows IH]; intros SUB acc; [reflexivity|].
    cbn [map concat]. rewrite fold_left_app. cbn [fold_left]. rewrite <- IH by (intros x Hx; apply SUB; now right). f_equal.
    pose proof (SUB r (or_introl eq_refl)) as Hin.
    destruct (row_info c OK r Hin) as [NM [RD [NU _]]].
    assert (OCC : forall v, is_occ (row_parse r) (SNOOPY, row_name r, v) = true).
    { intros v. unfold is_occ. cbn [fst snd]. now rewrite NM, !list_eqb_refl. }
    assert (H1 : forall v a, handler c a (SNOOPY, row_name r, v) = parse_value c (row_parse r) v a).
    { intros v a. now rewrite (handler_occ c OK (row_parse r) _ a (row_registered r Hin) (OCC v)). }
    unfold row_events. rewrite RD.
    destruct (is_string r && uses_cont c (render_option c (row_parse r) g)); cbn [fold_left]; rewrite !H1.
    - rewrite (parse_render c OK _ g _ WF NU). apply copy_over_parse.
    - apply (parse_render c OK _ g _ WF NU).
  Qed.

  Lemma fold_copy_push o g rows : forall acc,
    copy o g (fold_left (fun a r => copy (row_parse r) g a) rows acc) = fold_left (fun a r => copy (row_parse r) g a) rows (copy o g acc).
  Proof. induction rows as [|r rows IH]; intros acc; [reflexivity|]. cbn [fold_left]. rewrite IH. f_equal. apply copy_comm_same. Qed.

  Lemma fold_copy_fixed o g rows : In o (map row_parse rows) -> forall acc,
    copy o g (fold_left (fun a r => copy (row_parse r) g a) rows acc) = fold_left (fun a r => copy (row_parse r) g a) rows acc.
  Proof.
    induction rows as [|r rows IH]; intros Hin acc; [contradiction|]. cbn [fold_left]. simpl in Hin.
    destruct (opt_eqb (row_parse r) o) eqn:E.
    - apply opt_eqb_eq in E. subst o. rewrite fold_copy_push. now rewrite copy_idem.
    - destruct Hin as [Hin|Hin]; [subst o; rewrite (proj2 (opt_eqb_eq _ _) eq_refl) in E; discriminate|]. now apply IH.
  Qed.

  Lemma fold_copy_other o a g rows : ~ In o (map row_parse rows) -> forall acc,
    copy o a (fold_left (fun x r => copy (row_parse r) g x) rows acc) = fold_left (fun x r => copy (row_parse r) g x) rows (copy o a acc).
  Proof.
    induction rows as [|r rows IH]; intros N acc; [reflexivity|]. cbn [fold_left]. simpl in N.
    rewrite IH by tauto. f_equal. apply copy_comm. intros E. apply N. now left.
  Qed.

  Theorem conf_roundtrip_wf path g : cfg_wf c g = true -> conf_ok c path g = true ->
    load c (defaults c) (conf_print c path g) = g.
  Proof.
    intros WF CO. unfold load. rewrite <- conf_render by exact OK.
    rewrite (grammar_roundtrip c OK _ (conf_ast_wf path g WF CO)). cbn [fst].
    rewrite conf_meaning, events_fold by auto.
    symmetry. apply cfg_ext. intros o Ho.
    destruct (in_dec (fun a b => match opt_eqb a b as x return opt_eqb a b = x -> {a = b} + {a <> b} with
                                   | true => fun E => left (proj1 (opt_eqb_eq a b) E)
                                   | false => fun E => right (fun H => eq_ind (opt_eqb a b) (fun x => x = false -> False) (fun F => ltac:(rewrite (proj2 (opt_eqb_eq a b) H) in F; discriminate F)) _ eq_refl E)
                                 end eq_refl) o (map row_parse (options c))) as [R|R].
    - now apply fold_copy_fixed.
    - (* only filter_chain may be absent from the registry *)
      assert (FC : o = OFilterChain).
      { pose proof OK as H. split_ok H.
        match goal with A : forallb (fun o => existsb _ (options c)) required_opts = true |- _ => rewrite forallb_forall in A; rename A into REQ end.
        destruct o; try reflexivity; try solve [exfalso; simpl in Ho; intuition discriminate]; exfalso; apply R;
          match goal with |- In ?x _ => specialize (REQ x ltac:(simpl; tauto)); apply existsb_exists in REQ as [r [Hr E]]; apply opt_eqb_eq in E; apply in_map_iff; eauto end. }
      subst o. unfold cfg_wf in WF. rewrite !andb_true_iff in WF. destruct WF as [_ FCW].
      assert (NR : registered_b c OFilterChain = false).
      { destruct (registered_b c OFilterChain) eqn:E; [|reflexivity]. exfalso. apply R. unfold registered_b in E.
        apply existsb_exists in E as [r [Hr E]]. apply opt_eqb_eq in E. apply in_map_iff. eauto. }
      rewrite NR in FCW. cbn [orb] in FCW. apply list_eqb_eq in FCW.
      set (RES := fold_left (fun a r => copy (row_parse r) g a) (options c) (defaults c)).
      assert (E : copy OFilterChain g RES = copy OFilterChain (defaults c) RES) by (unfold copy; now rewrite FCW).
      rewrite E. unfold RES. rewrite fold_copy_other by exact R. now rewrite copy_self.
  Qed.
End Final.
