(** Decimal rendering ([dec], what printf "%zu" prints) read back by the digit loop: [digits_val (dec n) = n]. *)
From Snoopy Require Import Lib.CStr.
From Coq Require Import ZifyBool ZifyN ZifyNat.
Local Open Scope N_scope.

Lemma fold_digits ds : forall a, fold_left (fun acc d => acc * 10 + digit_val d) ds a = a * 10 ^ len ds + digits_val ds.
Proof.
  unfold digits_val. induction ds as [|d ds IH]; intros a.
  - change (len []) with 0. simpl. lia.
  - cbn [fold_left]. rewrite IH. rewrite (IH (0 * 10 + digit_val d)). rewrite len_cons, N.pow_add_r. lia.
Qed.
Lemma digits_val_cons d ds : digits_val (d :: ds) = digit_val d * 10 ^ len ds + digits_val ds.
Proof. unfold digits_val at 1. cbn [fold_left]. rewrite fold_digits. lia. Qed.

Lemma digit_byte_ok d : d < 10 -> digit_val (digit_byte d) = d /\ is_digit (digit_byte d) = true.
Proof.
  intros H. assert (C : d = 0 \/ d = 1 \/ d = 2 \/ d = 3 \/ d = 4 \/ d = 5 \/ d = 6 \/ d = 7 \/ d = 8 \/ d = 9) by lia.
  destruct C as [->|[->|[->|[->|[->|[->|[->|[->|[->| ->]]]]]]]]]; split; reflexivity.
Qed.

Lemma dec_aux_spec fuel : forall n acc, n < 2 ^ N.of_nat (S fuel) -> forallb is_digit acc = true ->
  digits_val (dec_aux (S fuel) n acc) = n * 10 ^ len acc + digits_val acc
  /\ forallb is_digit (dec_aux (S fuel) n acc) = true /\ dec_aux (S fuel) n acc <> [].
Proof.
  induction fuel as [|fuel IH]; intros n acc B D.
  - assert (n < 10) by (simpl in B; lia).
    cbn [dec_aux]. destruct (N.ltb_spec n 10); [|lia].
    rewrite N.mod_small by assumption. destruct (digit_byte_ok n H) as [E1 E2].
    rewrite digits_val_cons, E1. simpl forallb. rewrite E2, D. split; [lia|split; [reflexivity|discriminate]].
  - cbn [dec_aux]. cbn [dec_aux] in IH.
    assert (M : n mod 10 < 10) by (apply N.mod_lt; lia).
    destruct (digit_byte_ok _ M) as [E1 E2].
    destruct (N.ltb_spec n 10) as [L|L].
    + rewrite N.mod_small by assumption. rewrite N.mod_small in E1, E2 by assumption.
      rewrite digits_val_cons, E1. simpl forallb. rewrite E2, D. split; [lia|split; [reflexivity|discriminate]].
    + assert (B' : n / 10 < 2 ^ N.of_nat (S fuel)).
      { rewrite Nat2N.inj_succ, N.pow_succ_r' in B. pose proof (N.div_mod n 10 ltac:(lia)). nia. }
      assert (D' : forallb is_digit (digit_byte (n mod 10) :: acc) = true) by (simpl; now rewrite E2, D).
      destruct (IH (n / 10) (digit_byte (n mod 10) :: acc) B' D') as [V [G N]].
      split; [|split; assumption].
      rewrite V, digits_val_cons, E1, len_cons, N.pow_add_r. pose proof (N.div_mod n 10 ltac:(lia)). nia.
Qed.

Theorem dec_spec n : digits_val (dec n) = n /\ forallb is_digit (dec n) = true /\ dec n <> [].
Proof.
  unfold dec. destruct (dec_aux_spec (N.to_nat (N.log2 n)) n []) as [V [D N]]; [|reflexivity|].
  - rewrite Nat2N.inj_succ, N2Nat.id. destruct (N.eq_dec n 0) as [->|Z]; [reflexivity|]. apply N.log2_spec. lia.
  - split; [|split; assumption]. rewrite V. change (len []) with 0. change (digits_val []) with 0. rewrite N.pow_0_r. lia.
Qed.
