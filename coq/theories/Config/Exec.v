(** Executable side of C08: the side condition on the regenerated constants ([config_consts_ok]),
    the documentation-level reading of every option value ([doc_*], independent of the parsers of
    Model.v), and the boolean checker [spec_load_ok] that is evaluated on what the implementation
    returned.  Definitions only; the theorems relating them to the model are in Config/Values.v. *)
From Coq Require Import Strings.String.
From Snoopy Require Import Lib.CStr Config.Model Config.Grammar.
Local Open Scope N_scope.

Definition same_set (a b : list byte) : bool := forallb (fun x => memb x b) a && forallb (fun x => memb x a) b.

Definition opt_eqb (a b : opt) : bool :=
  match a, b with
  | OErrorLogging, OErrorLogging | OFilterChain, OFilterChain | OMessageFormat, OMessageFormat | OOutput, OOutput
  | OFacility, OFacility | OIdent, OIdent | OLevel, OLevel | ODsLen, ODsLen | OLogLen, OLogLen | OUnknown, OUnknown => true
  | _, _ => false
  end.
Definition otype_eqb (a b : otype) : bool :=
  match a, b with TBool, TBool | TString, TString | TInt, TInt | TNone, TNone => true | _, _ => false end.

(** the documented option names (etc/snoopy.ini.in) and the type `snoopyctl conf` prints them with *)
Definition doc_name (o : opt) : list byte :=
  match o with
  | OErrorLogging => bytes "error_logging" | OFilterChain => bytes "filter_chain" | OMessageFormat => bytes "message_format"
  | OOutput => bytes "output" | OFacility => bytes "syslog_facility" | OIdent => bytes "syslog_ident" | OLevel => bytes "syslog_level"
  | ODsLen => bytes "datasource_message_max_length" | OLogLen => bytes "log_message_max_length" | OUnknown => []
  end.
Definition doc_type (o : opt) : otype :=
  match o with
  | OErrorLogging => TBool
  | ODsLen | OLogLen => TInt
  | OUnknown => TNone
  | _ => TString
  end.
Definition all_opts : list opt := [OErrorLogging; OFilterChain; OMessageFormat; OOutput; OFacility; OIdent; OLevel; ODsLen; OLogLen].
Definition required_opts : list opt := [OErrorLogging; OMessageFormat; OOutput; OFacility; OIdent; OLevel; ODsLen; OLogLen].

Definition LOG_ : list byte := bytes "LOG_".
Definition SNOOPY : list byte := bytes "snoopy".

(** * side condition on the constants *)
Definition row_ok (c : config_consts) (r : opt_row) : bool :=
  opt_eqb (row_parse r) (row_render r) && negb (opt_eqb (row_parse r) OUnknown)
  && list_eqb (row_name r) (doc_name (row_parse r)) && otype_eqb (row_type r) (doc_type (row_parse r))
  && existsb (list_eqb (row_name r)) (doc_options c).

Fixpoint nodupb (l : list (list byte)) : bool :=
  match l with [] => true | x :: l' => negb (existsb (list_eqb x) l') && nodupb l' end.

Definition table_sub (a b : list (list byte * N)) : bool :=
  forallb (fun p => match assoc_str (fst p) b with Some v => snd p =? v | None => false end) a.
Definition table_inv (a : list (list byte * N)) (b : list (N * list byte)) : bool :=
  forallb (fun p => match assoc_num (snd p) b with Some n => list_eqb n (fst p) | None => false end) a.
Definition upper_name (n : list byte) : bool := list_eqb (map to_upper n) n && negb (prefixb LOG_ n) && nonempty n.
Definition table_ok (t doc : list (list byte * N)) (inv : list (N * list byte)) (dflt : N) : bool :=
  table_sub t doc && table_sub doc t && table_inv t inv && forallb (fun p => upper_name (fst p)) t
  && existsb (fun p => snd p =? dflt) t.

Definition plain_text (v : list byte) : bool := clean v.
(** bytes that need no care in a configuration file: not whitespace, not a comment or quote character, not NUL *)
Definition plain_char (b : byte) : bool := negb (is_space b) && negb (memb b [SEMI; HASH; DQ; SQ; NUL]).
Definition printable (c : config_consts) (v : list byte) : bool := clean v && no_inline c v.

Definition len_ok (c : config_consts) (vmin vmax vdef dmin dmax ddef : N) : bool :=
  (1 <=? vmin) && (vmin <=? vmax) && (vmin <=? vdef) && (vdef <=? vmax)
  && (vmin =? dmin) && (vmax =? dmax) && (vdef =? ddef) && ((vmax * 10 + 9) * factor_m c <? 2 ^ 63).

Definition config_consts_ok (c : config_consts) : bool :=
  ini_flags_ok c && (8 <=? ini_max_line c) && (2 <=? ini_max_section c) && (2 <=? ini_max_name c)
  && (len SNOOPY <? ini_max_section c) && forallb (fun r => len (row_name r) <? ini_max_name c) (options c)
  && list_eqb (ini_start_comment c) [SEMI; HASH] && list_eqb (ini_inline_comment c) [SEMI]
  && list_eqb (section_name c) SNOOPY
  && forallb (row_ok c) (options c) && nodupb (map row_name (options c))
  && forallb (fun o => existsb (fun r => opt_eqb (row_parse r) o) (options c)) required_opts
  && same_set (bool_true c) (bytes "yYtT1") && same_set (bool_false c) (bytes "nNfF0")
  && list_eqb (bool_yes c) (bytes "yes") && list_eqb (bool_no c) (bytes "no")
  && list_eqb (log_prefix c) LOG_ && (cfg_strips c || util_strips c)
  && beq (output_sep c) COLONB
  && forallb (fun n => negb (memb COLONB n) && nonempty n && printable c n && no_outer_ws n && head_not_in [SEMI; HASH] n) (output_names c)
  && name_known c (d_output c)
  && table_ok (fac_to_int c) (doc_fac c) (fac_to_str c) (d_facility c)
  && table_ok (lvl_to_int c) (doc_lvl c) (lvl_to_str c) (d_level c)
  && forallb (fun p => forallb plain_char (fst p)) (fac_to_int c) && forallb (fun p => forallb plain_char (fst p)) (lvl_to_int c)
  && len_saturating c && same_set (suffix_k c) (bytes "kK") && (factor_k c =? 1024)
  && same_set (suffix_m c) (bytes "mM") && (factor_m c =? 1048576)
  && len_ok c (ds_min c) (ds_max c) (ds_def c) (doc_ds_min c) (doc_ds_max c) (doc_ds_def c)
  && len_ok c (log_min c) (log_max c) (log_def c) (doc_log_min c) (doc_log_max c) (doc_log_def c)
  && printable c (d_message_format c) && printable c (d_filter_chain c) && printable c (d_ident c)
  && printable c (d_output_arg c)
  && list_eqb (conf_header c) (bytes "; Options from config file (or defaults): ")
  && list_eqb (conf_section c) ([LBR] ++ section_name c ++ [RBR])
  && list_eqb (conf_assign c) (bytes " = ") && conf_quote c && (len (conf_section c) + 1 <=? ini_max_line c - 1)
  && (negb (conf_cont c) || list_eqb (conf_cont_sep c) ([SP; EQB; NL; SP; SP; SP; SP])).

(** exactly one layer removes the optional LOG_ prefix (otherwise LOG_LOG_NAME is read as NAME) *)
Definition single_strip (c : config_consts) : bool := xorb (cfg_strips c) (util_strips c).

(** * the documentation-level reading of option values *)
Definition doc_bool (v : list byte) : option bool :=
  match v with
  | b :: _ => if memb b (bytes "yYtT1") then Some true else if memb b (bytes "nNfF0") then Some false else None
  | [] => None
  end.

(** NAME or LOG_NAME in any letter case *)
Definition doc_syslog (t : list (list byte * N)) (v : list byte) : option N :=
  let u := map to_upper v in
  match assoc_str u t with
  | Some n => Some n
  | None => if prefixb LOG_ u then assoc_str (skipn 4 u) t else None
  end.

(** name[:argument]; the argument is everything after the first ':' *)
Definition doc_output (c : config_consts) (v : list byte) : option (list byte * list byte) :=
  match split_on COLONB v with
  | n :: rest => if existsb (list_eqb n) (output_names c) then Some (n, join [COLONB] rest) else None
  | [] => None
  end.

Fixpoint span_digits (s : list byte) : list byte * list byte :=
  match s with
  | b :: s' => if is_digit b then let (d, r) := span_digits s' in (b :: d, r) else ([], s)
  | [] => ([], [])
  end.
Definition doc_factor (rest : list byte) : N :=
  match rest with
  | b :: _ => if memb b (bytes "kK") then 1024 else if memb b (bytes "mM") then 1048576 else 1
  | [] => 1
  end.
Definition clamp (lo hi x : N) : N := N.max lo (N.min hi x).
(** digits with optional k/m suffix; [None]: no usable number (empty or all-zero numeral) *)
Definition doc_len (lo hi : N) (v : list byte) : option N :=
  let (ds, rest) := span_digits v in
  let n := digits_val ds in
  if n =? 0 then None else Some (clamp lo hi (n * doc_factor rest)).

Fixpoint name_of (n : N) (t : list (list byte * N)) : option (list byte) :=
  match t with
  | [] => None
  | (s, v) :: t' => if v =? n then Some s else name_of n t'
  end.

Definition show_bool (b : bool) : list byte := if b then bytes "yes" else bytes "no".
Definition show_output (p : list byte * list byte) : list byte :=
  match snd p with [] => fst p | a => fst p ++ [COLONB] ++ a end.

(** what the option API must show after a parsable value [v]; [None] = unparsable *)
Definition doc_show (c : config_consts) (o : opt) (v : list byte) : option (list byte) :=
  match o with
  | OErrorLogging => option_map show_bool (doc_bool v)
  | OFilterChain | OMessageFormat | OIdent => Some v
  | OOutput => option_map show_output (doc_output c v)
  | OFacility => match doc_syslog (doc_fac c) v with Some n => name_of n (doc_fac c) | None => None end
  | OLevel => match doc_syslog (doc_lvl c) v with Some n => name_of n (doc_lvl c) | None => None end
  | ODsLen => option_map dec (doc_len (doc_ds_min c) (doc_ds_max c) v)
  | OLogLen => option_map dec (doc_len (doc_log_min c) (doc_log_max c) v)
  | OUnknown => None
  end.

Definition default_show (c : config_consts) (o : opt) : list byte :=
  match o with
  | OErrorLogging => show_bool (d_error_logging c)
  | OFilterChain => d_filter_chain c
  | OMessageFormat => d_message_format c
  | OIdent => d_ident c
  | OOutput => show_output (d_output c, d_output_arg c)
  | OFacility => match name_of (d_facility c) (doc_fac c) with Some s => s | None => [] end
  | OLevel => match name_of (d_level c) (doc_lvl c) with Some s => s | None => [] end
  | ODsLen => dec (doc_ds_def c)
  | OLogLen => dec (doc_log_def c)
  | OUnknown => []
  end.

(** last occurrence wins; after an unparsable last occurrence either the built-in default or the
    value in force before that line is accepted (DESIGN.md section 10) *)
Fixpoint acceptable (c : config_consts) (o : opt) (rev_occs : list (list byte)) : list (list byte) :=
  match rev_occs with
  | [] => [default_show c o]
  | v :: earlier => match doc_show c o v with
                    | Some s => [s]
                    | None => default_show c o :: acceptable c o earlier
                    end
  end.

Definition occurrences (o : opt) (evs : list event) : list (list byte) :=
  map (fun e => snd e) (filter (fun e => list_eqb (fst (fst e)) SNOOPY && list_eqb (snd (fst e)) (doc_name o)) evs).

Definition spec_option_ok (c : config_consts) (evs : list event) (o : opt) (shown : list byte) : bool :=
  existsb (list_eqb shown) (acceptable c o (rev (occurrences o evs))).

Definition opt_of_name (n : list byte) : opt :=
  match filter (fun o => list_eqb (doc_name o) n) all_opts with o :: _ => o | [] => OUnknown end.

(** [shown]: (option name, value) pairs as returned by the library's option-value API after the
    handler calls [evs] were applied to the defaults *)
Definition spec_load_ok (c : config_consts) (evs : list event) (shown : list (list byte * list byte)) : bool :=
  forallb (fun p => let o := opt_of_name (fst p) in negb (opt_eqb o OUnknown) && spec_option_ok c evs o (snd p)) shown
  && forallb (fun o => existsb (fun p => list_eqb (fst p) (doc_name o)) shown) required_opts.

(** * what the drivers print *)
Definition shown_of (c : config_consts) (g : cfg) : list (list byte * list byte) :=
  map (fun r => (row_name r, render_option c (row_render r) g)) (options c).

Definition model_load (c : config_consts) (data : list byte) : cfg := load c (defaults c) data.
Definition model_cb (c : config_consts) (sec name value : list byte) : cfg := handler c (defaults c) (sec, name, value).
Definition model_conf (c : config_consts) (path data : list byte) : list byte := conf_print c path (model_load c data).
Definition model_ast (c : config_consts) (f : ini_file) : bool * list byte * list event := (wf c f, render f, meaning c f).
