(** Abstract syntax of the INI files the parser supports, their concrete rendering, their meaning
    (the handler calls the documentation promises), and the well-formedness conditions under which
    [ini_events (render f) = meaning f] (theorem C08_grammar_roundtrip, Config/RoundTrip.v).
    Definitions only. *)
From Snoopy Require Import Lib.CStr Config.Model.
Local Open Scope N_scope.

Inductive eol := ELF | ECRLF | ENONE.                     (* "\n", "\r\n", end of file without newline *)
Inductive quoting := QNone | QDouble | QSingle.

Inductive item :=
| IBlank (w : list byte)                                  (* whitespace only *)
| IComment (w : list byte) (mark : byte) (text : list byte)          (* ws ; text   or   ws # text *)
| ISection (w name trail : list byte)                     (* ws [ name ] trail *)
| IKeyValue (w1 key w2 : list byte) (sep : byte) (w3 : list byte) (q : quoting) (value w4 : list byte) (comment : option (list byte))
                                                          (* ws key ws sep ws value ws [; comment] *)
| ICont (w value : list byte).                            (* ws value : replaces the value of the previous key *)

Record ini_file := { f_bom : bool; f_items : list (item * eol) }.

Definition quote (q : quoting) (v : list byte) : list byte :=
  match q with QNone => v | QDouble => [DQ] ++ v ++ [DQ] | QSingle => [SQ] ++ v ++ [SQ] end.

Definition render_item (it : item) : list byte :=
  match it with
  | IBlank w => w
  | IComment w m t => w ++ [m] ++ t
  | ISection w n t => w ++ [LBR] ++ n ++ [RBR] ++ t
  | IKeyValue w1 k w2 sep w3 q v w4 cm =>
    w1 ++ k ++ w2 ++ [sep] ++ w3 ++ quote q v ++ w4 ++ match cm with Some t => SEMI :: t | None => [] end
  | ICont w v => w ++ v
  end.
Definition render_eol (e : eol) : list byte := match e with ELF => [NL] | ECRLF => [CR; NL] | ENONE => [] end.
Definition render_line (l : item * eol) : list byte := render_item (fst l) ++ render_eol (snd l).
Definition render_items (l : list (item * eol)) : list byte := concat (map render_line l).
Definition render (f : ini_file) : list byte := (if f_bom f then BOM else []) ++ render_items (f_items f).

Section Meaning.
  Variable c : config_consts.

  Fixpoint meaning_items (sec prev : list byte) (l : list (item * eol)) : list event :=
    match l with
    | [] => []
    | (it, _) :: rest =>
      match it with
      | IBlank _ | IComment _ _ _ => meaning_items sec prev rest
      | ISection _ n _ => meaning_items (takeN (ini_max_section c - 1) n) [] rest
      | IKeyValue _ k _ _ _ _ v _ _ => (sec, k, v) :: meaning_items sec (takeN (ini_max_name c - 1) k) rest
      | ICont _ v => (sec, prev, v) :: meaning_items sec prev rest
      end
    end.
  Definition meaning (f : ini_file) : list event := meaning_items [] [] (f_items f).

  (** ** well-formedness *)
  Definition inline_ws (w : list byte) : bool := forallb (fun b => is_space b && negb (beq b NL)) w.
  Definition clean (t : list byte) : bool := forallb (fun b => negb (beq b NL) && negb (beq b NUL)) t.
  Definition no_outer_ws (v : list byte) : bool := list_eqb (lskip v) v && list_eqb (rstrip v) v.
  Definition no_inline (v : list byte) : bool := negb (has_inline (ini_inline_comment c) false v).
  Definition head_not_in (l v : list byte) : bool := match v with b :: _ => negb (memb b l) | [] => true end.
  Definition is_none {A} (o : option A) : bool := match o with None => true | Some _ => false end.

  Definition wf_item (prev_set : bool) (it : item) : bool :=
    match it with
    | IBlank w => inline_ws w
    | IComment w m t => inline_ws w && memb m (ini_start_comment c) && clean t
    | ISection w n t =>
      inline_ws w && clean n && clean t && negb (memb RBR n) && no_inline n && (negb prev_set || negb (nonempty w))
    | IKeyValue w1 k w2 sep w3 q v w4 cm =>
      inline_ws w1 && inline_ws w2 && inline_ws w3 && inline_ws w4
      && clean k && negb (memb EQB k) && negb (memb COLONB k) && no_inline k && no_outer_ws k
      && head_not_in (LBR :: ini_start_comment c) k && (nonempty k || negb (nonempty w2))
      && (negb prev_set || negb (nonempty w1))
      && (beq sep EQB || beq sep COLONB)
      && clean v && no_inline (w3 ++ quote q v)
      && match q with QNone => no_outer_ws v && is_none (strip_q DQ v) && is_none (strip_q SQ v) | _ => true end
      && match cm with Some t => nonempty w4 && clean t | None => true end
    | ICont w v =>
      prev_set && inline_ws w && nonempty w && clean v && nonempty v && no_outer_ws v && head_not_in (ini_start_comment c) v
    end.

  (** is a previous name set after this item? *)
  Definition prev_after (prev_set : bool) (it : item) : bool :=
    match it with
    | IBlank _ | IComment _ _ _ | ICont _ _ => prev_set
    | ISection _ _ _ => false
    | IKeyValue _ k _ _ _ _ _ _ _ => nonempty k
    end.

  (** every physical line, with its line end, fits one fgets buffer; only the last line may lack the newline *)
  Fixpoint wf_items (prev_set : bool) (extra : N) (l : list (item * eol)) : bool :=
    match l with
    | [] => true
    | (it, e) :: rest =>
      wf_item prev_set it
      && (extra + len (render_line (it, e)) <=? ini_max_line c - 1)
      && match e with ENONE => match rest with [] => true | _ => false end | _ => true end
      && wf_items (prev_after prev_set it) 0 rest
    end.

  Definition wf (f : ini_file) : bool :=
    wf_items false (if f_bom f then 3 else 0) (f_items f)
    && (f_bom f || negb (prefixb BOM (render_items (f_items f)))).
End Meaning.
