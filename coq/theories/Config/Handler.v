(** C08, callback level: what a sequence of handler calls does to the settings.
    - [handler_ignored]: other sections and unknown names leave the record unchanged;
    - [own_value]: the shown value after one occurrence is its documented reading ([doc_show]), the
      unparsable case falling back as each parser does (boolean: value in force; others: built-in default);
    - [last_wins]: after any sequence of handler calls the shown value of an option is determined by
      its last occurrence ([resolve]);
    - [model_meets_spec]: the executable [spec_option_ok] accepts the model's result. *)
From Coq Require Import Strings.String.
From Snoopy Require Import Lib.CStr Config.Model Config.Grammar Config.Exec Config.Values.
From Coq Require Import ZifyBool ZifyN ZifyNat.
Local Open Scope N_scope.

Definition registered (c : config_consts) (o : opt) : Prop := In o (map row_parse (options c)).

Lemma opt_eqb_eq a b : opt_eqb a b = true <-> a = b.
Proof. destruct a, b; simpl; split; intros H; try reflexivity; try discriminate. Qed.

Lemma doc_name_inj_b : forallb (fun o => forallb (fun o' => implb (list_eqb (doc_name o) (doc_name o')) (opt_eqb o o')) (OUnknown :: all_opts)) (OUnknown :: all_opts) = true.
Proof. vm_compute. reflexivity. Qed.
Lemma all_opts_complete o : In o (OUnknown :: all_opts).
Proof. destruct o; simpl; tauto. Qed.
Lemma doc_name_inj o o' : doc_name o = doc_name o' -> o = o'.
Proof.
  intros E. pose proof doc_name_inj_b as H. rewrite forallb_forall in H. specialize (H o (all_opts_complete o)).
  rewrite forallb_forall in H. specialize (H o' (all_opts_complete o')). rewrite E, list_eqb_refl in H. simpl in H. now apply opt_eqb_eq.
Qed.

Lemma find_row_In name rows r : find_row name rows = Some r -> In r rows /\ row_name r = name.
Proof.
  induction rows as [|x rows IH]; simpl; [discriminate|].
  destruct (list_eqb (row_name x) name) eqn:E.
  - intros Hx; injection Hx as ->. apply list_eqb_eq in E. auto.
  - intros Hx. destruct (IH Hx). auto.
Qed.
Lemma find_row_None name rows : find_row name rows = None -> forall r, In r rows -> row_name r <> name.
Proof.
  induction rows as [|x rows IH]; simpl; [tauto|].
  destruct (list_eqb (row_name x) name) eqn:E; [discriminate|]. intros Hn r [<-|Hr].
  - now apply list_eqb_neq.
  - now apply IH.
Qed.

Section Handler.
  Variable c : config_consts.
  Hypothesis OK : config_consts_ok c = true.

  Lemma rows_ok : forall r, In r (options c) -> row_ok c r = true.
  Proof. pose proof OK as H. split_ok H. match goal with A : forallb (row_ok c) _ = true |- _ => now rewrite forallb_forall in A end. Qed.

  Lemma row_facts r : In r (options c) -> row_name r = doc_name (row_parse r) /\ row_render r = row_parse r /\ row_parse r <> OUnknown /\ row_type r = doc_type (row_parse r).
  Proof.
    intros Hin. pose proof (rows_ok r Hin) as H. unfold row_ok in H. rewrite !andb_true_iff, negb_true_iff in H.
    destruct H as [[[[H1 H2] H3] H4] _]. apply opt_eqb_eq in H1. apply list_eqb_eq in H3.
    repeat split; auto.
    - intros E. rewrite E in H2. discriminate.
    - destruct (row_type r), (doc_type (row_parse r)); simpl in H4; try discriminate; reflexivity.
  Qed.

  Lemma find_registered o : registered c o -> exists r, find_row (doc_name o) (options c) = Some r /\ row_parse r = o /\ In r (options c).
  Proof.
    intros R. unfold registered in R. apply in_map_iff in R as [r0 [E0 Hin0]].
    destruct (find_row (doc_name o) (options c)) as [r|] eqn:F.
    - destruct (find_row_In _ _ _ F) as [Hin Hn]. exists r. repeat split; auto.
      destruct (row_facts r Hin) as [N _]. rewrite N in Hn. now apply doc_name_inj.
    - exfalso. apply (find_row_None _ _ F r0 Hin0). destruct (row_facts r0 Hin0) as [N _]. now rewrite N, E0.
  Qed.

  Lemma find_other name r : find_row name (options c) = Some r -> name = doc_name (row_parse r) /\ registered c (row_parse r).
  Proof.
    intros F. destruct (find_row_In _ _ _ F) as [Hin Hn]. destruct (row_facts r Hin) as [N _]. split; [congruence|].
    unfold registered. apply in_map_iff. eauto.
  Qed.

  (** ** C08_ignored, callback part *)
  Theorem handler_ignored g sec name v :
    sec <> SNOOPY \/ (forall o, registered c o -> name <> doc_name o) -> handler c g (sec, name, v) = g.
  Proof.
    pose proof OK as H. split_ok H.
    match goal with A : list_eqb (section_name c) SNOOPY = true |- _ => apply list_eqb_eq in A; rename A into S end.
    intros [D|D]; unfold handler; rewrite S.
    - apply list_eqb_neq in D. now rewrite D.
    - destruct (list_eqb sec SNOOPY); [|reflexivity].
      destruct (find_row name (options c)) as [r|] eqn:F; [|reflexivity].
      destruct (find_other _ _ F) as [E R]. exfalso. exact (D _ R E).
  Qed.

  Definition is_occ (o : opt) (e : event) : bool := list_eqb (fst (fst e)) SNOOPY && list_eqb (snd (fst e)) (doc_name o).

  Lemma handler_occ o e g : registered c o -> is_occ o e = true -> handler c g e = parse_value c o (snd e) g.
  Proof.
    pose proof OK as H. split_ok H.
    match goal with A : list_eqb (section_name c) SNOOPY = true |- _ => apply list_eqb_eq in A; rename A into S end.
    intros R Occ. destruct e as [[sec name] v]. unfold is_occ in Occ. simpl in Occ. apply andb_prop in Occ as [O1 O2].
    apply list_eqb_eq in O2. subst name. unfold handler. rewrite S, O1.
    destruct (find_registered o R) as [r [F [P _]]]. rewrite F, P. reflexivity.
  Qed.

  (** a call that is not an occurrence of [o] does not change what is shown for [o] *)
  Lemma frame o o' v g : o <> o' -> render_option c o (parse_value c o' v g) = render_option c o g.
  Proof.
    intros D. destruct o, o'; try congruence; try reflexivity.
    all: simpl; destruct (parse_bool c v); reflexivity.
  Qed.

  Lemma handler_frame o e g : is_occ o e = false -> render_option c o (handler c g e) = render_option c o g.
  Proof.
    pose proof OK as H. split_ok H.
    match goal with A : list_eqb (section_name c) SNOOPY = true |- _ => apply list_eqb_eq in A; rename A into S end.
    intros Occ. destruct e as [[sec name] v]. unfold is_occ in Occ. simpl in Occ. unfold handler. rewrite S.
    destruct (list_eqb sec SNOOPY) eqn:E1; [|reflexivity]. simpl in Occ.
    destruct (find_row name (options c)) as [r|] eqn:F; [|reflexivity].
    destruct (find_other _ _ F) as [E _]. apply frame. intros ->. rewrite E, list_eqb_refl in Occ. discriminate.
  Qed.

  (** ** the shown value after one occurrence *)
  Definition keeps_on_garbage (o : opt) : bool := match o with OErrorLogging => true | _ => false end.
  Definition after_value (o : opt) (v : list byte) (before : list byte) : list byte :=
    match doc_show c o v with
    | Some s => s
    | None => if keeps_on_garbage o then before else default_show c o
    end.

  Lemma name_of_In n t s : name_of n t = Some s -> In (s, n) t.
  Proof.
    induction t as [|[k x] t IH]; simpl; [discriminate|]. destruct (N.eqb_spec x n).
    - intros Hx; injection Hx as ->. subst. now left.
    - intros Hx. right. now apply IH.
  Qed.
  Lemma name_of_some n t k : In (k, n) t -> exists s, name_of n t = Some s.
  Proof.
    induction t as [|[k' x] t IH]; simpl; [tauto|]. intros [Hx|Hx].
    - injection Hx as -> ->. rewrite N.eqb_refl. eauto.
    - destruct (x =? n); eauto.
  Qed.

  Lemma render_table t doc inv dflt n k : table_ok t doc inv dflt = true -> In (k, n) doc ->
    exists s, name_of n doc = Some s /\ assoc_num n inv = Some s.
  Proof.
    intros T Hin. unfold table_ok in T. rewrite !andb_true_iff in T. destruct T as [[[[T1 T2] T3] _] _].
    destruct (name_of_some _ _ _ Hin) as [s Hs]. exists s. split; [assumption|].
    apply name_of_In in Hs. pose proof (table_sub_spec _ _ T2 _ _ Hs) as Q. apply assoc_str_In in Q.
    unfold table_inv in T3. rewrite forallb_forall in T3. specialize (T3 _ Q). simpl in T3.
    destruct (assoc_num n inv) as [s'|]; [|discriminate]. apply list_eqb_eq in T3. now subst.
  Qed.
  Lemma default_in_doc t doc inv dflt : table_ok t doc inv dflt = true -> exists k, In (k, dflt) doc.
  Proof.
    intros T. unfold table_ok in T. rewrite !andb_true_iff in T. destruct T as [[[[T1 T2] T3] _] T5].
    apply existsb_exists in T5 as [[k x] [Hin E]]. simpl in E. apply N.eqb_eq in E. subst x.
    exists k. pose proof (table_sub_spec _ _ T1 _ _ Hin) as Q. now apply assoc_str_In in Q.
  Qed.
  Lemma doc_syslog_In t v n : doc_syslog t v = Some n -> exists k, In (k, n) t.
  Proof.
    unfold doc_syslog. destruct (assoc_str (map to_upper v) t) as [m|] eqn:E.
    - intros Hx; injection Hx as ->. eexists. eapply assoc_str_In; eauto.
    - destruct (prefixb LOG_ (map to_upper v)); [|discriminate]. intros Hx. eexists. eapply assoc_str_In; eauto.
  Qed.

  Definition syslog_clean_value (v : list byte) : Prop := single_strip c = true \/ no_double_prefix v = true.

  Theorem own_value o v g : registered c o -> syslog_clean_value v ->
    render_option c o (parse_value c o v g) = after_value o v (render_option c o g).
  Proof.
    intros R SC. pose proof OK as H. split_ok H. unfold after_value.
    destruct o; simpl.
    - (* error_logging *)
      rewrite (bool_first_letter c OK). destruct (doc_bool v) as [b|]; simpl; [|reflexivity].
      match goal with A : list_eqb (bool_yes c) _ = true, B : list_eqb (bool_no c) _ = true |- _ => apply list_eqb_eq in A, B; rewrite A, B end.
      now destruct b.
    - reflexivity.
    - reflexivity.
    - (* output *)
      rewrite (output_split c OK).
      match goal with A : beq (output_sep c) COLONB = true |- _ => apply beq_eq in A; rename A into S end.
      unfold render_output, show_output. simpl. rewrite S.
      destruct (doc_output c v) as [[n a]|]; reflexivity.
    - (* facility *)
      rewrite (syslog_facility_names c OK v SC). unfold render_facility.
      match goal with A : table_ok (fac_to_int c) _ _ _ = true |- _ => rename A into T end.
      destruct (doc_syslog (doc_fac c) v) as [n|] eqn:E.
      + destruct (doc_syslog_In _ _ _ E) as [k Hk]. destruct (render_table _ _ _ _ _ _ T Hk) as [s [E1 E2]]. now rewrite E1, E2.
      + simpl. destruct (default_in_doc _ _ _ _ T) as [k Hk]. destruct (render_table _ _ _ _ _ _ T Hk) as [s [E1 E2]]. now rewrite E1, E2.
    - reflexivity.
    - (* level *)
      rewrite (syslog_level_names c OK v SC). unfold render_level.
      match goal with A : table_ok (lvl_to_int c) _ _ _ = true |- _ => rename A into T end.
      destruct (doc_syslog (doc_lvl c) v) as [n|] eqn:E.
      + destruct (doc_syslog_In _ _ _ E) as [k Hk]. destruct (render_table _ _ _ _ _ _ T Hk) as [s [E1 E2]]. now rewrite E1, E2.
      + simpl. destruct (default_in_doc _ _ _ _ T) as [k Hk]. destruct (render_table _ _ _ _ _ _ T Hk) as [s [E1 E2]]. now rewrite E1, E2.
    - (* datasource_message_max_length *)
      destruct (ok_ds c OK) as [L1 [L2 [L3 [L5 [L6 L7]]]]]. rewrite (bytelen_doc c OK) by exact L2. rewrite <- L5, <- L6, <- L7.
      destruct (doc_len (ds_min c) (ds_max c) v); reflexivity.
    - (* log_message_max_length *)
      destruct (ok_log c OK) as [L1 [L2 [L3 [L5 [L6 L7]]]]]. rewrite (bytelen_doc c OK) by exact L2. rewrite <- L5, <- L6, <- L7.
      destruct (doc_len (log_min c) (log_max c) v); reflexivity.
    - (* OUnknown is never registered *)
      exfalso. unfold registered in R. apply in_map_iff in R as [r [E Hin]]. destruct (row_facts r Hin) as [_ [_ [N _]]]. congruence.
  Qed.

  (** ** last occurrence wins *)
  Fixpoint resolve (o : opt) (start : list byte) (rev_occs : list (list byte)) : list byte :=
    match rev_occs with
    | [] => start
    | v :: earlier => after_value o v (resolve o start earlier)
    end.

  Definition syslog_clean (evs : list event) : Prop := single_strip c = true \/ forall e, In e evs -> no_double_prefix (snd e) = true.

  Lemma occurrences_app o a b : occurrences o (a ++ b) = occurrences o a ++ occurrences o b.
  Proof. unfold occurrences. now rewrite filter_app, map_app. Qed.

  Theorem last_wins o evs g : registered c o -> syslog_clean evs ->
    render_option c o (fold_left (handler c) evs g) = resolve o (render_option c o g) (rev (occurrences o evs)).
  Proof.
    intros R. induction evs as [|e evs IH] using rev_ind; intros SC; [reflexivity|].
    rewrite fold_left_app, occurrences_app, rev_app_distr. simpl fold_left.
    assert (SC' : syslog_clean evs).
    { destruct SC as [SC|SC]; [now left|right]. intros x Hx. apply SC. apply in_or_app. now left. }
    specialize (IH SC').
    destruct (is_occ o e) eqn:Occ.
    - rewrite (handler_occ o e _ R Occ), own_value; auto.
      + unfold occurrences at 1. simpl filter. unfold is_occ in Occ. rewrite Occ. simpl. now rewrite IH.
      + destruct SC as [SC|SC]; [now left|right]. apply SC. apply in_or_app. right. now left.
    - rewrite (handler_frame o e _ Occ). unfold occurrences at 1. simpl filter. unfold is_occ in Occ. rewrite Occ. simpl. exact IH.
  Qed.

  (** the shown value depends on the occurrences of that option only, and on nothing before the last parsable one *)
  Corollary last_parsable_decides o evs1 e evs2 g s : registered c o -> syslog_clean (evs1 ++ e :: evs2) ->
    is_occ o e = true -> doc_show c o (snd e) = Some s -> occurrences o evs2 = [] ->
    render_option c o (fold_left (handler c) (evs1 ++ e :: evs2) g) = s.
  Proof.
    intros R SC Occ D N. rewrite (last_wins o _ g R SC).
    replace (evs1 ++ e :: evs2) with ((evs1 ++ [e]) ++ evs2) by (now rewrite <- app_assoc).
    rewrite occurrences_app, N, app_nil_r, occurrences_app, rev_app_distr.
    unfold occurrences at 1. simpl filter. unfold is_occ in Occ. rewrite Occ. simpl. unfold after_value. now rewrite D.
  Qed.

  (** ** the model satisfies the executable specification *)
  Lemma default_show_defaults o : registered c o -> render_option c o (defaults c) = default_show c o.
  Proof.
    intros R. pose proof OK as H. split_ok H. destruct o; simpl; try reflexivity.
    - match goal with A : list_eqb (bool_yes c) _ = true, B : list_eqb (bool_no c) _ = true |- _ => apply list_eqb_eq in A, B; rewrite A, B end.
      now destruct (d_error_logging c).
    - match goal with A : beq (output_sep c) COLONB = true |- _ => apply beq_eq in A; rename A into S end.
      unfold render_output, show_output. simpl. now rewrite S.
    - match goal with A : table_ok (fac_to_int c) _ _ _ = true |- _ => rename A into T end. unfold render_facility.
      destruct (default_in_doc _ _ _ _ T) as [k Hk]. destruct (render_table _ _ _ _ _ _ T Hk) as [s [E1 E2]]. now rewrite E1, E2.
    - match goal with A : table_ok (lvl_to_int c) _ _ _ = true |- _ => rename A into T end. unfold render_level.
      destruct (default_in_doc _ _ _ _ T) as [k Hk]. destruct (render_table _ _ _ _ _ _ T Hk) as [s [E1 E2]]. now rewrite E1, E2.
    - destruct (ok_ds c OK) as [_ [_ [_ [_ [_ L7]]]]]. now rewrite L7.
    - destruct (ok_log c OK) as [_ [_ [_ [_ [_ L7]]]]]. now rewrite L7.
  Qed.

  Lemma resolve_acceptable o occs : In (resolve o (default_show c o) occs) (acceptable c o occs).
  Proof.
    induction occs as [|v occs IH]; simpl; [now left|]. unfold after_value.
    destruct (doc_show c o v) as [s|]; [now left|]. destruct (keeps_on_garbage o); [now right|now left].
  Qed.

  Theorem model_meets_spec o evs : registered c o -> syslog_clean evs ->
    spec_option_ok c evs o (render_option c o (fold_left (handler c) evs (defaults c))) = true.
  Proof.
    intros R SC. unfold spec_option_ok. rewrite (last_wins o evs _ R SC), (default_show_defaults o R).
    apply existsb_exists. eexists. split; [apply resolve_acceptable|apply list_eqb_refl].
  Qed.
End Handler.
