(** Lemmas about the string helpers of ini.c ([rstrip], [lskip], [find_chars_or_comment], the C-string
    view, the fgets chunking) used by the per-line lemmas and the grammar round trip. *)
From Coq Require Import Strings.String.
From Snoopy Require Import Lib.CStr Config.Model Config.Grammar Config.Exec Config.Values.
From Coq Require Import ZifyBool ZifyN ZifyNat.
Local Open Scope nat_scope.

Definition all_space (w : list byte) : bool := forallb is_space w.
Definition head_nonspace (v : list byte) : bool := match v with b :: _ => negb (is_space b) | [] => true end.

(** * rstrip *)
Lemma rstrip_all_space w : all_space w = true -> rstrip w = [].
Proof. induction w as [|b w IH]; simpl; [reflexivity|]. intros H. apply andb_prop in H as [H1 H2]. now rewrite (IH H2), H1. Qed.

Lemma rstrip_app_space s w : all_space w = true -> rstrip (s ++ w) = rstrip s.
Proof. intros H. induction s as [|b s IH]; simpl; [now apply rstrip_all_space|]. now rewrite IH. Qed.

Lemma rstrip_cons_nonspace b s : is_space b = false -> rstrip (b :: s) = b :: rstrip s.
Proof. intros H. simpl. destruct (rstrip s); [now rewrite H|reflexivity]. Qed.

Lemma rstrip_app_nonempty s t : rstrip t <> [] -> rstrip (s ++ t) = s ++ rstrip t.
Proof.
  intros H. induction s as [|b s IH]; simpl; [reflexivity|]. rewrite IH.
  destruct (s ++ rstrip t) eqn:E; [|reflexivity]. apply app_eq_nil in E as [_ E]. contradiction.
Qed.

Lemma rstrip_split s : exists w, s = rstrip s ++ w /\ all_space w = true.
Proof.
  induction s as [|b s [w [E W]]]; [exists []; auto|]. simpl.
  destruct (rstrip s) as [|x r] eqn:R.
  - destruct (is_space b) eqn:Sb.
    + exists (b :: s). split; [reflexivity|]. simpl. rewrite Sb. simpl in E. now rewrite E.
    + exists w. simpl in E. split; [now rewrite <- E|assumption].
  - exists w. split; [|assumption]. simpl. f_equal. exact E.
Qed.

Lemma rstrip_idem s : rstrip (rstrip s) = rstrip s.
Proof.
  destruct (rstrip_split s) as [w [E W]]. rewrite E at 2. now rewrite rstrip_app_space.
Qed.

(** * lskip *)
Lemma lskip_app_space w s : all_space w = true -> lskip (w ++ s) = lskip s.
Proof. induction w as [|b w IH]; simpl; [reflexivity|]. intros H. apply andb_prop in H as [H1 H2]. rewrite H1. now apply IH. Qed.
Lemma lskip_head_nonspace s : head_nonspace s = true -> lskip s = s.
Proof. destruct s as [|b s]; simpl; [reflexivity|]. intros H. apply negb_true_iff in H. now rewrite H. Qed.
Lemma lskip_all_space w : all_space w = true -> lskip w = [].
Proof. intros H. rewrite <- (app_nil_r w). now rewrite lskip_app_space. Qed.
Lemma lskip_fixed_head s : lskip s = s -> head_nonspace s = true.
Proof.
  destruct s as [|b s]; simpl; [reflexivity|]. destruct (is_space b) eqn:E; [|reflexivity].
  intros H. exfalso. assert (L : length (lskip s) <= length s).
  { clear. induction s as [|x s IH]; simpl; [lia|]. destruct (is_space x); simpl; lia. }
  rewrite H in L. simpl in L. lia.
Qed.

(** * has_inline / find_chars_or_comment *)
Definition ends_space (ws0 : bool) (p : list byte) : bool := match rev p with [] => ws0 | b :: _ => is_space b end.

Lemma ends_space_cons ws0 b p : ends_space ws0 (b :: p) = ends_space (is_space b) p.
Proof.
  unfold ends_space. simpl. destruct (rev p) as [|x r] eqn:E; simpl; [reflexivity|reflexivity].
Qed.
Lemma ends_space_app_space ws0 p w : w <> [] -> all_space w = true -> ends_space ws0 (p ++ w) = true.
Proof.
  intros N W. unfold ends_space. rewrite rev_app_distr. destruct (rev w) as [|x r] eqn:E.
  - apply (f_equal (@rev byte)) in E. rewrite rev_involutive in E. simpl in E. contradiction.
  - simpl. unfold all_space in W. rewrite forallb_forall in W. apply W. apply in_rev. rewrite E. now left.
Qed.

Lemma has_inline_app inl p : forall ws0 q, has_inline inl ws0 (p ++ q) = has_inline inl ws0 p || has_inline inl (ends_space ws0 p) q.
Proof.
  induction p as [|b p IH]; intros ws0 q; [reflexivity|].
  simpl. rewrite IH, ends_space_cons. now rewrite orb_assoc.
Qed.
Lemma has_inline_space inl w : (forall b, In b w -> memb b inl = false) -> forall ws0, has_inline inl ws0 w = false.
Proof.
  induction w as [|b w IH]; intros H ws0; [reflexivity|]. simpl. rewrite (H b (or_introl eq_refl)), andb_false_r. simpl.
  apply IH. intros x Hx. apply H. now right.
Qed.

Lemma fcc_app chars inl p : forall ws0 rest, (forall b, In b p -> memb b chars = false) -> has_inline inl ws0 p = false ->
  fcc chars inl ws0 (p ++ rest) = (p ++ fst (fcc chars inl (ends_space ws0 p) rest), snd (fcc chars inl (ends_space ws0 p) rest)).
Proof.
  induction p as [|b p IH]; intros ws0 rest C I.
  - simpl. unfold ends_space. simpl. now destruct (fcc chars inl ws0 rest).
  - simpl in I. apply orb_false_iff in I as [I1 I2]. simpl. rewrite (C b (or_introl eq_refl)), I1. simpl.
    rewrite IH; [|intros x Hx; apply C; now right|assumption]. rewrite ends_space_cons. reflexivity.
Qed.
Lemma fcc_all chars inl p ws0 : (forall b, In b p -> memb b chars = false) -> has_inline inl ws0 p = false ->
  fcc chars inl ws0 p = (p, []).
Proof. intros C I. rewrite <- (app_nil_r p) at 1. rewrite fcc_app by assumption. simpl. now rewrite app_nil_r. Qed.
Lemma fcc_stop_char chars inl p ws0 x r : (forall b, In b p -> memb b chars = false) -> has_inline inl ws0 p = false ->
  memb x chars = true -> fcc chars inl ws0 (p ++ x :: r) = (p, x :: r).
Proof. intros C I X. rewrite fcc_app by assumption. simpl. rewrite X. simpl. now rewrite app_nil_r. Qed.
Lemma fcc_stop_inline chars inl p ws0 x r : (forall b, In b p -> memb b chars = false) -> has_inline inl ws0 p = false ->
  ends_space ws0 p = true -> memb x inl = true -> fcc chars inl ws0 (p ++ x :: r) = (p, x :: r).
Proof. intros C I E X. rewrite fcc_app by assumption. simpl. rewrite E, X, orb_true_r. simpl. now rewrite app_nil_r. Qed.

(** * C-string view *)
Lemma cstr_nonul s : forallb (fun b => negb (beq b NUL)) s = true -> cstr s = s.
Proof. induction s as [|b s IH]; simpl; [reflexivity|]. intros H. apply andb_prop in H as [H1 H2]. apply negb_true_iff in H1. now rewrite H1, IH. Qed.

(** * fgets chunking *)
Lemma chunks_line n rest l : forall k, ~ In NL l -> length l < k -> chunks n k (l ++ NL :: rest) = (l ++ [NL]) :: chunks n n rest.
Proof.
  induction l as [|b l IH]; intros k N L.
  - simpl. reflexivity.
  - simpl. assert (B : beq b NL = false) by (apply beq_neq; intros ->; apply N; now left). rewrite B.
    simpl in L. destruct k as [|[|k']]; try lia. rewrite IH; [reflexivity|intros Hx; apply N; now right|lia].
Qed.
Lemma chunks_last n l : forall k, ~ In NL l -> length l <= k -> 1 <= k -> chunks n k l = match l with [] => [] | _ => [l] end.
Proof.
  induction l as [|b l IH]; intros k N L K; [reflexivity|].
  simpl. assert (B : beq b NL = false) by (apply beq_neq; intros ->; apply N; now left). rewrite B. simpl in L.
  destruct k as [|[|k']]; try lia.
  - destruct l; [reflexivity|simpl in L; lia].
  - rewrite IH; [|intros Hx; apply N; now right|lia|lia]. destruct l; reflexivity.
Qed.
