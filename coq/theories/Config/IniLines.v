(** C08, per-line lemmas for ini_parse_stream: what one physical line of each kind of the grammar
    does ([blank_line], [comment_line_no_event], [section_line], [kv_line_event], [cont_line_event]),
    for every constant record with [config_consts_ok c = true]. *)
From Coq Require Import Strings.String.
From Snoopy Require Import Lib.CStr Config.Model Config.Grammar Config.Exec Config.Values Config.IniLemmas.
From Coq Require Import ZifyBool ZifyN ZifyNat.
Local Open Scope nat_scope.

Lemma ok_ini c : config_consts_ok c = true ->
  ini_start_comment c = [SEMI; HASH] /\ ini_inline_comment c = [SEMI] /\ (8 <= ini_max_line c)%N /\ (2 <= ini_max_section c)%N /\ (2 <= ini_max_name c)%N.
Proof.
  intros H. split_ok H.
  repeat match goal with A : list_eqb _ _ = true |- _ => apply list_eqb_eq in A end.
  repeat match goal with A : (_ <=? _)%N = true |- _ => apply N.leb_le in A end.
  repeat split; assumption.
Qed.

Section Lines.
  Variable c : config_consts.
  Hypothesis OK : config_consts_ok c = true.

  Let SC : ini_start_comment c = [SEMI; HASH] := proj1 (ok_ini c OK).
  Let IC : ini_inline_comment c = [SEMI] := proj1 (proj2 (ok_ini c OK)).

  Definition same_state (st : ini_state) (ln : N) : ini_state :=
    {| st_section := st_section st; st_prev := st_prev st; st_error := st_error st; st_lineno := ln |}.

  (** the body of ini_body after [start] and [moved] are known *)
  Definition dispatch (st : ini_state) (lineno : N) (moved : bool) (start : list byte) : ini_state * list event :=
    let same := {| st_section := st_section st; st_prev := st_prev st; st_error := st_error st; st_lineno := lineno |} in
    match start with
    | [] => (same, [])
    | b :: rest =>
      if memb b (ini_start_comment c) then (same, [])
      else if nonempty (st_prev st) && moved then (same, [(st_section st, st_prev st, start)])
      else if beq b LBR then
        let (sec, r) := fcc [RBR] (ini_inline_comment c) false rest in
        match r with
        | x :: _ => if beq x RBR
                    then ({| st_section := takeN (ini_max_section c - 1) sec; st_prev := [];
                             st_error := st_error st; st_lineno := lineno |}, [])
                    else (set_error st lineno, [])
        | [] => (set_error st lineno, [])
        end
      else
        let (nm, r) := fcc [EQB; COLONB] (ini_inline_comment c) false start in
        match r with
        | x :: v => if beq x EQB || beq x COLONB
                    then let name := rstrip nm in
                         let (v1, _) := fcc [] (ini_inline_comment c) false v in
                         let value := unquote (rstrip (lskip v1)) in
                         ({| st_section := st_section st; st_prev := takeN (ini_max_name c - 1) name;
                             st_error := st_error st; st_lineno := lineno |}, [(st_section st, name, value)])
                    else (set_error st lineno, [])
        | [] => (set_error st lineno, [])
        end
    end.

  Lemma ini_body_unfold st ln bom l1 :
    ini_body c st ln bom l1 = dispatch st ln (bom || negb (Nat.eqb (length (lskip (rstrip l1))) (length (rstrip l1)))) (lskip (rstrip l1)).
  Proof. reflexivity. Qed.

  Lemma head_nonspace_prefix a b : head_nonspace (a ++ b) = true -> a <> [] -> head_nonspace a = true.
  Proof. destruct a; [congruence|]. simpl. auto. Qed.

  Lemma dispatch_nil st ln moved : dispatch st ln moved [] = (same_state st ln, []).
  Proof. reflexivity. Qed.

  (** a line [w ++ X]: leading whitespace [w], then [X] which is empty or starts with a non-space byte *)
  Lemma ini_body_dispatch st ln bom w X : all_space w = true -> head_nonspace X = true ->
    ini_body c st ln bom (w ++ X) = dispatch st ln (bom || nonempty w) (rstrip X).
  Proof.
    intros W HX. rewrite ini_body_unfold.
    destruct (rstrip X) as [|x X'] eqn:R.
    - assert (E : rstrip (w ++ X) = []).
      { destruct (rstrip_split X) as [w' [E W']]. rewrite R in E. simpl in E. subst X. rewrite rstrip_app_space by assumption. now apply rstrip_all_space. }
      rewrite E. reflexivity.
    - assert (E : rstrip (w ++ X) = w ++ x :: X') by (rewrite rstrip_app_nonempty; [now rewrite R|rewrite R; discriminate]).
      rewrite E.
      assert (Hx : head_nonspace (x :: X') = true).
      { destruct (rstrip_split X) as [w' [E' _]]. rewrite R in E'. rewrite E' in HX. exact HX. }
      rewrite lskip_app_space by assumption. rewrite (lskip_head_nonspace _ Hx).
      f_equal. f_equal. destruct w as [|b w].
      + simpl. now rewrite Nat.eqb_refl.
      + change (nonempty (b :: w)) with true. apply negb_true_iff, Nat.eqb_neq. simpl. rewrite app_length. simpl. lia.
  Qed.

  (** ** blank and comment lines *)
  Lemma eol_space e : all_space (render_eol e) = true.
  Proof. destruct e; reflexivity. Qed.
  Lemma inline_ws_space w : inline_ws w = true -> all_space w = true.
  Proof. unfold inline_ws, all_space. rewrite !forallb_forall. intros H x Hx. specialize (H x Hx). now apply andb_prop in H as [H _]. Qed.
  Lemma all_space_app a b : all_space a = true -> all_space b = true -> all_space (a ++ b) = true.
  Proof. unfold all_space. rewrite forallb_app. now intros -> ->. Qed.

  Theorem blank_line st ln bom w e : inline_ws w = true ->
    ini_body c st ln bom (w ++ render_eol e) = (same_state st ln, []).
  Proof.
    intros W. rewrite <- (app_nil_r (w ++ render_eol e)).
    rewrite ini_body_dispatch; [reflexivity| |reflexivity]. apply all_space_app; [now apply inline_ws_space|apply eol_space].
  Qed.

  Lemma start_comment_nonspace m : memb m (ini_start_comment c) = true -> is_space m = false.
  Proof. rewrite SC. unfold memb. simpl. rewrite !orb_false_r. intros H. apply orb_prop in H as [H|H]; apply beq_eq in H; subst; reflexivity. Qed.

  (** a comment line produces no handler call and changes nothing, whatever its text *)
  Theorem comment_line_no_event st ln bom w m t e : inline_ws w = true -> memb m (ini_start_comment c) = true ->
    ini_body c st ln bom (w ++ [m] ++ t ++ render_eol e) = (same_state st ln, []).
  Proof.
    intros W M. pose proof (start_comment_nonspace m M) as Sm.
    rewrite ini_body_dispatch; [|now apply inline_ws_space|simpl; now rewrite Sm].
    simpl app. rewrite rstrip_cons_nonspace by assumption. unfold dispatch. now rewrite M.
  Qed.

  (** ** continuation lines *)
  Lemma no_outer_ws_facts v : no_outer_ws v = true -> rstrip v = v /\ head_nonspace v = true.
  Proof.
    unfold no_outer_ws. rewrite andb_true_iff, !list_eqb_eq. intros [A B]. split; [assumption|now apply lskip_fixed_head].
  Qed.

  Theorem cont_line_event st ln bom w v e : nonempty (st_prev st) = true ->
    inline_ws w = true -> nonempty w = true -> nonempty v = true -> no_outer_ws v = true -> head_not_in (ini_start_comment c) v = true ->
    ini_body c st ln bom (w ++ v ++ render_eol e) = (same_state st ln, [(st_section st, st_prev st, v)]).
  Proof.
    intros P W Wn Vn V Hd. destruct (no_outer_ws_facts v V) as [R Hn].
    rewrite ini_body_dispatch; [|now apply inline_ws_space|destruct v; [discriminate|exact Hn]].
    rewrite rstrip_app_space by apply eol_space. rewrite R. destruct v as [|b v]; [discriminate|].
    unfold dispatch. simpl in Hd. apply negb_true_iff in Hd. rewrite Hd, P, Wn, orb_true_r. reflexivity.
  Qed.

  (** ** section lines *)
  Lemma memb_single x y : memb x [y] = beq x y.
  Proof. unfold memb. simpl. now rewrite orb_false_r. Qed.
  Lemma not_memb_forall ch n : negb (memb ch n) = true -> forall b, In b n -> memb b [ch] = false.
  Proof.
    intros H b Hb. rewrite memb_single. apply beq_neq. intros ->. apply negb_true_iff in H.
    assert (memb ch n = true) by now apply memb_In. congruence.
  Qed.

  Theorem section_line st ln bom w n t e :
    inline_ws w = true -> negb (memb RBR n) = true -> no_inline c n = true ->
    (nonempty (st_prev st) && (bom || nonempty w)) = false ->
    ini_body c st ln bom (w ++ [LBR] ++ n ++ [RBR] ++ t ++ render_eol e) =
    ({| st_section := takeN (ini_max_section c - 1) n; st_prev := []; st_error := st_error st; st_lineno := ln |}, []).
  Proof.
    intros W N I P. rewrite ini_body_dispatch; [|now apply inline_ws_space|reflexivity].
    simpl app. rewrite rstrip_cons_nonspace by reflexivity.
    rewrite (rstrip_app_nonempty n (RBR :: t ++ render_eol e)) by (rewrite rstrip_cons_nonspace by reflexivity; discriminate).
    rewrite rstrip_cons_nonspace by reflexivity.
    unfold dispatch. rewrite SC. change (memb LBR [SEMI; HASH]) with false. cbv iota. rewrite P.
    change (beq LBR LBR) with true. cbv iota. rewrite IC.
    rewrite fcc_stop_char; [| now apply not_memb_forall | unfold no_inline in I; rewrite IC in I; now apply negb_true_iff in I | reflexivity].
    change (beq RBR RBR) with true. reflexivity.
  Qed.

  (** ** name[=:]value lines *)
  Lemma inline_ws_not w x : inline_ws w = true -> is_space x = false -> forall b, In b w -> beq b x = false.
  Proof.
    intros W X b Hb. apply beq_neq. intros ->. apply inline_ws_space in W. unfold all_space in W. rewrite forallb_forall in W.
    specialize (W _ Hb). congruence.
  Qed.

  Lemma has_inline_ws w ws0 : inline_ws w = true -> has_inline [SEMI] ws0 w = false.
  Proof.
    intros W. apply has_inline_space. intros b Hb. rewrite memb_single. now apply (inline_ws_not w SEMI W).
  Qed.

  Lemma strip_q_quote q v : is_space q = false -> strip_q q ([q] ++ v ++ [q]) = Some v.
  Proof.
    intros _. unfold strip_q. cbn [app]. rewrite beq_refl.
    assert (L : last (q :: v ++ [q]) NUL = q).
    { change (q :: v ++ [q]) with ((q :: v) ++ [q]). apply last_last. }
    rewrite L, beq_refl. simpl. now rewrite removelast_last.
  Qed.

  Lemma unquote_quote q v : match q with QNone => is_none (strip_q DQ v) && is_none (strip_q SQ v) | _ => true end = true ->
    unquote (quote q v) = v.
  Proof.
    destruct q; intros H; unfold quote.
    - apply andb_prop in H as [A B]. unfold unquote. destruct (strip_q DQ v); [discriminate|]. destruct (strip_q SQ v); [discriminate|reflexivity].
    - unfold unquote. now rewrite (strip_q_quote DQ v eq_refl).
    - unfold unquote. assert (E : strip_q DQ ([SQ] ++ v ++ [SQ]) = None) by reflexivity. rewrite E. now rewrite (strip_q_quote SQ v eq_refl).
  Qed.

  (** the quoted value, as written, is empty or has a non-space first byte and no trailing space *)
  Lemma quote_shape q v : match q with QNone => no_outer_ws v | _ => true end = true ->
    rstrip (quote q v) = quote q v /\ head_nonspace (quote q v) = true.
  Proof.
    destruct q; intros H; unfold quote.
    - now apply no_outer_ws_facts.
    - split; [|reflexivity]. cbn [app]. rewrite rstrip_cons_nonspace by reflexivity. f_equal.
      rewrite rstrip_app_nonempty; [reflexivity|simpl; discriminate].
    - split; [|reflexivity]. cbn [app]. rewrite rstrip_cons_nonspace by reflexivity. f_equal.
      rewrite rstrip_app_nonempty; [reflexivity|simpl; discriminate].
  Qed.

  Lemma strip_both w3 qv w : all_space w3 = true -> all_space w = true -> rstrip qv = qv -> head_nonspace qv = true ->
    rstrip (lskip (w3 ++ qv ++ w)) = qv.
  Proof.
    intros W3 W R Hn. rewrite lskip_app_space by assumption.
    destruct qv as [|b qv'].
    - simpl. rewrite lskip_all_space by assumption. reflexivity.
    - rewrite lskip_head_nonspace by exact Hn. rewrite rstrip_app_space by assumption. exact R.
  Qed.

  Definition kv_tail (w4 : list byte) (cm : option (list byte)) (e : eol) : list byte :=
    w4 ++ match cm with Some t => SEMI :: t | None => [] end ++ render_eol e.

  Theorem kv_line_event st ln bom w1 k w2 sep w3 q v w4 cm e :
    wf_item c (nonempty (st_prev st)) (IKeyValue w1 k w2 sep w3 q v w4 cm) = true ->
    (bom = true -> st_prev st = []) ->
    ini_body c st ln bom (w1 ++ k ++ w2 ++ [sep] ++ w3 ++ quote q v ++ kv_tail w4 cm e) =
    ({| st_section := st_section st; st_prev := takeN (ini_max_name c - 1) k; st_error := st_error st; st_lineno := ln |},
     [(st_section st, k, v)]).
  Proof.
    intros WF Bom. simpl in WF. rewrite !andb_true_iff in WF.
    destruct WF as [[[[[[[[[[[[[[[[W1 W2] W3] W4] Ck] K1] K2] K3] K4] K5] K6] Pw] Sp] Cv] Iv] Qv] Cm].
    destruct (no_outer_ws_facts k K4) as [Rk Hk].
    assert (SEPns : is_space sep = false) by (apply orb_prop in Sp as [E|E]; apply beq_eq in E; subst; reflexivity).
    assert (SEPm : memb sep [EQB; COLONB] = true).
    { unfold memb. simpl. apply orb_prop in Sp as [E|E]; rewrite E; [reflexivity|apply orb_true_r]. }
    assert (QS : match q with QNone => no_outer_ws v | _ => true end = true).
    { clear -Qv. destruct q; auto. apply andb_prop in Qv as [Qv _]. now apply andb_prop in Qv as [Qv _]. }
    assert (QU : match q with QNone => is_none (strip_q DQ v) && is_none (strip_q SQ v) | _ => true end = true).
    { clear -Qv. destruct q; auto. apply andb_prop in Qv as [Qv C]. apply andb_prop in Qv as [_ B]. now rewrite B, C. }
    destruct (quote_shape q v QS) as [Rq Hq].
    pose proof (unquote_quote q v QU) as UQ.
    (* the part after w1 *)
    set (R := w3 ++ quote q v ++ kv_tail w4 cm e).
    replace (w1 ++ k ++ w2 ++ [sep] ++ R) with (w1 ++ ((k ++ w2) ++ sep :: R)) by (now rewrite <- !app_assoc).
    assert (HX : head_nonspace ((k ++ w2) ++ sep :: R) = true).
    { destruct k as [|b k']; [|exact Hk]. simpl in K6. apply negb_true_iff in K6. destruct w2; [|discriminate]. simpl. now rewrite SEPns. }
    rewrite ini_body_dispatch; [|now apply inline_ws_space|exact HX].
    rewrite (rstrip_app_nonempty (k ++ w2) (sep :: R)) by (rewrite rstrip_cons_nonspace by assumption; discriminate).
    rewrite rstrip_cons_nonspace by assumption.
    (* moved *)
    assert (MV : (nonempty (st_prev st) && (bom || nonempty w1)) = false).
    { destruct (nonempty (st_prev st)) eqn:P; [|reflexivity]. destruct bom.
      - rewrite (Bom eq_refl) in P. discriminate.
      - simpl in Pw. simpl. now apply negb_true_iff in Pw. }
    (* first byte *)
    assert (HD : match (k ++ w2) ++ sep :: rstrip R with b :: _ => memb b (ini_start_comment c) = false /\ beq b LBR = false | [] => False end).
    { destruct k as [|b k'].
      - simpl in K6. apply negb_true_iff in K6. destruct w2; [|discriminate]. simpl. rewrite SC.
        apply orb_prop in Sp as [E|E]; apply beq_eq in E; subst; split; reflexivity.
      - simpl. simpl in K5. apply negb_true_iff in K5. rewrite SC in *. unfold memb in *. simpl in K5. apply orb_false_iff in K5 as [A B]. split; assumption. }
    unfold dispatch. destruct ((k ++ w2) ++ sep :: rstrip R) as [|b0 rest0] eqn:ST; [contradiction|]. destruct HD as [H1 H2].
    rewrite H1, MV, H2. rewrite <- ST. clear ST H1 H2 b0 rest0.
    (* the name *)
    rewrite IC.
    assert (NC : forall b, In b (k ++ w2) -> memb b [EQB; COLONB] = false).
    { intros b Hb. apply in_app_or in Hb as [Hb|Hb].
      - unfold memb. simpl. rewrite orb_false_r. apply orb_false_iff. split; apply beq_neq; intros ->.
        + apply negb_true_iff in K1. assert (memb EQB k = true) by now apply memb_In. congruence.
        + apply negb_true_iff in K2. assert (memb COLONB k = true) by now apply memb_In. congruence.
      - unfold memb. simpl. rewrite orb_false_r. apply orb_false_iff. split; [apply (inline_ws_not w2 EQB W2 eq_refl b Hb)|apply (inline_ws_not w2 COLONB W2 eq_refl b Hb)]. }
    assert (NI : has_inline [SEMI] false (k ++ w2) = false).
    { rewrite has_inline_app. unfold no_inline in K3. rewrite IC in K3. apply negb_true_iff in K3. rewrite K3. simpl. now apply has_inline_ws. }
    rewrite (fcc_stop_char _ _ _ _ _ _ NC NI SEPm). rewrite Sp.
    rewrite (rstrip_app_space k w2 (inline_ws_space _ W2)), Rk.
    (* the value *)
    assert (VAL : unquote (rstrip (lskip (fst (fcc [] [SEMI] false (rstrip R))))) = v).
    { unfold no_inline in Iv. rewrite IC in Iv. apply negb_true_iff in Iv.
      destruct cm as [t|].
      - (* inline comment: the scan stops at the ';' after w4 *)
        apply andb_prop in Cm as [W4n Ct].
        assert (RR : rstrip R = (w3 ++ quote q v ++ w4) ++ SEMI :: rstrip (t ++ render_eol e)).
        { unfold R, kv_tail. replace (w3 ++ quote q v ++ w4 ++ (SEMI :: t) ++ render_eol e) with ((w3 ++ quote q v ++ w4) ++ SEMI :: t ++ render_eol e) by (now rewrite <- !app_assoc).
          rewrite rstrip_app_nonempty by (rewrite rstrip_cons_nonspace by reflexivity; discriminate). now rewrite rstrip_cons_nonspace by reflexivity. }
        rewrite RR. rewrite fcc_stop_inline; [simpl fst|intros b _; reflexivity| | |reflexivity].
        + rewrite strip_both; [exact UQ|now apply inline_ws_space|now apply inline_ws_space|exact Rq|exact Hq].
        + rewrite app_assoc, has_inline_app, Iv. simpl. now apply has_inline_ws.
        + rewrite app_assoc. apply ends_space_app_space; [destruct w4; [discriminate|discriminate]|now apply inline_ws_space].
      - (* no comment: w4 and the line end are stripped with the line *)
        assert (RR : rstrip R = rstrip (w3 ++ quote q v)).
        { unfold R, kv_tail. simpl app. rewrite app_assoc, app_assoc. rewrite <- (app_assoc (w3 ++ quote q v)).
          apply rstrip_app_space. apply all_space_app; [now apply inline_ws_space|apply eol_space]. }
        rewrite RR. destruct (rstrip_split (w3 ++ quote q v)) as [w' [E W']].
        rewrite fcc_all; [simpl fst|intros b _; reflexivity|].
        + destruct (quote q v) as [|b qv'] eqn:EQ.
          * rewrite app_nil_r. rewrite (rstrip_all_space w3 (inline_ws_space _ W3)). simpl. exact UQ.
          * rewrite (rstrip_app_nonempty w3 (b :: qv')) by (rewrite Rq; discriminate). rewrite Rq.
            replace (w3 ++ b :: qv') with (w3 ++ (b :: qv') ++ []) by now rewrite app_nil_r.
            rewrite strip_both; [exact UQ|now apply inline_ws_space|reflexivity|exact Rq|exact Hq].
        + rewrite E in Iv. rewrite has_inline_app in Iv. now apply orb_false_iff in Iv as [Iv _]. }
    destruct (fcc [] [SEMI] false (rstrip R)) as [v1 r1] eqn:F. simpl fst in VAL. rewrite VAL. reflexivity.
  Qed.
End Lines.

(** ** error lines: a line without '=' or ':' that is neither a comment, a section header nor a
    continuation makes no handler call (it only sets the return value of ini_parse) *)
Section ErrorLines.
  Variable c : config_consts.

  Lemma fcc_rest_head chars inl s : forall ws0, match snd (fcc chars inl ws0 s) with [] => True | x :: _ => In x s /\ (memb x chars = true \/ memb x inl = true) end.
  Proof.
    induction s as [|b s IH]; intros ws0; simpl; [exact I|].
    destruct (memb b chars || (ws0 && memb b inl)) eqn:E.
    - simpl. split; [now left|]. apply orb_prop in E as [E|E]; [now left|right]. now apply andb_prop in E as [_ E].
    - specialize (IH (is_space b)). destruct (fcc chars inl (is_space b) s) as [p r]. simpl in *. destruct r; [exact I|]. destruct IH as [A B]. split; [now right|assumption].
  Qed.

  Theorem error_line_no_event st ln bom l1 :
    (forall b, In b (lskip (rstrip l1)) -> b <> EQB /\ b <> COLONB) ->
    (nonempty (st_prev st) && (bom || negb (Nat.eqb (length (lskip (rstrip l1))) (length (rstrip l1))))) = false ->
    snd (ini_body c st ln bom l1) = [].
  Proof.
    intros NS NC. unfold ini_body. destruct (lskip (rstrip l1)) as [|b rest] eqn:S; [reflexivity|].
    destruct (memb b (ini_start_comment c)); [reflexivity|]. rewrite NC.
    destruct (beq b LBR).
    - destruct (fcc [RBR] (ini_inline_comment c) false rest) as [sec r]. destruct r as [|x r]; [reflexivity|]. destruct (beq x RBR); reflexivity.
    - pose proof (fcc_rest_head [EQB; COLONB] (ini_inline_comment c) (b :: rest) false) as H.
      destruct (fcc [EQB; COLONB] (ini_inline_comment c) false (b :: rest)) as [nm r]. simpl in H. destruct r as [|x v]; [reflexivity|].
      destruct H as [Hin _]. destruct (NS x Hin) as [N1 N2]. apply beq_neq in N1, N2. now rewrite N1, N2.
  Qed.
End ErrorLines.
